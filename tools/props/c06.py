"""C06 — the rank graph covers exactly the requested pairs, in both orientations."""
from __future__ import annotations

import ast
import itertools
import json
import os

import vlib

LEVEL = "proof"
RULE = ("frames of 1..40 duplicate-free columns (random names incl. ' AND_REL ' and near-misses, unicode, empty, names that "
        "are prefixes of each other), label at any position, heuristic in {max-value-coverage, MI-numba, "
        "MI-numba-randomized, Constant, MI-numba-3mr, Constant-3mr}, target_ranking_only in {'True','False',other}, "
        "caps 0..|cands|+5 plus boundary/huge/negative values, 1..3 batches on a shared counter; the real "
        "get_combinations_from_columns (list) and mixed_rank_graph rows (serial fake pool) are fed to the Coq checker "
        "C06_check; non-trivial = at least 2 columns; distinct = distinct canonical cases")
THEOREMS = ["C06_target_only", "C06_pairwise", "C06_3mr", "C06_spec_decidable", "C06_listed_once", "C06_target_only_once",
            "C06_multiplicity", "C06_pairwise_multiplicity", "C06_valid_batch_no_reference", "C06_ref_filter_set",
            "C06_ref_requested", "C06_ref_batch_spec", "C06_ref_complete", "C06_clamp", "C06_selected", "C06_selected_min", "C06_transcription_selected",
            "C06_mirrored", "C06_constant_once", "C06_closed", "C06_requested", "C06_batch_spec",
            "C06_rows_checker_exact", "C06_fast_rows_checker", "C06_fast_cands_checker", "C06_check_sound", "C06_model_ok", "C06_sorted_set_canonical"]
HEADER = ("From Coq Require Import List ZArith NArith Bool.\n"
          "From Outrank Require Import Pipeline.Sampler Pipeline.Combos.\n"
          "Import ListNotations.\nOpen Scope N_scope.")
SRC = os.path.join(vlib.REPO, "outrank", "core_ranking.py")
SEL_LIMIT = 120      # the imported sampler transcription is evaluated only on candidate lists up to this length (informational)


# ---------------------------------------------------------------------------
# constants and mode tests of the source, read with ast (fail closed)

class Refuse(Exception):
    pass


def _is_args_attr(node, attr):
    return (isinstance(node, ast.Attribute) and node.attr == attr and isinstance(node.value, ast.Name)
            and node.value.id == "args")


def _const_value(node, depth=0):
    """int/str literal or an integer constant expression (10 ** 4, 2 * 5000, ...); None when it is not one."""
    if isinstance(node, ast.Constant) and isinstance(node.value, (int, str)) and not isinstance(node.value, bool):
        return node.value
    if isinstance(node, ast.BinOp) and isinstance(node.op, (ast.Pow, ast.Mult, ast.Add, ast.Sub)) and depth < 6:
        a, b = _const_value(node.left, depth + 1), _const_value(node.right, depth + 1)
        if isinstance(a, int) and isinstance(b, int):
            if isinstance(node.op, ast.Pow):
                return a ** b if 0 <= b <= 64 else None
            return {ast.Mult: a * b, ast.Add: a + b, ast.Sub: a - b}[type(node.op)]
    if isinstance(node, ast.UnaryOp) and isinstance(node.op, ast.USub):
        v = _const_value(node.operand, depth + 1)
        return -v if isinstance(v, int) else None
    return None


class _Source:
    """Module-level view of a source file: names bound exactly once at module level to a literal / constant expression, the
    top-level functions, and what is reachable from given functions through calls of top-level helpers."""

    def __init__(self, path):
        self.tree = ast.parse(open(path, encoding="utf8").read())
        bound = {}
        for n in self.tree.body:
            tgt = val = None
            if isinstance(n, ast.Assign) and len(n.targets) == 1 and isinstance(n.targets[0], ast.Name):
                tgt, val = n.targets[0].id, n.value
            elif isinstance(n, ast.AnnAssign) and isinstance(n.target, ast.Name) and n.value is not None:
                tgt, val = n.target.id, n.value
            if tgt is not None:
                bound.setdefault(tgt, []).append(val)
        self.consts = {}
        for name, vals in bound.items():
            if len(vals) == 1:
                v = _const_value(vals[0])
                if v is not None:
                    self.consts[name] = v
        self.funcs = {n.name: n for n in self.tree.body if isinstance(n, ast.FunctionDef)}

    def value(self, node):
        """Literal, constant expression, or a Name bound once at module level to one (one more Name hop allowed)."""
        v = _const_value(node)
        if v is not None:
            return v
        if isinstance(node, ast.Name) and node.id in self.consts:
            return self.consts[node.id]
        return None

    def reachable(self, roots, stop=()):
        seen, todo = [], [r for r in roots if r in self.funcs]
        while todo:
            f = todo.pop()
            if f in seen:
                continue
            seen.append(f)
            for n in ast.walk(self.funcs[f]):
                if isinstance(n, ast.Call) and isinstance(n.func, ast.Name) and n.func.id in self.funcs \
                        and n.func.id not in stop and n.func.id not in seen:
                    todo.append(n.func.id)
        return [self.funcs[f] for f in seen]


def extract_source_constants(path=None):
    """Reads, as far as the shapes are recognised, the constants and mode tests the model hard-codes.  Returns
    {"read": {key: set of values found}, "unread": {key: reason}}.  Recognised shapes: literals or names bound once at module level
    to a literal / constant expression; tests in either polarity (`in`/`not in`, `==`/`!=`), on either side; inside
    get_combinations_from_columns / mixed_rank_graph or module-level helpers they call.  A key that is not found is UNREAD (an
    evidence note: the correspondence pins the behaviour); a key found with a value/operator other than the model's is a mismatch."""
    read = {k: set() for k in ("max_features", "heur_in", "heur_eq", "tro_eq", "col_in", "col_eq", "join", "split", "prior_heuristics")}
    unread = {}
    try:
        src = _Source(path or SRC)
    except (OSError, SyntaxError) as e:
        return {"read": read, "unread": {k: "source not parsed: %s" % e for k in read}}
    anchors = ("get_combinations_from_columns", "mixed_rank_graph")
    for a_ in anchors:
        if a_ not in src.funcs:
            unread["anchor:" + a_] = "no top-level def %s" % a_
    for f in src.reachable(anchors):
        for n in ast.walk(f):
            if isinstance(n, ast.Compare) and len(n.ops) == 1:
                op, l, r = n.ops[0], n.left, n.comparators[0]
                lv, rv = src.value(l), src.value(r)
                if isinstance(op, (ast.In, ast.NotIn)) and isinstance(lv, str):
                    if _is_args_attr(r, "heuristic"):
                        read["heur_in"].add(lv)
                    elif isinstance(r, ast.Name):
                        read["col_in"].add(lv)                      # `' AND_REL ' in column`
                elif isinstance(op, (ast.Eq, ast.NotEq)):
                    for x, v in ((l, rv), (r, lv)):
                        if isinstance(v, str) and _is_args_attr(x, "heuristic"):
                            read["heur_eq"].add(v)
                        elif isinstance(v, str) and _is_args_attr(x, "target_ranking_only"):
                            read["tro_eq"].add(v)
                        elif isinstance(v, str) and isinstance(x, ast.Name) and " AND" in v:
                            read["col_eq"].add(v)
                elif isinstance(op, (ast.Gt, ast.GtE, ast.Lt, ast.LtE)):
                    for x, v in ((l, rv), (r, lv)):
                        if isinstance(v, int) and _is_args_attr(x, "combination_number_upper_bound"):
                            read["max_features"].add(v)
            elif isinstance(n, ast.Call) and isinstance(n.func, ast.Attribute):
                if n.func.attr == "join" and isinstance(src.value(n.func.value), str):
                    read["join"].add(src.value(n.func.value))
                elif n.func.attr == "split" and len(n.args) == 1 and isinstance(src.value(n.args[0]), str):
                    read["split"].add(src.value(n.args[0]))
            elif isinstance(n, ast.Call) and isinstance(n.func, ast.Name) and n.func.id == "min":
                if any(_is_args_attr(x, "combination_number_upper_bound") for x in n.args):
                    for x in n.args:
                        if isinstance(src.value(x), int):
                            read["max_features"].add(src.value(x))
    if not read["max_features"] and isinstance(src.consts.get("MAX_FEATURES_3MR"), int):
        # the constant exists but its use was not recognised: its value is still what the module binds
        read["max_features"].add(src.consts["MAX_FEATURES_3MR"])
    try:
        usrc = _Source(os.path.join(os.path.dirname(path or SRC), "core_utils.py"))
        for f in usrc.reachable(("is_prior_heuristic",)):
            for n in ast.walk(f):
                if isinstance(n, ast.Compare) and len(n.ops) == 1 and isinstance(n.ops[0], (ast.In, ast.NotIn)) \
                        and _is_args_attr(n.left, "heuristic"):
                    c0 = n.comparators[0]
                    elts = c0.elts if isinstance(c0, (ast.Set, ast.List, ast.Tuple)) else None
                    if elts is None and isinstance(c0, ast.Name):
                        for m in usrc.tree.body:            # a module-level set/tuple of literals
                            if isinstance(m, ast.Assign) and len(m.targets) == 1 and isinstance(m.targets[0], ast.Name) \
                                    and m.targets[0].id == c0.id and isinstance(m.value, (ast.Set, ast.List, ast.Tuple)):
                                elts = m.value.elts
                    if elts is not None and all(isinstance(usrc.value(e), str) for e in elts):
                        read["prior_heuristics"].add(tuple(sorted(usrc.value(e) for e in elts)))
    except (OSError, SyntaxError):
        pass
    for k in ("max_features", "heur_in", "heur_eq", "tro_eq", "col_in", "join", "split", "prior_heuristics"):
        if not read[k]:
            unread[k] = "no recognised occurrence"
    return {"read": read, "unread": unread}


def compare_source_constants(found, model):
    """-> (mismatches, unread).  A mismatch = a recognised occurrence whose constant / operator is not the model's."""
    read = found["read"]
    mism = []

    exact = ("max_features", "heur_in", "heur_eq", "tro_eq", "prior_heuristics")     # tests specific enough that any other constant is a change

    def need(key, want, what):
        if read[key] and (want not in read[key] or (key in exact and read[key] != {want})):
            mism.append("%s: the source has %s, the model %r" % (what, sorted(map(repr, read[key])), want))
    need("max_features", model["max_features"], "3mr clamp constant compared with args.combination_number_upper_bound")
    need("heur_in", model["s_3mr"], "substring tested in args.heuristic")
    need("heur_eq", model["s_constant"], "string compared with args.heuristic")
    need("tro_eq", model["s_true"], "string compared with args.target_ranking_only")
    need("col_in", model["s_and_rel"], "substring that marks relation columns")
    need("join", model["join"], "joiner of reference-model feature names")
    need("split", model["split"], "separator of reference-model feature lists")
    need("prior_heuristics", tuple(model["prior_heuristics"]), "heuristic set of is_prior_heuristic")
    # the model's constant under the other operator class
    if model["s_3mr"] in read["heur_eq"]:
        mism.append("args.heuristic is compared for EQUALITY with %r (the model tests the substring)" % model["s_3mr"])
    if model["s_constant"] in read["heur_in"]:
        mism.append("%r is tested as a SUBSTRING of args.heuristic (the model tests equality)" % model["s_constant"])
    if model["s_and_rel"] in read["col_eq"]:
        mism.append("a column is compared for EQUALITY with %r (the model tests the substring)" % model["s_and_rel"])
    return mism, dict(found["unread"])


# ---------------------------------------------------------------------------
# generator

_ALPH = "abcxyzfAB01_- "
_UNI = ["\u00e9", "\u00df", "\u65e5\u672c", "\U0001f600", "\u01c5", "\u0430", "\u03a9", "\u00a0", "\t", "e\u0301"]
_REL_NEAR = ["AND_REL", " AND_REL", "AND_REL ", " and_rel ", " AND REL ", " AND_RE L ", "  AND_REL", " AND "]


def _simple(rng):
    return "".join(rng.choice(_ALPH) for _ in range(rng.randint(1, 6)))


def gen_names(rng, n):
    names = []
    seen = set()
    guard = 0
    while len(names) < n:
        guard += 1
        k = rng.random()
        if k < 0.35 or guard > 50 * n:
            s = _simple(rng) + (str(guard) if guard > 50 * n else "")
        elif k < 0.50 and names:                      # prefix family
            s = rng.choice(names) + "".join(rng.choice(_ALPH) for _ in range(rng.randint(1, 2)))
        elif k < 0.55 and names:
            s = rng.choice(names)[:rng.randint(0, 3)]
        elif k < 0.75:                                # relation column
            a = rng.choice(names) if names and rng.random() < 0.6 else _simple(rng)
            b = rng.choice(names) if names and rng.random() < 0.6 else _simple(rng)
            s = rng.choice([a + " AND_REL " + b, " AND_REL " + b, a + " AND_REL ", " AND_REL ",
                            a + " AND_REL " + b + " AND_REL " + a])
        elif k < 0.85:                                # near misses
            s = _simple(rng) + rng.choice(_REL_NEAR) + _simple(rng)
        elif k < 0.95:
            s = rng.choice(_UNI) + (_simple(rng) if rng.random() < 0.5 else "") + (rng.choice(_UNI) if rng.random() < 0.3 else "")
        else:
            s = rng.choice(["", " ", "label", "3mr", "True", "Constant", "0", "nan", "None"])
        if s not in seen:
            seen.add(s)
            names.append(s)
    return names


def approx_ncands(cols, label, heuristic, tro):
    """Only used to aim caps at interesting values (never as an oracle)."""
    n = len(cols)
    if "3mr" in heuristic:
        rel = sum(1 for c in cols if " AND_REL " in c)
        m = n - rel
        return m * (m + 1) // 2 + rel + (0 if tro == "True" else rel)
    if tro == "True":
        return n
    return n * (n + 1) // 2


def gen_case(rng, tier):
    big = rng.random() < (0.3 if tier == "quick" else 0.45)
    n = rng.randint(1, 40) if big else rng.randint(1, 12)
    cols = gen_names(rng, n)
    label = rng.choice(cols)
    if rng.random() < 0.5:                            # non-relation label most of the time
        nr = [c for c in cols if " AND_REL " not in c]
        if nr:
            label = rng.choice(nr)
    k = rng.random()
    if k < 0.30:
        heuristic = "max-value-coverage"
    elif k < 0.42:
        heuristic = rng.choice(["MI-numba", "MI-numba-randomized"])
    elif k < 0.60:
        heuristic = "Constant"
    elif k < 0.95:
        heuristic = "MI-numba-3mr"
    else:
        heuristic = rng.choice(["Constant-3mr", "constant", "Constant ", "MI-numba-3MR"])
    k = rng.random()
    tro = "True" if k < 0.45 else ("False" if k < 0.9 else rng.choice(["true", "", "TRUE", "False ", "True ", "1"]))
    m = approx_ncands(cols, label, heuristic, tro)
    k = rng.random()
    if k < 0.6:
        cap = rng.randint(0, m + 5)
    elif k < 0.9:
        cap = rng.choice([0, 1, max(0, m - 1), m, m + 1, 2 * m, 10 ** 4, 10 ** 4 + 1, 2 ** 15, 10 ** 6])
    else:
        cap = rng.randint(-3, -1)
    k = rng.random()
    batches = 1 if k < 0.7 else (2 if k < 0.9 else 3)
    return {"cols": cols, "label": label, "heuristic": heuristic, "tro": tro, "cap": cap, "batches": batches,
            "nrows": rng.randint(3, 60), "data_seed": rng.randint(0, 10 ** 6)}


_LONG_ALPH = "abcdefghijklmnopqrstuvwxyz_0123456789"
_LONG_UNI = ["\u00e9", "\u65e5", "\U0001f600", "\u0430", "\u03a9", "e\u0301"]


def _long(rng, lo=60, hi=300, uni=0.0):
    n = rng.randint(lo, hi)
    return "".join(rng.choice(_LONG_UNI) if rng.random() < uni else rng.choice(_LONG_ALPH) for _ in range(n))


def gen_long_names(rng, n):
    """Names of 60..300 characters: independent ones, families that agree on their first 63/64/65 characters, unicode,
    interaction-style ('x AND y [AND z]') and relation-style (' AND_REL ') names built from long constituents."""
    names, seen = [], set()
    if rng.random() < 0.25:              # everything right at the 64-character boundary
        stem = _long(rng, 62, 62)
        while len(names) < n:
            t = (stem if rng.random() < 0.6 else _long(rng, 62, 62)) + _long(rng, 0, 4)
            if t not in seen:
                seen.add(t)
                names.append(t)
        return names
    stems = [_long(rng, 63, 63), _long(rng, 64, 64), _long(rng, 65, 65), _long(rng, 64, 64, uni=0.2)]
    while len(names) < n:
        k = rng.random()
        if k < 0.25:
            s = _long(rng, uni=0.15 if rng.random() < 0.4 else 0.0)
        elif k < 0.55:
            s = rng.choice(stems) + _long(rng, 0, 12)
        elif k < 0.75 and names:
            s = " AND ".join(rng.sample(names, min(len(names), rng.randint(2, 3))))[:300]
        elif k < 0.95 and names:
            s = " AND_REL ".join(rng.sample(names, min(len(names), 2)))[:300]
        else:
            s = _long(rng, 60, 66)
        if s not in seen:
            seen.add(s)
            names.append(s)
    return names


def _mode(rng):
    k = rng.random()
    heuristic = ("max-value-coverage" if k < 0.35 else "MI-numba" if k < 0.45 else "Constant" if k < 0.6 else "MI-numba-3mr")
    tro = "True" if rng.random() < 0.45 else "False"
    return heuristic, tro


def gen_long_case(rng):
    cols = gen_long_names(rng, rng.randint(2, 14))
    heuristic, tro = _mode(rng)
    label = rng.choice(cols)
    m = approx_ncands(cols, label, heuristic, tro)
    return {"cols": cols, "label": label, "heuristic": heuristic, "tro": tro, "cap": rng.choice([m + 3, rng.randint(0, m + 5), 10 ** 6]),
            "batches": rng.choice([1, 1, 2]), "nrows": rng.randint(3, 40), "data_seed": rng.randint(0, 10 ** 6)}


def gen_combine_case(rng, order, rel):
    """Frame enlarged by the REAL compute_combined_features from 33..35-character base names (interaction_order 2..3 -> 72..110
    character names; rel=True -> ' AND_REL ' relation names for the 3mr family)."""
    nb = rng.randint(order + 1, 5)
    cols = [_long(rng, 33, 35) for _ in range(nb)]
    cols.insert(rng.randint(0, nb), rng.choice(["label", _long(rng, 33, 35)]))
    label = rng.choice(cols) if rng.random() < 0.3 else ("label" if "label" in cols else cols[0])
    if rel:
        heuristic, tro = "MI-numba-3mr", rng.choice(["True", "False"])
    else:
        heuristic, tro = _mode(rng)
        if "3mr" in heuristic:
            heuristic = "max-value-coverage"
    return {"cols": cols, "label": label, "heuristic": heuristic, "tro": tro, "cap": rng.choice([10 ** 6, rng.randint(1, 60)]),
            "batches": 1, "nrows": rng.randint(6, 30), "data_seed": rng.randint(0, 10 ** 6),
            "combine": {"order": order, "rel": bool(rel), "cap": 10 ** 6}}


def gen_pool_case(rng, ncpus, kind="fake"):
    """A pool object carrying the attributes of a pathos ProcessingPool (ncpus, nodes) - or a real pathos pool - with at least
    64*ncpus + delta selected pairs and (pairs mod ncpus) != 0, so that any per-worker partition of the pair list has a remainder."""
    if kind == "pathos":
        n = rng.randint(17, 20)
        heuristic, tro = "max-value-coverage", "False"
    else:
        need = 64 * ncpus + rng.randint(1, 9)
        n = 2
        while n * (n + 1) // 2 + n - 1 < need + ncpus:
            n += 1
        n = min(40, n + rng.randint(0, 2))
        heuristic = rng.choice(["max-value-coverage", "MI-numba", "MI-numba-3mr"])
        tro = "False"
    cols = ["f%02d%s" % (i, _simple(rng)) for i in range(n)]
    label = rng.choice(cols)
    m = approx_ncands(cols, label, heuristic, tro)
    cap = m if (m % ncpus or ncpus == 1) else m - 1
    if kind == "fake" and ncpus > 1 and rng.random() < 0.5:
        cap = 64 * ncpus + rng.randint(1, max(1, m - 64 * ncpus))
        if cap % ncpus == 0:
            cap -= 1
    return {"cols": cols, "label": label, "heuristic": heuristic, "tro": tro, "cap": cap, "batches": 1,
            "nrows": rng.randint(8, 30), "data_seed": rng.randint(0, 10 ** 6), "pool": {"kind": kind, "ncpus": ncpus}}


def family_cases(rng, tier):
    """Cases every run contains, whatever the seed."""
    out = [gen_combine_case(rng, 2, False), gen_combine_case(rng, 3, False), gen_combine_case(rng, 2, True),
           gen_combine_case(rng, 2, False)]
    out += [gen_long_case(rng) for _ in range(24 if tier == "quick" else 150)]
    out += [gen_ref_case(rng) for _ in range(24 if tier == "quick" else 200)]
    for kind in (["none"] * 3 + ["list"] * 8 + ["json"] * 8 if tier == "quick" else ["none"] * 20 + ["list"] * 80 + ["json"] * 80):
        out.append(gen_cbr_case(rng, kind))
    for k in ([1, 2, 2, 3, 3, 8] if tier == "quick" else [1, 2, 3, 8] * 6):
        out.append(gen_pool_case(rng, k))
    out += [gen_pool_case(rng, 2, "pathos"), gen_pool_case(rng, 3, "pathos")]     # >= 4 s each: the code polls with time.sleep(4)
    return out


def clamp_case(rng):
    """More than 10^4 candidates in 3mr mode, so that the MAX_FEATURES_3MR clamp decides the number of rows."""
    cols = ["c%03d" % i for i in range(143)] + ["c000 AND_REL c001", "label"]
    rng.shuffle(cols)
    return {"cols": cols, "label": "label", "heuristic": "MI-numba-3mr", "tro": rng.choice(["True", "False"]),
            "cap": rng.choice([10 ** 4 + 1, 2 ** 15, 10 ** 6]), "batches": 1, "nrows": 4, "data_seed": 7, "light": True}


def exhaustive_cases():
    pool = ["a", "b", " AND_REL ", "a AND_REL b"]
    out = []
    for n in (1, 2, 3):
        for cols in itertools.permutations(pool, n):
            for label in cols:
                for heuristic in ("max-value-coverage", "MI-numba-3mr", "Constant"):
                    for tro in ("True", "False"):
                        m = approx_ncands(cols, label, heuristic, tro)
                        for cap in range(0, m + 2):
                            out.append({"cols": list(cols), "label": label, "heuristic": heuristic, "tro": tro,
                                        "cap": cap, "batches": 1, "nrows": 6, "data_seed": 3})
    return out


def load_corpus(pid):
    d = os.path.join(vlib.VERIF, "corpus", pid)
    out = []
    if os.path.isdir(d):
        for f in sorted(os.listdir(d)):
            if f.endswith(".json"):
                out.append(json.load(open(os.path.join(d, f))))
    return out


# ---------------------------------------------------------------------------
# evaluation of cases: implementation, then the checker in Coq

def _case_term(c):
    ref = "None" if c.get("ref") is None else "(Some %s)" % vlib.strlist(c["ref"])
    return "(mkCase %s %s %s %s (%s)%%Z %d%%nat %s)" % (
        vlib.strlist(c["cols"]), vlib.strlit(c["heuristic"]), vlib.strlit(c["tro"]), vlib.strlit(c["label"]),
        vlib.zlit(c["cap"]), int(c["batches"]), ref)


def _expr(c, r):
    """Coq expression for one full case -> (verdicts...)."""
    names = list(c["cols"])
    idx = {s: i for i, s in enumerate(names)}

    def nid(s):
        if s not in idx:
            idx[s] = len(names)
            names.append(s)
        return idx[s]
    skeys = {"0": 0}

    def sid(k):
        if k not in skeys:
            skeys[k] = len(skeys)
        return skeys[k]
    cands = "[" + "; ".join("(%d, %d)" % (nid(a), nid(b)) for a, b in r["cands"]) + "]"
    rowsets = []
    sampled = []
    for b in r["batches"]:
        rowsets.append("[" + "; ".join("(%d, %d, %d)" % (nid(a), nid(b_), sid(s)) for a, b_, s in b["rows"]) + "]")
        if b.get("sampled") is not None:
            sampled.append("[" + "; ".join("(%d, %d)" % (nid(a), nid(b_)) for a, b_ in b["sampled"]) + "]")
    have_sampled = len(sampled) == len(r["batches"])
    caps = [b["cap_after"] for b in r["batches"]]
    cap_obs = caps[-1] if caps else r["cap_after_cands"]
    parts = dict(names=vlib.strlist(names), case=_case_term(c), cands=cands, rows="[" + "; ".join(rowsets) + "]",
                 samp=("[" + "; ".join(sampled) + "]") if have_sampled else "[]",
                 caps=vlib.zlist([r["cap_after_cands"]] + caps), cap_obs=vlib.zlit(cap_obs))
    with_sel = have_sampled and len(r["cands"]) <= SEL_LIMIT and not c.get("_no_sel")
    parts["sel"] = vlib.blit(with_sel)
    e = ("C06_eval %(names)s %(case)s (%(cands)s)%%nat (%(rows)s)%%nat (%(samp)s)%%nat (%(caps)s)%%Z (%(cap_obs)s)%%Z %(sel)s" % parts)
    have_sampled = with_sel
    return e, have_sampled


def _light_expr(c):
    return "C06_eval_light %s" % _case_term(c)


def _diagnose(c, r, bi):
    """Human-readable hint about which clause fails (the verdict itself comes from Coq)."""
    rows = r["batches"][bi]["rows"]
    cols = set(c["cols"])
    for a, b, s in rows:
        if a not in cols or b not in cols:
            return "row (%r, %r) mentions a name that is not a column of the frame" % (a, b)
    from collections import Counter
    cnt = Counter((a, b, s) for a, b, s in rows)
    if c["heuristic"] == "Constant":
        for (a, b, s) in cnt:
            if s != "0":
                return "Constant heuristic: row (%r, %r) has a non-zero score" % (a, b)
        return "Constant heuristic: number of rows / multiplicities do not match the capped candidate list"
    for (a, b, s), k in cnt.items():
        if cnt.get((b, a, s), 0) != k:
            return "row (%r, %r, score %s) occurs %d time(s) but its mirror (%r, %r) with the identical score occurs %d time(s)" % (
                a, b, s, k, b, a, cnt.get((b, a, s), 0))
        if a == b and k % 2:
            return "self-pair (%r, %r) has an odd number of rows with score %s" % (a, b, s)
    return "number of rows (%d) / pair multiplicities do not match 2 x the capped candidate list" % len(rows)


def _mset_diff(c, r, model_ix):
    from collections import Counter
    cols = c["cols"]

    def key(a, b):
        return tuple(sorted((a, b)))
    impl = Counter(key(a, b) for a, b in r["cands"])
    model = Counter(key(cols[i] if i < len(cols) else "?", cols[j] if j < len(cols) else "?") for i, j in model_ix)
    for k in sorted(set(impl) | set(model)):
        if impl.get(k, 0) != model.get(k, 0):
            return ("the pair {%r, %r} is listed %d time(s) by get_combinations_from_columns but %d time(s) by the model "
                    "(hence evaluated a different number of times per batch; the set of pairs is the requested one)"
                    % (k[0], k[1], impl.get(k, 0), model.get(k, 0)))
    return "candidate multiset differs from the model"


def _slice_len(n, cap):
    return len(range(n)[:cap])


def _ukey(a, b):
    return (a, b) if a <= b else (b, a)


PRIOR_HEURISTICS = ("surrogate-SGD", "surrogate-SVM", "surrogate-SGD-RP")     # mirror only; the model's list is held to the source


def _ref_filtered(c, cands):
    """Python mirror of the model's ref_filter (the authoritative one runs in Coq)."""
    if c.get("ref") is None or c["heuristic"] not in PRIOR_HEURISTICS:
        return cands
    refs = {" AND ".join(sorted(item.split(","))) for item in c["ref"]}
    return [p for p in cands if p[0] not in refs and p[1] not in refs]


def precheck(c, r):
    """Python mirror of the row clauses (closed / count / mirrored with identical scores / multiplicities), used to find a
    concrete failing batch cheaply and to keep pathological outputs away from Coq.  Returns None or (batch, clause).
    The authoritative verdict is the Coq checker's whenever the case is small enough to be sent there."""
    from collections import Counter
    if c.get("light") or not r["ok"]:
        return None
    n_cols = len(c["cols"])
    if len(r["cands"]) > n_cols * (n_cols + 1) + 2 * n_cols + 8:
        return (-1, "get_combinations_from_columns returns %d candidates for %d columns (more than every requested pair listed twice)"
                % (len(r["cands"]), n_cols))
    cols = set(c["cols"])
    const = c["heuristic"] == "Constant"
    mult = 1 if const else 2
    fc = _ref_filtered(c, r["cands"])
    ucands = Counter(_ukey(a, b) for a, b in fc)
    for bi, b in enumerate(r["batches"]):
        n = _slice_len(len(fc), b["cap_after"])
        rows = b["rows"]
        for a, b_, s in rows:
            if a not in cols or b_ not in cols:
                return (bi, "row (%r, %r) mentions a name that is not a column of this batch's frame" % (a, b_))
        if b["nrows"] != mult * n:
            return (bi, "the batch returns %d rows; %d x len(candidates[:cap]) = %d expected (|candidates| = %d%s, cap = %d)"
                    % (b["nrows"], mult, mult * n, len(fc),
                       " after dropping pairs that touch a reference-model feature" if len(fc) != len(r["cands"]) else "", b["cap_after"]))
        cnt = Counter((a, b_, s) for a, b_, s in rows)
        if const:
            for (a, b_, s) in cnt:
                if s != "0":
                    return (bi, "Constant heuristic: row (%r, %r) has a non-zero score" % (a, b_))
        else:
            for (a, b_, s), k in cnt.items():
                if cnt.get((b_, a, s), 0) != k:
                    return (bi, "row (%r, %r, score %s) occurs %d time(s) but its mirror (%r, %r) with the identical score occurs %d time(s)"
                            % (a, b_, s, k, b_, a, cnt.get((b_, a, s), 0)))
                if a == b_ and k % 2:
                    return (bi, "self-pair (%r, %r) has an odd number of rows with score %s" % (a, b_, s))
        ur = Counter(_ukey(a, b_) for a, b_, s in rows)
        for k_, v in ur.items():
            if v > mult * ucands.get(k_, 0):
                return (bi, "the pair {%r, %r} has %d row(s) but is listed %d time(s) among the candidates" % (k_[0], k_[1], v, ucands.get(k_, 0)))
    return None


def _coq_sized(c, r):
    """Only observations of plausible size go to Coq (the checker is quadratic in the rows of a batch)."""
    if c.get("light"):
        return True
    n_cols = len(c["cols"])
    if len(r["cands"]) > n_cols * (n_cols + 1) + 2 * n_cols + 8:
        return False
    return all((not b.get("truncated")) and b["nrows"] <= 2 * len(r["cands"]) + 8 for b in r["batches"])


def cbr_expected_cols(c):
    """The batch's feature space under --feature_set_focus: the file's columns that the focus names, plus the label, in file order
    ("every feature paired with the label": the label never leaves the feature space)."""
    focus = c["cbr"]["focus"]
    if not focus:
        return list(c["cols"])
    if focus == "_all_from_reference_JSON":
        keep = set()
        for item in list(c.get("ref") or []) + list(c.get("ref_fields") or []):
            keep.update(item.split(","))
    else:
        keep = set(focus.split(","))
    keep.add(c["label"])
    return [x for x in c["cols"] if x in keep]


def gen_cbr_case(rng, kind):
    """One mini-batch through compute_batch_ranking (serial pool) with --feature_set_focus in {None, explicit list, the features of a
    reference model json}; non-3mr, non-prior heuristics; plain reference features (no 'a,b' combinations: those would make
    compute_combined_features add columns)."""
    n = rng.randint(2, 10)
    cols = ["c%d%s" % (i, "".join(rng.choice("abxyz_") for _ in range(rng.randint(0, 4)))) for i in range(n)]
    label = rng.choice(cols)
    others = [x for x in cols if x != label]
    heuristic = rng.choice(["Constant", "Constant", "max-value-coverage"])
    tro = rng.choice(["True", "False"])
    c = {"cols": cols, "label": label, "heuristic": heuristic, "tro": tro, "batches": rng.choice([1, 1, 2]),
         "nrows": rng.randint(4, 20), "data_seed": rng.randint(0, 10 ** 6)}
    sub = rng.sample(others, rng.randint(0, len(others)))
    if kind == "none":
        c["cbr"] = {"focus": None}
    elif kind == "list":
        names = list(sub) + ([label] if rng.random() < 0.4 else []) + (["absent_" + _simple(rng).strip() or "q"] if rng.random() < 0.3 else [])
        rng.shuffle(names)                      # order differing from the file's column order
        if not names:
            names = [rng.choice(cols)]
        c["cbr"] = {"focus": ",".join(names)}
    else:
        k = rng.randint(0, len(sub))
        c["ref"] = sub[:k] + (["absentfeature"] if rng.random() < 0.3 else []) + ([label] if rng.random() < 0.15 else [])
        c["ref_fields"] = sub[k:]
        if not c["ref"] and not c["ref_fields"]:
            c["ref"] = [others[0]] if others else [label]
        c["cbr"] = {"focus": "_all_from_reference_JSON"}
    m = approx_ncands(cbr_expected_cols(c), label, heuristic, tro)
    c["cap"] = rng.choice([10 ** 6, 2 ** 15, m, rng.randint(0, m + 2)])
    return c


def gen_ref_case(rng):
    """Reference-model cases: prior heuristics (the filter is active) and others (it is not), reference features that are columns,
    'b,a' lists naming an ' AND ' column, absent names, sometimes the label."""
    n = rng.randint(2, 12)
    base = ["r%d%s" % (i, _simple(rng)) for i in range(n)]
    cols = list(base)
    for _ in range(rng.randint(0, 4)):
        k = rng.sample(base, min(len(base), rng.randint(2, 3)))
        nm = " AND ".join(sorted(k) if rng.random() < 0.7 else k)
        if nm not in cols:
            cols.append(nm)
    rng.shuffle(cols)
    label = rng.choice(base)
    ref = []
    for _ in range(rng.randint(0, 5)):
        k = rng.random()
        if k < 0.4:
            ref.append(rng.choice(cols))
        elif k < 0.75:
            ref.append(",".join(rng.sample(base, min(len(base), rng.randint(2, 3)))))
        elif k < 0.9:
            ref.append(_simple(rng) + rng.choice(["", ",", ",x"]))
        else:
            ref.append(label)
    ref = list(dict.fromkeys(ref))
    heuristic = rng.choice(["surrogate-SGD", "surrogate-SGD", "surrogate-SVM", "surrogate-SGD-RP", "surrogate-LR",
                            "surrogate-SGD-SVD", "max-value-coverage", "Constant"])
    tro = rng.choice(["True", "False", "False"])
    m = approx_ncands(cols, label, heuristic, tro)
    return {"cols": cols, "label": label, "heuristic": heuristic, "tro": tro, "cap": rng.choice([10 ** 6, m, rng.randint(0, m + 3)]),
            "batches": rng.choice([1, 1, 2]), "nrows": rng.randint(4, 20), "data_seed": rng.randint(0, 10 ** 6), "ref": ref}


PRECHECK_OBLIGATION = ("rows of the batch against the candidate list and cap (Python mirror of rows_okb: closed, count, mirrored with "
                       "identical scores, multiplicities)")
CHECK_OBLIGATION = "C06_check (cands_okb / rows_okb) on the implementation's candidate list and rows"
MSET_OBLIGATION = ("correspondence:candidate list = transcription as a multiset of unordered pairs "
                   "(C06_target_only_once / C06_pairwise_multiplicity are about the transcription)")
LAST_BROKEN = []      # vlib.Broken raised by the Coq evaluation of the last evaluate() calls (reported by check)


def _impl_view(r):
    return dict(cands=r["cands"][:400], cap_after=[r["cap_after_cands"]] + [b["cap_after"] for b in r["batches"]],
                nrows=[b["nrows"] for b in r["batches"]], rows=[b["rows"][:400] for b in r["batches"]])


def evaluate(cases, tag="C06", use_coq=True):
    """-> list of verdict dicts {ok, clause, obligation, impl, model, list_differs, sel_differs, ncands, res, by}"""
    def prep(c):
        if c.get("cbr"):
            c = dict(c, cbr=dict(c["cbr"], expected_cols=cbr_expected_cols(c)))
        if c.get("prelude"):
            c = dict(c, prelude=[prep(x) for x in c["prelude"]])
        return c
    cases = [prep(c) for c in cases]
    res = vlib.run_impl("impl_c06.py", {"cases": cases})["results"]
    out = [None] * len(cases)
    pre = [None] * len(cases)
    eff = list(cases)
    exprs, meta = [], []
    for i, (c, r) in enumerate(zip(cases, res)):
        if not r["ok"]:
            out[i] = dict(ok=False, clause="the call terminates normally", obligation="impl-raises", impl=r["error"], model=None,
                          list_differs=False, sel_differs=False, ncands=None, res=r, by="impl")
            continue
        if r.get("cols") is not None and list(r["cols"]) != list(c["cols"]):
            c = dict(c, cols=list(r["cols"]), _no_sel=True)        # the frame actually ranked (compute_combined_features ran)
            eff[i] = c
            if len(set(c["cols"])) != len(c["cols"]) or c["label"] not in c["cols"]:
                out[i] = dict(ok=True, clause=None, obligation=CHECK_OBLIGATION, impl=None, model=None, list_differs=False,
                              sel_differs=False, ncands=None, res=r, by="skipped")
                continue
        pre[i] = precheck(c, r)
        if use_coq and _coq_sized(c, r):
            if c.get("light"):
                exprs.append(_light_expr(c))
                meta.append((i, "light", None))
            else:
                e, hs = _expr(c, r)
                exprs.append(e)
                meta.append((i, "full", hs))
    vals = []
    if exprs:
        try:
            vals = vlib.coq_eval(tag, HEADER, exprs, shard=25, timeout=600, jobs=12)
        except vlib.Broken as b:
            LAST_BROKEN.append(b)
            vals, meta = [], []
    for (i, kind, hs), v in zip(meta, vals):
        c, r = eff[i], res[i]
        if kind == "light":
            ncands, cap2, nsel = v
            obs = (len(r["cands"]), [r["cap_after_cands"]] + [b["cap_after"] for b in r["batches"]], [b["nrows"] for b in r["batches"]])
            mult = 1 if c["heuristic"] == "Constant" else 2
            good = (obs[0] == ncands and all(x == cap2 for x in obs[1]) and all(x == mult * nsel for x in obs[2]))
            out[i] = dict(ok=good, clause="3mr clamp: number of candidates / effective cap / number of rows",
                          obligation="correspondence:clamp (candidates, effective cap, row count)",
                          impl=dict(ncands=obs[0], caps=obs[1], nrows=obs[2]), model=dict(ncands=ncands, cap=cap2, nrows=mult * nsel),
                          list_differs=obs[0] != ncands, sel_differs=False, ncands=ncands, res=None, by="coq")
            continue
        chk, comp, list_eq, (mset_eq, model_ix), sel_same, (ncm, nsel, precond) = v
        if comp is None:
            cands_ok, cap_ok, rows_ok = True, True, [True] * len(r["batches"])
        else:
            cands_ok, cap_ok, rows_ok = comp[1]
        good = bool(chk)
        clause = None
        obligation = CHECK_OBLIGATION
        if not precond:
            clause = "harness: case violates the precondition (duplicate-free columns containing the label)"
            good = False
        elif not cands_ok:
            clause = "the set of candidate pairs of get_combinations_from_columns is not the requested set for this mode"
        elif not cap_ok:
            clause = "args.combination_number_upper_bound after the call is not the (clamped) cap"
        elif not all(rows_ok):
            bi = rows_ok.index(False)
            clause = "batch %d: %s" % (bi, pre[i][1] if pre[i] and pre[i][0] == bi else _diagnose(c, r, bi))
        elif not chk:
            clause = "C06_check rejects the observation"
        elif not mset_eq:
            good = False
            clause = _mset_diff(c, r, model_ix)
            obligation = MSET_OBLIGATION
        if not good and c.get("cbr") and r.get("frame_cols_observed") is not None and list(r["frame_cols_observed"]) != list(c["cols"]):
            clause = "%s  [compute_batch_ranking ranked a frame with columns %r; --feature_set_focus %r keeps %r (the label included)]" % (
                clause, r["frame_cols_observed"], c["cbr"]["focus"], c["cols"])
        out[i] = dict(ok=good, clause=clause, obligation=obligation, impl=_impl_view(r) if not good else None,
                      model=dict(n_candidates=ncm, rows_expected_per_batch=(1 if c["heuristic"] == "Constant" else 2) * nsel),
                      list_differs=not list_eq, sel_differs=(hs and not all(sel_same)), ncands=ncm, res=r, by="coq",
                      precheck_disagrees=(good and pre[i] is not None))
    for i, (c, r) in enumerate(zip(eff, res)):
        if out[i] is not None:
            continue
        # no Coq verdict (too large for the checker, Coq evaluation unavailable, or use_coq=False): the Python mirror decides
        if pre[i] is not None:
            bi, why = pre[i]
            out[i] = dict(ok=False, clause=("batch %d: %s" % (bi, why)) if bi >= 0 else why, obligation=PRECHECK_OBLIGATION,
                          impl=_impl_view(r), model=None, list_differs=False, sel_differs=False, ncands=len(r["cands"]), res=r, by="python")
        else:
            out[i] = dict(ok=True, clause=None, obligation=PRECHECK_OBLIGATION, impl=None, model=None, list_differs=False,
                          sel_differs=False, ncands=len(r["cands"]), res=r, by="python")
    return out


def _variants(cur):
    variants = []
    others = [x for x in cur["cols"] if x != cur["label"]]
    for x in others:
        variants.append(dict(cur, cols=[y for y in cur["cols"] if y != x]))
    for parts in (2, 4):
        h = len(others) // parts
        if h >= 2:
            for k in range(parts):
                keep = set(others[k * h:(k + 1) * h])     # keep one part, and (second variant) drop one part
                variants.append(dict(cur, cols=[y for y in cur["cols"] if y == cur["label"] or y in keep]))
                variants.append(dict(cur, cols=[y for y in cur["cols"] if y not in keep]))
    if cur["cap"] > 0:
        variants.append(dict(cur, cap=cur["cap"] // 2))
        variants.append(dict(cur, cap=cur["cap"] - 1))
    if cur["batches"] > 2:
        variants.append(dict(cur, batches=2))
    if cur["batches"] > 1:
        variants.append(dict(cur, batches=1))
    if cur["nrows"] > 4:
        variants.append(dict(cur, nrows=4))
    return variants


def shrink(case, verdict, rounds=4):
    """Greedy: drop columns / batches / rows / lower the cap while the same kind of check still rejects.  When the failure is
    visible to the Python mirror the rounds run without Coq (faster); the result is always re-judged with Coq by the caller."""
    cur = dict(case)
    python_visible = verdict["by"] == "python" or (verdict["obligation"] == CHECK_OBLIGATION and (verdict["clause"] or "").startswith("batch "))
    for _ in range(rounds):
        variants = _variants(cur)
        if not variants:
            break
        # each variant in the same interpreter would inherit the previous variants' process state: keep the prelude, if any
        vs = evaluate(variants, tag="C06s", use_coq=not python_visible)
        if python_visible:
            bad = [v for v, o in zip(variants, vs) if not o["ok"] and o["obligation"] == PRECHECK_OBLIGATION]
        else:
            bad = [v for v, o in zip(variants, vs) if not o["ok"] and o["obligation"] == verdict["obligation"]]
        if not bad:
            break
        cur = min(bad, key=lambda v: (len(v["cols"]), v["batches"], v["cap"], v["nrows"]))
    return cur


def _strip(c):
    return {k: v for k, v in c.items() if k != "prelude"}


def localise(cases, i, verdict):
    """Turn the failing case at position i of the run into a self-contained replay: alone if it fails alone, otherwise with the
    shortest suffix of the process history (earlier cases of the same interpreter) that makes it fail.  Returns (case, verdict)."""
    from concurrent.futures import ThreadPoolExecutor
    c = _strip(cases[i])
    alone = evaluate([c], tag="C06a")[0]
    if not alone["ok"]:
        small = shrink(c, alone)
        if small != c:
            o2 = evaluate([small], tag="C06a")[0]
            if not o2["ok"]:
                return small, o2
        return c, alone
    ks = []
    k = 1
    while k < i:
        ks.append(k)
        k *= 2
    if i > 0:
        ks.append(i)

    def attempt(k):
        cand = dict(c, prelude=[_strip(x) for x in cases[i - k:i] if not x.get("light")])
        return cand, evaluate([cand], tag="C06h%d" % k)[0]
    with ThreadPoolExecutor(max_workers=4) as ex:
        tried = list(ex.map(attempt, ks[:8]))
    for cand, o in tried:
        if not o["ok"]:
            o["clause"] = "%s  [needs the process history: the %d earlier call(s) in `prelude` ran in the same interpreter]" % (
                o["clause"], sum(x["batches"] for x in cand["prelude"]))
            return cand, o
    verdict = dict(verdict)
    verdict["clause"] = "%s  [observed at position %d of the run; not reproduced alone or with up to %d preceding cases]" % (
        verdict["clause"], i, ks[-1] if ks else 0)
    return cases[i], verdict


def check(run, replay):
    ok, log = vlib.build(["Pipeline/Combos.vo"])
    run.oblige("build:model Pipeline/Combos.vo", ok, "" if ok else log[-1500:])
    if not ok:
        raise vlib.Broken("build:Pipeline/Combos.vo", log)
    vlib.standard_proof_phase(run, ["Props/C06.vo"], "Outrank.Props.C06", THEOREMS)
    ok2, log2 = vlib.build(["Pipeline/CombosShared.vo"])     # informational (audit L8): depends on other builders' Pool.v / Interact.v
    run.oblige("build:Pipeline/CombosShared.vo (mirror / slice length agree with Pool.v, Interact.v, Sampler.v)", ok2, "" if ok2 else log2[-800:])

    # constants and mode tests of the source against the model's (an extra tie on top of the correspondence):
    # recognised shape with another constant/operator -> broken obligation; unrecognised shape -> evidence note only
    mv = vlib.coq_eval("C06k", HEADER, ["(max_features_3mr, s_3mr, s_True, s_Constant, s_and_rel, prior_heurs, s_join_and, [c_comma])"])[0]
    model_k = {"max_features": mv[0], "s_3mr": vlib.from_codes(mv[1]), "s_true": vlib.from_codes(mv[2]),
               "s_constant": vlib.from_codes(mv[3]), "s_and_rel": vlib.from_codes(mv[4]),
               "prior_heuristics": sorted(vlib.from_codes(x) for x in mv[5]), "join": vlib.from_codes(mv[6]),
               "split": vlib.from_codes(mv[7])}
    found = extract_source_constants()
    mism, unread = compare_source_constants(found, model_k)
    run.cov["source_constants_read"] = not unread
    run.cov["source_constants_found"] = {k_: sorted(map(str, v_)) for k_, v_ in found["read"].items()}
    if unread:
        run.cov["source_constants_unread"] = unread
        run.notes.append("source constants not recognised by the ast reader (no alarm; the correspondence pins the behaviour: mode tests, "
                         "Constant single-row rule, relation marker and joiners on every case, the 3mr clamp through the cap observed after "
                         "the call and the >10^4-candidate case): %s" % unread)
    run.oblige("translator:recognised constants / mode tests of core_ranking.py agree with the model", not mism, "; ".join(mism))
    if mism:
        run.violation("broken-obligation", "translator:constants (MAX_FEATURES_3MR / '3mr' / 'True' / 'Constant' / ' AND_REL ' / reference filter)",
                      found_input=False, extra={"mismatches": mism, "model": model_k})

    if replay is not None:
        cases = [replay["case"]]
    else:
        cases = load_corpus("C06")
        n = 300 if run.tier == "quick" else 4000
        for _ in range(n):
            cases.append(gen_case(run.rng, run.tier))
        cases.extend(family_cases(run.rng, run.tier))
        cases.append(clamp_case(run.rng))
        if run.tier == "thorough":
            cases.append(clamp_case(run.rng))
            cases.extend(exhaustive_cases())
    valid = [c for c in cases if len(set(c["cols"])) == len(c["cols"]) and c["label"] in c["cols"] and c["cols"]]
    if len(valid) != len(cases):
        run.notes.append("%d case(s) outside the property's hypotheses (duplicate column names / label not a column) were skipped"
                         % (len(cases) - len(valid)))
        cases = valid
    del LAST_BROKEN[:]
    verdicts = evaluate(cases)
    coq_broken = list(LAST_BROKEN)

    hist = {"ncols": {}, "heuristic": {}, "tro": {}, "batches": {}, "mode": {}, "pool": {}, "max_name_length": {},
            "frames_built_by_real_compute_combined_features": 0, "cap_binding": 0, "cap_zero_or_neg": 0,
            "label_is_relation_column": 0, "frames_with_relation_columns": 0, "impl_errors": 0, "rows_total": 0}
    nlist = nsel = 0
    reported = 0
    for ci, (c, o) in enumerate(zip(cases, verdicts)):
        nc = len(c["cols"])
        b = "%d-%d" % ((nc - 1) // 5 * 5 + 1, (nc - 1) // 5 * 5 + 5)
        hist["ncols"][b] = hist["ncols"].get(b, 0) + 1
        hist["heuristic"][c["heuristic"]] = hist["heuristic"].get(c["heuristic"], 0) + 1
        hist["tro"][c["tro"]] = hist["tro"].get(c["tro"], 0) + 1
        hist["batches"][c["batches"]] = hist["batches"].get(c["batches"], 0) + 1
        mode = ("3mr" if "3mr" in c["heuristic"] else "plain") + ("/target-only" if c["tro"] == "True" else "/pairwise") + \
               ("/Constant" if c["heuristic"] == "Constant" else "")
        hist["mode"][mode] = hist["mode"].get(mode, 0) + 1
        pk = "%s/%s" % (c["pool"]["kind"], c["pool"]["ncpus"]) if c.get("pool") else "fake/no-attributes"
        hist["pool"][pk] = hist["pool"].get(pk, 0) + 1
        ecols = (o["res"] or {}).get("cols") or c["cols"]
        ml = max(len(x) for x in ecols)
        lb = "<=16" if ml <= 16 else "17-63" if ml < 64 else "64-65" if ml <= 65 else "66-128" if ml <= 128 else ">128"
        hist["max_name_length"][lb] = hist["max_name_length"].get(lb, 0) + 1
        if c.get("cbr"):
            fk = "none" if not c["cbr"]["focus"] else ("reference json" if c["cbr"]["focus"] == "_all_from_reference_JSON" else "explicit list")
            hist["through_compute_batch_ranking_focus"] = hist.get("through_compute_batch_ranking_focus", {})
            hist["through_compute_batch_ranking_focus"][fk] = hist["through_compute_batch_ranking_focus"].get(fk, 0) + 1
        if c.get("combine"):
            hist["frames_built_by_real_compute_combined_features"] += 1
        if c.get("ref") is not None:
            k_ = "reference model, filter active" if c["heuristic"] in PRIOR_HEURISTICS else "reference model, non-prior heuristic"
            hist["reference"] = hist.get("reference", {})
            hist["reference"][k_] = hist["reference"].get(k_, 0) + 1
        if o["ncands"] is not None and 0 < c["cap"] < o["ncands"]:
            hist["cap_binding"] += 1
        if c["cap"] <= 0:
            hist["cap_zero_or_neg"] += 1
        if " AND_REL " in c["label"]:
            hist["label_is_relation_column"] += 1
        if any(" AND_REL " in x for x in c["cols"]):
            hist["frames_with_relation_columns"] += 1
        if o["res"] and o["res"].get("batches"):
            hist["rows_total"] += sum(bb.get("nrows", 0) for bb in o["res"]["batches"])
        run.count_case({k_: c[k_] for k_ in ("cols", "label", "heuristic", "tro", "cap", "batches")}, nc >= 2)
        nlist += 1 if o["list_differs"] else 0
        nsel += 1 if o["sel_differs"] else 0
        if not o["ok"]:
            if o["obligation"] == "impl-raises":
                hist["impl_errors"] += 1
            if reported < 1 and replay is None and not c.get("light") and o["obligation"] != "impl-raises":
                c, o = localise(cases, ci, o)
            reported += 1
            run.violation("counterexample", o["obligation"], case=c, impl=o["impl"], model=o["model"], clause=o["clause"])
    nbad = sum(1 for o in verdicts if not o["ok"])
    run.oblige("correspondence:C06_check on implementation candidate lists and rows", nbad == 0,
               "" if nbad == 0 else "%d of %d cases rejected" % (nbad, len(cases)))
    if coq_broken:
        b0 = coq_broken[0]
        run.oblige(b0.obligation, False, b0.detail[-1500:])
        run.violation("broken-obligation", b0.obligation + " (verdicts of this run come from the Python mirror of the row clauses)",
                      found_input=False, extra=b0.detail[-3000:])
    run.cov["cases_checked_in_coq"] = sum(1 for o in verdicts if o["by"] == "coq")
    run.cov["cases_judged_by_python_mirror_only"] = sum(1 for o in verdicts if o["by"] == "python")
    run.cov["python_mirror_disagrees_with_coq_checker"] = sum(1 for o in verdicts if o.get("precheck_disagrees"))
    run.cov["candidate_list_order_differs_from_transcription_same_multiset"] = nlist - sum(
        1 for o in verdicts if o["list_differs"] and not o["ok"])
    run.cov["selection_differs_from_stable_sort_transcription"] = nsel
    run.cov["input_distribution"] = hist
    run.cov["exhaustive"] = False
    if run.tier == "thorough":
        run.cov["exhaustive_small_scope"] = ("all ordered column lists of 1..3 names over {a, b, ' AND_REL ', 'a AND_REL b'} x label "
                                             "x {max-value-coverage, MI-numba-3mr, Constant} x {True, False} x caps 0..|cands|+1")
    run.samples = [{k_: c[k_] for k_ in ("cols", "label", "heuristic", "tro", "cap", "batches", "nrows", "data_seed")}
                   for c in cases[10:13]]
    run.assumptions += [
        "column lists are duplicate-free and contain the label (pandas frames with duplicated names are outside the property)",
        "reference-model cases run with the scorer replaced by a deterministic orientation-dependent stand-in (harness-side patch of "
        "core_ranking.get_importances_estimate_pairwise); the reference JSON's 'features' list is what the harness wrote",
        "module globals (GLOBAL_PRIOR_COMB_COUNTS, ...) are reset by the harness between cases; batches of one case share them",
        "scores are abstracted to ids of their IEEE-754 bit pattern (0.0 -> 0): only equality of scores matters to C06",
        "score values themselves are C05's business; any scorer answers are admitted by valid_batch",
    ]
    run.trusted += [
        "harness: tools/props/c06.py (generator, name/score id tables, ast reader of the constants), tools/impl/impl_c06.py "
        "(serial fake pool, args namespace as built by outrank/__main__.py, frame generator)",
        "coqparse.py (reads the terms coqc prints)",
        "modelled, held by correspondence only: itertools.combinations_with_replacement order, sorted(set(...)) on str, "
        "`in` on str and tuples, random.shuffle being a permutation, the pool returning one triplet per combination in order",
    ]
