"""C14 — cardinality sketch: exact while warm, estimate beyond, duplicate-blind."""
from __future__ import annotations

import array
import base64
import itertools
import json
import math
import os

import vlib

LEVEL = "proof"
RULE = ("(a) insertion sequences of str/bytes values against HyperLogLogWCache instances whose p/m/warmup_size/width "
        "attributes are set small (p 2..8, warm-up capacity 0..2m), len() after every prefix + warm set / register array "
        "compared with the Coq model run on the hash table tabulated from the real xxh32(seed=p); non-trivial = the "
        "sequence crosses the warm->cold boundary and re-adds a seen value; distinct = distinct canonical cases. "
        "(b) real-size runs on an untouched instance (p=19) crossing 2^18 (thorough: up to 2^21 distinct), len at "
        "checkpoints compared with the closed forms proved for the model (C14_exact, C14_dup_blind, C14_estimate, "
        "C14_regs_max) evaluated on the same hash table, and with a step-by-step Python mirror held to the Coq model on (a)")
THEOREMS = ["C14_exact", "C14_dup_blind", "C14_dup_blind_state", "C14_order_exact", "C14_len_set", "C14_regs_set",
            "C14_regs_max", "C14_phase", "C14_touched", "C14_rank_pos", "C14_estimate", "C14_prefix_refuted",
            "C14_prefix_refuted_dup", "C14_hash_matters", "C14_2pct_conditional", "C14_check_sound", "C14_model_ok"]
HEADER = ("From Coq Require Import List NArith ZArith.\nFrom Outrank Require Import Sketch.HLL.\n"
          "Import ListNotations.\nOpen Scope N_scope.")
P_REAL, W_REAL = 19, 1 << 18


# ---------------------------------------------------------------------------
# the linear-counting value as the code computes it, with the float tie made explicit

def lc_accept(m, z):
    """Set of integers accepted for len() given z empty registers (ceil evaluated in float by the code)."""
    if z == 0:
        return {m}
    x = m * math.log(m / z)
    c = math.ceil(x)
    acc = {c - 1}
    if abs(x - round(x)) <= 1e-9 * max(1.0, abs(x)):      # float ceil could fall on either side
        acc |= {round(x) - 1, round(x)}
    return acc


# ---------------------------------------------------------------------------
# step-by-step Python mirror of Sketch/HLL.v (held to the Coq model on every small case)

def split(h, p, width):
    j = h & ((1 << p) - 1)
    w = h >> p
    return j, max(0, width - w.bit_length())


def mirror(p, W, width, hashes, ops, want_states=()):
    m = 1 << p
    warm, order = set(), []
    regs = None
    lens, states = [], {}
    for k, v in enumerate(ops):
        if regs is None:
            if len(order) < W or v in warm:
                if v not in warm:
                    warm.add(v)
                    order.append(v)
            else:
                regs = [0] * m
                for u in order + [v]:
                    j, r = split(hashes[u], p, width)
                    regs[j] = max(regs[j], r)
        else:
            j, r = split(hashes[v], p, width)
            regs[j] = max(regs[j], r)
        lens.append((0, len(order)) if regs is None else (1, regs.count(0)))
        if k in want_states:
            states[k] = (0, sorted(order)) if regs is None else (1, list(regs))
    return lens, states


def synth_hash(j, rho, p, width):
    """A hash value whose bucket is j and whose rank is rho (implementation-derived oracle)."""
    k = width - rho
    return j + ((1 << (k - 1)) << p if k >= 1 else 0)


# ---------------------------------------------------------------------------
# generators

ABC = "abcdefghijklmnopqrstuvwxyz0123456789-_:, éßλ"


def gen_values(rng, n):
    out, seen = [], set()
    kinds = rng.choice([("hex",), ("dec",), ("txt",), ("bytes",), ("hex", "dec", "txt", "bytes", "twin")])
    while len(out) < n:
        k = rng.choice(kinds)
        if k == "hex":
            v = ("s", "%08x" % rng.getrandbits(32))
        elif k == "dec":
            v = ("s", str(rng.randint(0, 5 * n + 10)))
        elif k == "txt":
            v = ("s", "".join(rng.choice(ABC) for _ in range(rng.randint(0, 6))))
        elif k == "bytes":
            v = ("b", bytes(rng.getrandbits(8) for _ in range(rng.randint(0, 5))).hex())
        else:   # a str and the bytes with the same encoding: different values, same hash
            s = "".join(rng.choice("abcxyz01") for _ in range(rng.randint(1, 4)))
            v = rng.choice([("s", s), ("b", s.encode().hex())])
        if v not in seen:
            seen.add(v)
            out.append(list(v))
    if n >= 4 and rng.random() < 0.15:
        # a few very long values sharing a prefix of >= 64 KiB (given by generator parameters, expanded by the runner)
        k = rng.randint(2, min(6, n - 1))
        ln = rng.choice([65536, 65537, 70000, 131072, 200000])
        kind = rng.choice(["l", "l", "lb"])
        for j, pos in enumerate(rng.sample(range(n), k)):
            out[pos] = [kind, "x", ln, rng.choice(["|%d", "%d", "tail-%d"]) % j]
    return out


def gen_small(rng):
    p = rng.choice([2, 3, 4, 4, 5, 5, 6, 6, 7, 8])
    m = 1 << p
    W = rng.choice([0, 1, 2, 3, m // 2, m // 2, m // 2, m // 2, m // 2 - 1, m // 2 + 1, m, 2 * m, rng.randint(0, 2 * m)])
    W = max(0, W)
    U = rng.choice([W - 1, W, W + 1, W + 2, W + rng.randint(1, 2 * m), W + m, 3 * m, rng.randint(1, 4 * m)])
    U = max(1, min(U, 640))
    values = gen_values(rng, U)
    pdup = rng.choice([0.0, 0.1, 0.3, 0.6])
    ops, nxt = [], 0
    while nxt < U and len(ops) < 900:
        if nxt > 0 and rng.random() < pdup:
            c = rng.random()
            ops.append(ops[-1] if c < 0.3 else (0 if c < 0.4 else rng.randrange(nxt)))
            continue
        ops.append(nxt)
        nxt += 1
        if nxt == W and W > 0:            # warm-up set just became full: repeats, then the trigger, then repeats
            for _ in range(rng.randint(0, 3)):
                ops.append(rng.randrange(nxt))
            if nxt < U:
                ops.append(nxt)
                nxt += 1
                for _ in range(rng.randint(0, 3)):
                    ops.append(rng.choice([nxt - 1, rng.randrange(nxt)]))
    for _ in range(rng.randint(0, 5)):
        ops.append(rng.randrange(nxt))
    return {"p": p, "W": W, "values": values, "ops": ops}


def exhaustive_small():
    vals = [["s", "a"], ["s", "b"], ["b", "61"], ["s", "17"]]
    out = []
    for W in range(0, 4):
        for n in range(1, 6):
            for ops in itertools.product(range(4), repeat=n):
                out.append({"p": 2, "W": W, "values": vals, "ops": list(ops)})
    return out


def load_corpus(pid):
    d = os.path.join(vlib.VERIF, "corpus", pid)
    out = []
    if os.path.isdir(d):
        for f in sorted(os.listdir(d)):
            if f.endswith(".json"):
                out.append(json.load(open(os.path.join(d, f))))
    return out


# ---------------------------------------------------------------------------
# small cases: Coq model vs implementation

def coq_expr(case, hashes, ks):
    return "obs %d (N.to_nat %d) %d (fun v => nth (N.to_nat v) %s 0) %s %s" % (
        case["p"], case["W"], 64 - case["p"], vlib.nlist(hashes), vlib.nlist(case["ops"]), vlib.nlist(ks))


def compare(case, res, lens, states):
    """First disagreement between the implementation record and model observations, or None.
    lens: [(phase, n|z)] per op; states: {k: (phase, set|regs)}."""
    m = 1 << case["p"]
    if not res["ok"]:
        return (len(res["lens"]), "implementation raised %s" % res["error"])
    for k, (ph, x) in enumerate(lens):
        il, fl = res["lens"][k], res["flags"][k]
        if ph == 0:
            if fl or il != x:
                return (k, "after op %d the model is warm with len %d; implementation: hll_flag=%s len=%d" % (k, x, fl, il))
        else:
            if not fl or il not in lc_accept(m, x):
                return (k, "after op %d the model is cold with %d empty registers (len in %s); implementation: hll_flag=%s len=%d"
                        % (k, x, sorted(lc_accept(m, x)), fl, il))
    chk = []
    if res["first_cold"] is not None:
        chk.append((res["first_cold"]["at"], res["first_cold"]["state"]))
    chk.append((len(case["ops"]) - 1, res["final"]))
    for k, st in chk:
        if k not in states:
            continue
        ph, x = states[k]
        if ph == 0:
            if st["cold"] or sorted(st["set"]) != sorted(x):
                return (k, "warm-up set after op %d differs: model %s, implementation %s" % (k, sorted(x), st))
        else:
            if not st["cold"] or st["regs"] != list(x) or not st.get("integral", True):
                bad = [j for j in range(min(len(x), len(st.get("regs", [])))) if st["regs"][j] != x[j]][:5] if st["cold"] else []
                return (k, "register array after op %d differs from the model (first differing buckets %s)" % (k, bad))
    return None


def py_check(W, ops, lens):
    """Python rendering of HLL.checkb (used only to steer shrinking; the verdict reported is Coq's)."""
    seen, prev = set(), 0
    for k, (v, x) in enumerate(zip(ops, lens)):
        dup = v in seen
        seen.add(v)
        if (dup and x != prev) or (len(seen) <= W and x != len(seen)):
            return k
        prev = x
    return None


def unseparated(r, used=None):
    """Pairs of values with different xxh32 digests (different payloads) that the implementation's own _hasher_update,
    read at p = 31 (register index = the low 31 bits of whatever digest it uses), cannot tell apart."""
    groups = {}
    for i, o in enumerate(r.get("own31") or []):
        if o is not None and (used is None or i in used):
            groups.setdefault(tuple(o), []).append(i)
    pairs = []
    for g in groups.values():
        for a in range(len(g)):
            for b in range(a + 1, len(g)):
                if r["hashes"][g[a]] != r["hashes"][g[b]]:
                    pairs.append((g[a], g[b]))
    return pairs


def shrink(case, oracle, raised=False, prop_level=False, need_unsep=False):
    """Greedy op deletion while implementation and mirror still disagree (re-running the real code)."""
    cur = case

    def bad(c, r):
        if not r["ok"]:
            return raised          # keep the kind of failure: a raising run only shrinks to raising runs
        if need_unsep and not unseparated(r, set(c["ops"])):      # ... values the hash fails to separate stay in the case
            return False
        if prop_level:             # ... and a failure of the property's own clauses stays one
            return py_check(c["W"], c["ops"], r["lens"]) is not None
        if oracle == "xxh":
            hs = r["hashes"]
        elif all(o is not None for o in r["own"]):
            hs = [synth_hash(o[0], o[1], c["p"], 64 - c["p"]) for o in r["own"]]
        else:
            return True
        ks = {len(c["ops"]) - 1}
        if r["first_cold"]:
            ks.add(r["first_cold"]["at"])
        lens, states = mirror(c["p"], c["W"], 64 - c["p"], hs, c["ops"], ks)
        return compare(c, r, lens, states) is not None

    for _ in range(8):
        n = len(cur["ops"])
        if n <= 1:
            break
        cands = []
        size = max(1, n // 2)
        while size >= 1:
            for s in range(0, n, size):
                ops = cur["ops"][:s] + cur["ops"][s + size:]
                if ops:
                    cands.append(dict(cur, ops=ops))
            size //= 2
            if len(cands) > 400:
                break
        for w2 in {cur["W"] // 2, cur["W"] - 1, 1, 2}:
            if 1 <= w2 < cur["W"]:
                cands.append(dict(cur, W=w2))
        for p2 in (2, 3, 4):
            if p2 < cur["p"]:
                cands.append(dict(cur, p=p2))
        try:
            rs = vlib.run_impl("impl_c14.py", {"cases": cands})["results"]
        except vlib.Broken:
            break
        hit = [c for c, r in zip(cands, rs) if bad(c, r)]
        if not hit:
            break
        cur = min(hit, key=lambda c: (len(c["ops"]), c["W"], c["p"]))
    # drop unused values
    used = sorted(set(cur["ops"]))
    ren = {v: i for i, v in enumerate(used)}
    return {"p": cur["p"], "W": cur["W"], "values": [cur["values"][v] for v in used], "ops": [ren[v] for v in cur["ops"]]}


PROBE_CASES = [
    {"p": 4, "W": 3, "values": [["s", "%08x" % (i * 2654435761 % 2 ** 32)] for i in range(12)],
     "ops": [0, 1, 0, 2, 2, 0, 3, 3, 1, 4, 5, 4, 0, 6, 7, 8, 8, 9, 10, 11, 3]},
    {"p": 3, "W": 4, "values": [["s", "a"], ["s", "b"], ["b", "61"], ["s", "17"], ["s", "c0ffee00"], ["s", "x"]],
     "ops": [0, 1, 2, 3, 0, 3, 4, 4, 0, 2, 5, 5]},
    {"p": 6, "W": 32, "values": [["s", str(i)] for i in range(50)], "ops": list(range(32)) + [5, 31, 32, 32, 0] + list(range(33, 50)) + [7]},
]


def probe_device():
    """Is the small-sketch device (setting p / m / warmup_size / width on a fresh instance) usable on this tree?
    Returns (verdict, detail): "ok" | "suspect" (the poked instance raises or disagrees with the mirror under both oracles
    although an unpoked default instance passes a short exactness history)."""
    out = vlib.run_impl("impl_c14.py", {"cases": PROBE_CASES, "default_probe": True})
    if out.get("default_probe") is not None:
        return "ok", "default instance fails its own short history (%s): the tree is judged as it is" % out["default_probe"]
    for c, r in zip(PROBE_CASES, out["results"]):
        ks = {len(c["ops"]) - 1} | ({r["first_cold"]["at"]} if r.get("first_cold") else set())
        d = compare(c, r, *mirror(c["p"], c["W"], 64 - c["p"], r["hashes"], c["ops"], ks))
        if d is not None and r["ok"] and all(o is not None for o in r["own"]):
            hs = [synth_hash(o[0], o[1], c["p"], 64 - c["p"]) for o in r["own"]]
            d = compare(c, r, *mirror(c["p"], c["W"], 64 - c["p"], hs, c["ops"], ks))
        if d is not None:
            return "suspect", d[1]
    return "ok", ""


def check_small(run, cases, device_ok=True):
    res = vlib.run_impl("impl_c14.py", {"cases": cases})
    defaults = res["defaults"]
    res = res["results"]
    exprs, wants = [], []
    for c, r in zip(cases, res):
        n = len(c["ops"])
        # position of the conversion according to the mirror (xxh oracle), plus the last op
        lens, _ = mirror(c["p"], c["W"], 64 - c["p"], r["hashes"], c["ops"])
        fc = next((k for k, (ph, _) in enumerate(lens) if ph == 1), None)
        ks = sorted({n - 1} | ({fc} if fc is not None else set()) |
                    ({r["first_cold"]["at"]} if r.get("first_cold") else set()))
        ks = [k for k in ks if 0 <= k < n]
        wants.append(ks)
        exprs.append(coq_expr(c, r["hashes"], ks))
    vals = vlib.coq_eval("C14", HEADER, exprs, shard=40 if len(exprs) > 200 else 12)
    hist = {"p": {}, "W": {}, "ops": {}, "crossing": 0, "dup_after_cold": 0, "dup_at_boundary": 0, "impl_errors": 0,
            "alt_oracle": 0}
    mirror_bad = 0
    fails = []
    for i, (c, r, v, ks) in enumerate(zip(cases, res, vals, wants)):
        mlens = [tuple(x) for x in v[0]]
        mstates = {k: (st[0], list(st[1])) for k, st in zip(ks, v[1])}
        # python mirror == Coq model
        pl, ps = mirror(c["p"], c["W"], 64 - c["p"], r["hashes"], c["ops"], set(ks))
        if pl != mlens or any((ps[k][0], sorted(ps[k][1]) if ps[k][0] == 0 else ps[k][1]) !=
                              (mstates[k][0], sorted(mstates[k][1]) if mstates[k][0] == 0 else mstates[k][1]) for k in ks):
            mirror_bad += 1
        crossing = any(ph == 1 for ph, _ in mlens)
        seen, dup_cold, dup_bnd = set(), False, False
        for k, x in enumerate(c["ops"]):
            if x in seen:
                if mlens[k][0] == 1:
                    dup_cold = True
                if mlens[k][0] == 0 and mlens[k][1] == c["W"]:
                    dup_bnd = True
            seen.add(x)
        hist["p"][c["p"]] = hist["p"].get(c["p"], 0) + 1
        wk = "0" if c["W"] == 0 else ("m/2" if c["W"] == (1 << c["p"]) // 2 else ("<m/2" if c["W"] < (1 << c["p"]) // 2 else ">m/2"))
        hist["W"][wk] = hist["W"].get(wk, 0) + 1
        b = len(c["ops"]) // 100 * 100
        hist["ops"][b] = hist["ops"].get(b, 0) + 1
        hist["crossing"] += crossing
        hist["dup_after_cold"] += dup_cold
        hist["dup_at_boundary"] += dup_bnd
        if not device_ok:       # only the mirror = Coq comparison is made (it needs the tabulated hashes, not the instance)
            continue
        run.count_case([c["p"], c["W"], c["values"], c["ops"]], crossing and (dup_cold or dup_bnd))
        d = compare(c, r, mlens, mstates)
        if d is not None:
            fails.append((i, d))
    run.oblige("mirror: tools/props/c14.py mirror = Coq model on %d sequences" % len(cases), mirror_bad == 0,
               "%d sequences differ" % mirror_bad)
    if mirror_bad:
        run.violation("broken-obligation", "python mirror differs from the Coq model", found_input=False)
    # implementation-derived oracle: "another hash function" is not a property violation
    real_fails = []
    alt = []
    for i, d in fails:
        c, r = cases[i], res[i]
        if r["ok"] and all(o is not None for o in r["own"]) and d[0] < len(c["ops"]):
            hs = [synth_hash(o[0], o[1], c["p"], 64 - c["p"]) for o in r["own"]]
            ks = {len(c["ops"]) - 1} | ({r["first_cold"]["at"]} if r["first_cold"] else set())
            pl, ps = mirror(c["p"], c["W"], 64 - c["p"], hs, c["ops"], ks)
            if compare(c, r, pl, ps) is None and hs != r["hashes"]:
                up = unseparated(r)
                if len(up) < 2:
                    alt.append((i, hs, sorted(ks)))
                    continue
                # "another hash function" is only acceptable while it still separates distinct values
                d = (d[0], d[1] + "; the implementation's hash does not separate %d pairs of distinct values of this case, e.g. "
                     "value #%d and value #%d (%s / %s): not merely another hash function"
                     % (len(up), up[0][0], up[0][1], str(c["values"][up[0][0]])[:60], str(c["values"][up[0][1]])[:60]))
        real_fails.append((i, d, "xxh"))
    if alt:
        avals = vlib.coq_eval("C14", HEADER, [coq_expr(cases[i], hs, ks) for i, hs, ks in alt], shard=12)
        for (i, hs, ks), v in zip(alt, avals):
            mlens = [tuple(x) for x in v[0]]
            mstates = {k: (st[0], list(st[1])) for k, st in zip(ks, v[1])}
            d = compare(cases[i], res[i], mlens, mstates)
            if d is None:
                hist["alt_oracle"] += 1
            else:
                real_fails.append((i, d, "own"))
        if hist["alt_oracle"]:
            run.notes.append("%d sequences agree with the model only under the oracle read off the implementation's own "
                             "_hasher_update: the hash function is no longer xxh32(seed=p) of the value bytes (allowed by "
                             "the theorems, which hold for every hash)" % hist["alt_oracle"])
    # report (at most a few), shrunk, with the Coq checker's verdict on the implementation's len() values
    real_fails.sort(key=lambda f: (not res[f[0]]["ok"], cases[f[0]]["W"] == 0,
                                   py_check(cases[f[0]]["W"], cases[f[0]]["ops"], res[f[0]]["lens"]) is None,
                                   f[1][0], len(cases[f[0]]["ops"])))
    for i, d, oracle in real_fails[:3]:
        c, r = cases[i], res[i]
        cut = dict(c, ops=c["ops"][:d[0] + 1])
        plevel = r["ok"] and py_check(c["W"], c["ops"], r["lens"]) is not None
        if plevel:
            cut = dict(c, ops=c["ops"][:py_check(c["W"], c["ops"], r["lens"]) + 1])
        small = shrink(cut, oracle, raised=not r["ok"], prop_level=plevel,
                       need_unsep=r["ok"] and len(unseparated(r)) >= 2) if len(cut["ops"]) > 1 else cut
        rr = vlib.run_impl("impl_c14.py", {"cases": [small]})["results"][0]
        verdict = None
        model = None
        if rr["ok"] or rr["lens"]:
            n = len(rr["lens"])
            ex = "(checkb (N.to_nat %d) [] 0%%Z %s %s%%Z, obs %d (N.to_nat %d) %d (fun v => nth (N.to_nat v) %s 0) %s [])" % (
                small["W"], vlib.nlist(small["ops"][:n]), vlib.zlist(rr["lens"]), small["p"], small["W"], 64 - small["p"],
                vlib.nlist(rr["hashes"]), vlib.nlist(small["ops"]))
            try:
                verdict, model = vlib.coq_eval("C14", HEADER, [ex])[0]
                model = model[0]
            except vlib.Broken:
                pass
        if not rr["ok"]:
            hist["impl_errors"] += 1
            clause = "add()/len() terminates normally: " + str(rr["error"])
        elif verdict is not None and False in verdict:
            k = verdict.index(False)
            seen_before = small["ops"][k] in small["ops"][:k]
            nd = len(set(small["ops"][:k + 1]))
            clause = ("C14_check (Coq) fails at op %d: " % k) + (
                "re-adding a seen value changed len (C14_dup_blind)" if seen_before and (k == 0 or rr["lens"][k] != rr["lens"][k - 1])
                else "len %d differs from the %d distinct values inserted, within the warm-up capacity %d (C14_exact)"
                % (rr["lens"][k], nd, small["W"]))
        else:
            d2 = None
            if model is not None:
                ks2 = {len(small["ops"]) - 1} | ({rr["first_cold"]["at"]} if rr["first_cold"] else set())
                hs2 = rr["hashes"] if oracle == "xxh" else [synth_hash(o[0], o[1], small["p"], 64 - small["p"]) for o in rr["own"]]
                d2 = compare(small, rr, [tuple(x) for x in model], mirror(small["p"], small["W"], 64 - small["p"], hs2, small["ops"], ks2)[1])
            clause = ("correspondence with the model (warm: exact set; cold: registers = per-bucket maximum rank, "
                      "len = LC(m - #touched)): " + (d2 or d)[1])
            up2 = unseparated(rr)
            if up2:
                clause += ("; the implementation's hash does not separate value #%d and value #%d (%s / %s), whose payloads and "
                           "xxh32 digests differ" % (up2[0][0], up2[0][1], str(small["values"][up2[0][0]])[:60], str(small["values"][up2[0][1]])[:60]))
        run.violation("counterexample", "C14 model/implementation correspondence", case=small,
                      impl={"lens": rr["lens"], "flags": rr["flags"], "final": rr["final"], "error": rr["error"]},
                      model=repr(model)[:3000], clause=clause, extra={"checker_verdict": verdict, "oracle": oracle,
                                                                       "original_case_ops": len(c["ops"])})
    if device_ok:
        run.oblige("correspondence: len after every prefix + warm set/registers, small instances (%d sequences)" % len(cases),
                   not real_fails, "%d sequences disagree" % len(real_fails))
    return hist, defaults


# ---------------------------------------------------------------------------
# real-size runs

def unb64(s, code):
    a = array.array(code)
    a.frombytes(base64.b64decode(s))
    return a


def walk_big(r, buckets, rhos):
    """One pass over a real-size run: closed forms of the theorems + step-by-step mirror, for the oracle given as
    per-value (bucket, rank) arrays.  Returns (violation or None, kind, statistics)."""
    co = r["consts"]
    p, m, W, width = co["p"], co["m"], co["warmup_size"], co["width"]
    ids = unb64(r["ids"], "I")
    cps = {k: (ln, fl) for k, ln, fl in r["checkpoints"]}
    nd = 0
    touched = set()
    mir_cold = False
    mir_regs = None
    mir_zero = m
    prev = None
    worst = 0.0
    n_cold_cp = n_in_window = 0
    min_margin = None
    viol = None
    kind = None
    for k, i in enumerate(ids):
        is_new = (i == nd)
        if is_new:
            nd += 1
            if rhos[i] > 0:
                touched.add(buckets[i])
        if not mir_cold:
            if not (nd - (1 if is_new else 0) < W or not is_new):
                mir_cold = True
                mir_regs = [0] * m
                for u in range(nd):
                    j, rh = buckets[u], rhos[u]
                    if mir_regs[j] == 0 and rh > 0:
                        mir_zero -= 1
                    if rh > mir_regs[j]:
                        mir_regs[j] = rh
        else:
            j, rh = buckets[i], rhos[i]
            if mir_regs[j] == 0 and rh > 0:
                mir_zero -= 1
            if rh > mir_regs[j]:
                mir_regs[j] = rh
        if k in cps:
            ln, fl = cps[k]
            # the property's own clause at the constant it names (2^18), whatever the instance says
            if nd <= W_REAL and (fl or ln != nd) and viol is None:
                viol, kind = (k, "C14_exact: %d distinct values inserted (<= 2^18) but len = %d, hll_flag = %s (warmup_size = %d)" % (nd, ln, fl, W)), "property"
            if nd <= W:
                if mir_cold:
                    raise vlib.Broken("harness:c14-mirror", "mirror cold while nd<=W")
                if (fl or ln != nd) and viol is None:
                    viol, kind = (k, "C14_exact: %d distinct values inserted (<= warm-up capacity %d) but len = %d, hll_flag = %s" % (nd, W, ln, fl)), "property"
            else:
                z = m - len(touched)
                if z != mir_zero:
                    raise vlib.Broken("harness:c14-mirror", "closed form and mirror disagree at op %d" % k)
                if (not fl or ln not in lc_accept(m, z)) and viol is None:
                    viol, kind = (k, "C14_estimate: %d distinct values, %d empty registers, len should be in %s but is %d (hll_flag %s)"
                                  % (nd, z, sorted(lc_accept(m, z)), ln, fl)), ("phase" if not fl else "estimate")
                if nd <= (1 << 21):
                    n_cold_cp += 1
                    rel = abs(ln - nd) / nd
                    worst = max(worst, rel)
                    lo = m * math.exp(-1.02 * nd / m)
                    hi = m * math.exp(-(0.98 * nd + 1) / m)
                    if lo <= z <= hi:
                        n_in_window += 1
                    mg = min(z - lo, hi - z) / max(1.0, hi - lo)
                    min_margin = mg if min_margin is None else min(min_margin, mg)
                    if rel > 0.02 and viol is None:
                        viol, kind = (k, "within 2%%: %d distinct values, len = %d (relative error %.4f)" % (nd, ln, rel)), "property"
            if not is_new and prev is not None and prev[0] == k - 1 and prev[1] != ln and viol is None:
                viol, kind = (k, "C14_dup_blind: re-adding a value seen before changed len from %d to %d (%d distinct so far)" % (prev[1], ln, nd)), "property"
            prev = (k, ln)
    if viol is None:
        if r["cold"]:
            regs = unb64(r["regs"], "B")
            if not mir_cold or not r.get("regs_ok") or list(regs) != mir_regs:
                viol, kind = (len(ids) - 1, "C14_regs_max: final register array differs from the per-bucket maximum rank of the inserted set"), "estimate"
        else:
            if mir_cold or r["set_size"] != nd or not r.get("set_ok"):
                viol, kind = (len(ids) - 1, "warm-up set differs from the set of inserted values"), "property"
    st = dict(ops=len(ids), distinct=nd, checkpoints=len(cps), cold_checkpoints_upto_2p21=n_cold_cp,
              worst_relative_error=round(worst, 6), z_in_window=n_in_window,
              min_window_margin=None if min_margin is None else round(min_margin, 4), consts=co)
    return viol, kind, st


def judge_pipeline_big(run, spec, r):
    """compute_cardinalities at real size vs the closed forms (C14_exact / C14_len_set / C14_estimate)."""
    case = {"pipeline_big": spec}
    if not r["ok"]:
        run.violation("counterexample", "C14 real-size pipeline run", case=case, impl=r["error"], clause="compute_cardinalities terminates normally")
        return False, {}
    co = r["consts"]
    m, W = co["m"], co["warmup_size"]
    hashes = unb64(r["hashes"], "I")
    msg = None
    for b, ob in enumerate(r["obs"]):
        nd = r["cum_distinct"][b]
        ln, fl = ob["id"]
        if nd <= min(W, W_REAL) or nd <= W:
            if fl or ln != nd:
                msg = "column 'id' after mini-batch %d: %d distinct cells so far (<= warm-up capacity) but len = %d, hll_flag = %s (C14_exact)" % (b, nd, ln, fl)
        else:
            z = m - len({h & (m - 1) for h in hashes[:nd]})
            if not fl or ln not in lc_accept(m, z):
                msg = ("column 'id' after mini-batch %d: %d distinct cells, %d empty registers, len should be in %s but is %d (hll_flag %s) "
                       "(C14_estimate / C14_len_set)" % (b, nd, z, sorted(lc_accept(m, z)), ln, fl))
            elif abs(ln - nd) > 0.02 * nd:
                msg = "column 'id' after mini-batch %d: %d distinct cells, len = %d: off by more than 2%%" % (b, nd, ln)
        if msg is None and b == 2 and ln != r["obs"][1]["id"][0]:
            msg = "column 'id': a mini-batch that only repeats earlier cells changed len from %d to %d (C14_dup_blind)" % (r["obs"][1]["id"][0], ln)
        kl, kf = ob["k"]
        if msg is None and (kf or kl != r["cum_small"][b]):
            msg = "column 'k' after mini-batch %d: %d distinct cells so far but len = %d, hll_flag = %s (C14_exact)" % (b, r["cum_small"][b], kl, kf)
        if msg:
            break
    run.count_case(spec, True)
    if msg:
        run.violation("counterexample", "C14 real-size pipeline run (compute_cardinalities -> HyperLogLogWCache) vs closed forms", case=case,
                      impl={"obs": r["obs"], "cum_distinct": r["cum_distinct"]},
                      model="closed forms on the set of internal_hash(str(cell)) digests inserted so far", clause=msg)
        return False, {}
    return True, {"spec": spec, "distinct_per_batch": r["cum_distinct"], "len_per_batch": [o["id"][0] for o in r["obs"]]}


def check_big(run, specs, pipe_big=()):
    out = vlib.run_impl("impl_c14.py", {"cases": [], "big": specs, "pipeline_big": list(pipe_big)}, timeout=3000)
    stats = []
    ok_all = True
    pstats = []
    for spec, r in zip(pipe_big, out.get("pipeline_big", [])):
        okp, st = judge_pipeline_big(run, spec, r)
        ok_all = ok_all and okp
        if st:
            pstats.append(st)
    run.cov["real_size_pipeline_runs"] = pstats
    for spec, r in zip(specs, out["big"]):
        case = {"big": spec}
        if not r["ok"]:
            ok_all = False
            run.violation("counterexample", "C14 real-size run", case=case, impl=r["error"], clause="add()/len() terminates normally")
            continue
        co = r["consts"]
        hashes = unb64(r["hashes"], "I")
        sp = [split(h, co["p"], co["width"]) for h in hashes]
        viol, kind, st = walk_big(r, [a for a, _ in sp], [b for _, b in sp])
        if viol is not None and kind == "estimate" and r.get("own_buckets"):
            ob, orh = unb64(r["own_buckets"], "I"), unb64(r["own_rhos"], "B")
            if (list(ob), list(orh)) != ([a for a, _ in sp], [b for _, b in sp]) and all(x > 0 for x in orh):
                v2, k2, st2 = walk_big(r, ob, orh)
                if v2 is None:
                    viol, st = None, st2
                    st["oracle"] = "implementation's own _hasher_update (not xxh32(seed=p) of the value bytes)"
                    run.notes.append("real-size run %s agrees with the closed forms only under the oracle read off the "
                                     "implementation's own _hasher_update (another hash function: allowed)" % json.dumps(spec))
        st["spec"] = spec
        stats.append(st)
        run.count_case(spec, st["distinct"] > co["warmup_size"])
        if viol is not None:
            ok_all = False
            run.violation("counterexample", "C14 real-size run vs closed forms of the model", case=case,
                          impl={"op": viol[0], "checkpoints_near": [c for c in r["checkpoints"] if abs(c[0] - viol[0]) <= 3]},
                          model="closed forms: len = #distinct while <= W; LC(m - #distinct buckets) beyond", clause=viol[1])
    run.oblige("correspondence: real-size runs vs C14_exact/C14_dup_blind/C14_estimate/C14_regs_max (%d class-level runs, %d through compute_cardinalities)"
               % (len(specs), len(pipe_big)), ok_all)
    return stats


# ---------------------------------------------------------------------------
# the sketch as the pipeline feeds it (core_ranking.compute_cardinalities)

def gen_pipeline(rng):
    p = rng.choice([3, 4, 4, 5])
    m = 1 << p
    W = rng.choice([1, 2, m // 2, m // 2, m // 2 + 1, m])
    cols = rng.sample(["a", "b", "n", "id"], rng.randint(1, 2))
    kinds = {c: rng.choice(["s", "s", "i"]) for c in cols}
    pools = {c: (["v%d" % rng.randint(0, 3 * m) for _ in range(rng.randint(1, 2 * m))] if kinds[c] == "s"
                 else [rng.randint(1, 3 * m) for _ in range(rng.randint(1, 2 * m))]) for c in cols}
    batches = []
    for _ in range(rng.randint(1, 5)):
        rows = rng.randint(1, 14)
        batches.append({c: [rng.choice(pools[c]) for _ in range(rows)] for c in cols})
    return {"pipeline": True, "p": p, "W": W, "batches": batches}


def check_pipeline(run, cases):
    res = vlib.run_impl("impl_c14.py", {"cases": [], "pipeline": cases})["pipeline"]
    exprs, meta = [], []
    for c, r in zip(cases, res):
        if not r["ok"]:
            continue
        for col in c["batches"][0]:
            ids, ops, ends = {}, [], []
            for b in c["batches"]:
                for d in sorted({r["digest"][str(v)][0] for v in b[col]}):     # any order: C14_len_set / C14_regs_set
                    if d not in ids:
                        ids[d] = len(ids)
                    ops.append(ids[d])
                ends.append(len(ops) - 1)
            hashes = [None] * len(ids)
            for d, h in r["digest"].values():
                if d in ids:
                    hashes[ids[d]] = h
            small = {"p": c["p"], "W": c["W"], "ops": ops}
            exprs.append(coq_expr(small, hashes, ends))
            meta.append((c, r, col, ids, ends))
    vals = vlib.coq_eval("C14", HEADER, exprs, shard=12) if exprs else []
    bad = 0
    crossing = 0
    for c, r in zip(cases, res):
        if not r["ok"]:
            bad += 1
            run.count_case(c, False)
            run.violation("counterexample", "C14 pipeline run", case=c, impl=r["error"], clause="compute_cardinalities terminates normally")
    seen_cases = set()
    for (c, r, col, ids, ends), v in zip(meta, vals):
        m = 1 << c["p"]
        lens = [tuple(x) for x in v[0]]
        msg = None
        for b, e in enumerate(ends):
            ph, x = lens[e]
            il, fl = r["obs"][b][col]
            if (ph == 0 and (fl or il != x)) or (ph == 1 and (not fl or il not in lc_accept(m, x))):
                msg = ("column %r after mini-batch %d: %d distinct cell values so far; model %s, implementation len=%d hll_flag=%s"
                       % (col, b, len(set(ops_upto(c, r, col, b))), ("warm, len %d" % x) if ph == 0 else ("cold, %d empty registers, len in %s" % (x, sorted(lc_accept(m, x)))), il, fl))
                break
        if msg is None:
            ph, st = v[1][-1][0], list(v[1][-1][1])
            fin = r["final"].get(col)
            inv = {i: d for d, i in ids.items()}
            if fin is None or (ph == 0 and (fin["cold"] or sorted(fin["set"]) != sorted(inv[i] for i in st))) or \
               (ph == 1 and (not fin["cold"] or fin["regs"] != st)):
                msg = "column %r: final warm-up set / register array differs from the model on the set of inserted digests" % col
        key = id(c)
        if key not in seen_cases:
            seen_cases.add(key)
            cr = any(ph == 1 for ph, _ in lens)
            crossing += cr
            run.count_case(c, cr)
        if msg is not None:
            bad += 1
            if bad <= 2:
                run.violation("counterexample", "C14 pipeline correspondence (compute_cardinalities -> HyperLogLogWCache)", case=c,
                              impl={"obs": r["obs"], "final": r["final"]}, model=repr(lens)[:2000],
                              clause="len of the column's sketch = model on the set of internal_hash(str(cell)) digests inserted so far "
                                     "(C14_exact / C14_len_set / C14_estimate): " + msg)
    run.oblige("correspondence: sketch kept by core_ranking.compute_cardinalities after every mini-batch (%d histories)" % len(cases), bad == 0,
               "%d columns disagree" % bad)
    return {"histories": len(cases), "crossing": crossing}


def ops_upto(c, r, col, b):
    return [r["digest"][str(v)][0] for bt in c["batches"][:b + 1] for v in bt[col]]


def check(run, replay):
    ok, log = vlib.build(["Sketch/HLL.vo"])
    run.oblige("build:model Sketch/HLL.vo", ok, "" if ok else log[-1500:])
    if not ok:
        raise vlib.Broken("build:Sketch/HLL.vo", log)
    vlib.standard_proof_phase(run, ["Props/C14.vo"], "Outrank.Props.C14", THEOREMS, allowed=vlib.STD_REAL_AXIOMS)

    big, pipe, pipe_big = [], [], []
    if replay is not None:
        rc = replay["case"]
        if "big" in rc:
            cases, big = [], [rc["big"]]
        elif "pipeline_big" in rc:
            cases, pipe_big = [], [rc["pipeline_big"]]
        elif rc.get("pipeline"):
            cases, pipe = [], [rc]
        else:
            cases = [rc]
    else:
        corpus = load_corpus("C14")
        cases = [c for c in corpus if "big" not in c and not c.get("pipeline") and "pipeline_big" not in c]
        big_corpus = [c["big"] for c in corpus if "big" in c]
        pipe_corpus = [c for c in corpus if c.get("pipeline")]
        n = 300 if run.tier == "quick" else 1500
        for _ in range(n):
            cases.append(gen_small(run.rng))
        if run.tier == "thorough":
            cases.extend(exhaustive_small())
        pipe = pipe_corpus + [gen_pipeline(run.rng) for _ in range(40 if run.tier == "quick" else 300)]
        s = run.rng.randint(0, 10 ** 6)
        if run.tier == "quick":
            big = [{"family": "hex", "n": W_REAL + 3000, "seed": s, "dups": 0.05, "long": 8000, "long_len": 65536}]
        else:
            big = [{"family": "hex", "n": (1 << 21) + 40000, "seed": s, "dups": 0.03},
                   {"family": "seq", "n": (1 << 21) + 1000, "seed": s + 1, "dups": 0.02},
                   {"family": "rand", "n": (1 << 20), "seed": s + 2, "dups": 0.05},
                   {"family": "bytes", "n": W_REAL + 5000, "seed": s + 3, "dups": 0.3, "long": 20000, "long_len": 70001}]
        big = big_corpus + big
        pipe_big = [c["pipeline_big"] for c in corpus if "pipeline_big" in c]
        pipe_big += [{"seed": run.rng.randint(0, 10 ** 6), "before": run.rng.choice([1, 50, 200]), "new": run.rng.choice([2, 120])}
                     for _ in range(1 if run.tier == "quick" else 3)]
    # the small-sketch device: usable on this tree?
    device_ok = True
    stats = None
    real_first = None
    if cases or pipe:
        verdict, detail = probe_device()
        if verdict == "suspect":
            # decided by the real-size families: if they are quiet, the inconsistency comes from poking the instance
            nv = len(run.violations)
            stats = check_big(run, big, pipe_big) if (big or pipe_big) else []
            if len(run.violations) == nv and (big or pipe_big):
                device_ok = False
                run.notes.append("small-sketch device unusable on this tree (a fresh instance with p/m/warmup_size/width set by the "
                                 "harness: %s) while an unpoked instance passes its short history and the real-size families are quiet: "
                                 "the small-parameter families were skipped; the verdict rests on the real-size families" % detail)
            else:
                run.notes.append("small-sketch probe inconsistent (%s) and the real-size families report a violation as well: "
                                 "the small-parameter families are judged as usual" % detail)
                real_first = len(run.violations)
    run.cov["small_sketch_device_usable"] = device_ok
    hist, defaults = ({}, None)
    if cases:
        hist, defaults = check_small(run, cases, device_ok)
        okc = (defaults["m"] == 1 << defaults["p"] and defaults["warmup_size"] >= W_REAL and
               defaults["p"] <= 32 < defaults["width"] + defaults["p"])
        run.oblige("constants: m = 2^p, warm-up capacity >= 2^18, width + p > 32 (rank >= 1)", okc, json.dumps(defaults))
        if not okc:
            run.violation("broken-obligation", "C14 constants of a fresh HyperLogLogWCache: %s" % json.dumps(defaults), found_input=False)
        if defaults != {"p": P_REAL, "m": 1 << P_REAL, "warmup_size": W_REAL, "width": 64 - P_REAL}:
            run.notes.append("constants differ from p=19, m=2^19, warmup_size=2^18, width=45: %s" % json.dumps(defaults))
    if stats is None:
        stats = check_big(run, big, pipe_big) if (big or pipe_big) else []
    run.cov["pipeline_histories"] = check_pipeline(run, pipe) if (pipe and device_ok) else {}
    if real_first is not None and len(run.violations) > real_first:
        # minimal small replays first, the real-size ones after them
        small_v = [v for v in run.violations[real_first:] if v.get("found_input")]
        rest = [v for v in run.violations if v not in small_v]
        run.violations[:] = small_v + rest
    run.cov["input_distribution"] = hist
    run.cov["real_size_runs"] = stats
    run.cov["fresh_instance_constants"] = defaults
    run.cov["exhaustive"] = False
    if run.tier == "thorough" and replay is None:
        run.cov["exhaustive_small_scope"] = "all sequences of length <= 5 over 4 values (str/bytes twins), p=2, W=0..3 (5460 sequences) included"
    run.samples = [c for c in cases[:2]] + [{"big": b} for b in big[:1]]
    run.assumptions += [
        "values are abstracted to ids by the harness (equality of ids = Python equality of the inserted str/bytes objects)",
        "small instances: the harness sets the attributes p, m, warmup_size, width of a fresh instance; add/_hasher_update/__len__ are the unmodified methods",
        "len() in the cold phase is compared with int(ceil(m*ln(m/z)))-1 evaluated in float on the model's z; when m*ln(m/z) is within 1e-9 (relative) of an integer both neighbours are accepted",
        "'within 2%' is checked only as a measured statistic on the generated families (hex digests as compute_cardinalities inserts them, decimal ids, random short strings, random bytes); as a theorem it is conditional on the window for z (C14_2pct_conditional) and false for an adversarial hash (C14_hash_matters)",
    ]
    run.trusted += [
        "harness: tools/props/c14.py (generators, id abstraction, float evaluation of the LC term, closed-form evaluation at real size, Python mirror held to the Coq model on every small sequence), tools/impl/impl_c14.py (drives the real class, tabulates xxh32)",
        "real-size runs are NOT executed in Coq: they are compared with the closed forms the theorems give for the model (exact count; LC of m minus the number of distinct buckets; per-bucket maximum rank) evaluated in Python on the tabulated hashes",
        "xxhash library (oracle: the theorems hold for every hash function), numpy ceil/log (float)",
        "coqparse.py (reads the terms coqc prints)",
    ]
