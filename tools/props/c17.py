"""C17 — the 3MR ranking is a greedy-optimal permutation of the features."""
from __future__ import annotations

import json
import os
from fractions import Fraction

import coqparse
import vlib

LEVEL = "proof"
RULE = ("instances (relevance dict, redundancy dict, relation dict, strategy, alpha, beta) for rank_features_3MR: 1..30 "
        "features with varied names, scores k/64 (ties, negatives), pair dictionaries dense / sparse / asymmetric / "
        "symmetric / empty / with keys outside the relevance dict, strategy median|mean|sum, alpha,beta in k/4; the "
        "returned data frame is judged by the Coq validator valid_3mr on the same dictionaries; non-trivial = at least 3 "
        "features and a non-empty pair dictionary; distinct = distinct canonical instances")
THEOREMS = ["C17_perm", "C17_feats_are_keys", "C17_first_max", "C17_step", "C17_ranks", "C17_valid_iff",
            "C17_model_valid", "C17_check_sound", "C17_model_ok", "C17_score_def", "C17_agg_sum", "C17_agg_mean",
            "C17_agg_median", "C17_missing_zero", "C17_present", "C17_caller_valid", "C17_caller_feats",
            "C17_caller_degenerate", "C17_degenerate_iff"]
CLAUSES = ["every feature of the relevance dict exactly once (permutation, no duplicates)",
           "first feature has maximal relevance",
           "k-th feature maximises relevance - alpha*agg(redundancy with prefix) + beta*agg(relation with prefix) over the remaining",
           "ranks are 1..n in list order"]
STEMS = ["f", "feature", "user_", "x", "item-", "ctx AND dev", "é", "col", "A", "zz_", "q.", "0", "label", "ts "]
DEN = 64
HEADER = ("From Coq Require Import List QArith ZArith NArith.\nFrom Outrank Require Import Rank.QMedian Rank.ThreeMR.\n"
          "Import ListNotations.\nOpen Scope Q_scope.\n"
          "Definition sc (m : Z) (e : positive) : Q := m # (2 ^ e)%positive.   (* literal m / 2^e of a double *)")


# ---------------------------------------------------------------------------
# generation

SPECIAL_NAMES = ["", " ", "0", "None", "nan", "False", "NaN", "-"]     # falsy / NA-looking feature names are names like any other


def gen_names(rng, n):
    names, seen = [], set()
    while len(names) < n:
        if rng.random() < 0.12:
            s = rng.choice(SPECIAL_NAMES)
        else:
            s = rng.choice(STEMS) + str(rng.randint(0, 999))
        if s not in seen:
            seen.add(s)
            names.append(s)
    return names


def gen_case(rng, hashseed, big=False):
    u = rng.random()
    if big:
        n = rng.randint(16, 30)
    elif u < 0.45:
        n = rng.randint(1, 6)
    elif u < 0.85:
        n = rng.randint(7, 14)
    else:
        n = rng.randint(15, 30)
    extra = rng.choice([0, 0, 0, 1, 3])
    names = gen_names(rng, n + extra)
    vmode = rng.choice(["wide", "wide", "ties", "neg", "unit", "coarse"])

    def val():
        if vmode == "wide":
            return rng.randint(-64, 192)
        if vmode == "ties":
            return rng.choice([0, 16, 32])
        if vmode == "neg":
            return rng.randint(-128, 0)
        if vmode == "unit":
            return rng.randint(0, 64)
        return 16 * rng.randint(-2, 6)
    order = list(range(n))
    rng.shuffle(order)
    rel = [[i, val()] for i in order]

    def pairs(kind):
        ids = list(range(n + extra))
        out = []
        if kind == "empty":
            return out
        for i in ids:
            for j in ids:
                if kind == "dense":
                    keep = True
                elif kind == "sparse":
                    keep = rng.random() < 0.3
                elif kind == "upper":          # what the ranking task produces: one orientation only
                    keep = i <= j
                elif kind == "lower":
                    keep = i > j
                elif kind == "offdiag":
                    keep = i != j
                else:                           # symmetric handled below
                    keep = i <= j and rng.random() < 0.7
                if keep:
                    out.append([i, j, val()])
        if kind == "symmetric":
            out = out + [[j, i, v] for i, j, v in out if i != j]
        rng.shuffle(out)
        return out
    kinds = ["dense", "sparse", "upper", "lower", "offdiag", "symmetric", "empty"]
    red = pairs(rng.choice(kinds))
    rln = pairs(rng.choice(kinds))
    w = rng.random()
    if w < 0.08:
        return dict(names=names, den=DEN, rel=rel, red=red, rln=rln, defaults=True, strategy="median",
                    alpha=[1, 1], beta=[1, 1], hashseed=hashseed)
    strategy = rng.choice(["median", "mean", "sum"])
    alpha = [rng.choice([0, 1, 2, 3, 4, 4, 5, 6, 8, 12]), 4]
    beta = [rng.choice([0, 1, 2, 3, 4, 4, 5, 6, 8, 12]), 4]
    return dict(names=names, den=DEN, rel=rel, red=red, rln=rln, defaults=False, strategy=strategy,
                alpha=alpha, beta=beta, hashseed=hashseed)


def gen_close_case(rng, hashseed):
    """Scores that are distinct but closer than 1e-12 (down to one unit in the last place / one denormal step), chosen so that
    EVERY float operation of the implementation is exact (integers times one power of two, integer alpha/beta, sum or
    even-valued median; or empty pair dictionaries, where importance = relevance) - the float argmax is the exact argmax and
    the validator compares exactly.  Values travel as float.hex() literals."""
    import math
    n = rng.randint(2, 10)
    names = gen_names(rng, n)
    fam = rng.choice(["denormal", "tiny", "ulp", "tenth", "tinyrandom"])
    order = list(range(n))
    rng.shuffle(order)
    red, rln = [], []
    strategy = rng.choice(["sum", "median"])
    alpha, beta = [rng.choice([0, 1, 1, 2]), 1], [rng.choice([0, 1, 1, 2]), 1]

    def pairs(e, top):
        out = []
        kind = rng.choice(["dense", "sparse", "upper", "empty"])
        for i in range(n):
            for j in range(n):
                keep = kind == "dense" or (kind == "sparse" and rng.random() < 0.4) or (kind == "upper" and i <= j)
                if keep and kind != "empty":
                    out.append([i, j, math.ldexp(float(2 * rng.randint(0, top)), e).hex()])
        rng.shuffle(out)
        return out
    if fam == "denormal":                       # k * 5e-324
        ks = rng.sample(range(0, 200), n)
        rel = [[i, math.ldexp(float(k), -1074).hex()] for i, k in zip(order, ks)]
        red, rln = pairs(-1074, 4), pairs(-1074, 4)
    elif fam == "tiny":                         # m * 2^-1000 ~ m * 9.3e-302
        ks = rng.sample(range(0, 2 ** 20), n)
        rel = [[i, math.ldexp(float(k), -1000).hex()] for i, k in zip(order, ks)]
        red, rln = pairs(-1000, 2 ** 10), pairs(-1000, 2 ** 10)
    elif fam == "ulp":                          # 1 - k * 2^-53: neighbouring doubles below 1
        ks = rng.sample(range(0, 64), n)
        rel = [[i, (1.0 - math.ldexp(float(k), -53)).hex()] for i, k in zip(order, ks)]
        red = pairs(-53, 3)                     # relevance - alpha * aggregate stays a multiple of 2^-53 inside [0.5, 1]
    elif fam == "tenth":                        # 0.5 + k * 1e-13 (not dyadic, but importance = relevance: empty dictionaries)
        ks = rng.sample(range(0, 100), n)
        rel = [[i, (0.5 + k * 1e-13).hex()] for i, k in zip(order, ks)]
        strategy = rng.choice(["sum", "median", "mean"])
        alpha, beta = [rng.choice([0, 1, 3, 4, 8]), 4], [rng.choice([0, 1, 3, 4, 8]), 4]
    else:                                       # random() * 1e-300, empty dictionaries
        rel = [[i, (rng.random() * 1e-300).hex()] for i in order]
        strategy = rng.choice(["sum", "median", "mean"])
    return dict(names=names, den=DEN, rel=rel, red=red, rln=rln, defaults=False, strategy=strategy,
                alpha=alpha, beta=beta, hashseed=hashseed, family="close:" + fam)


def exhaustive_cases(hashseed):
    """All instances over 3 features with relevance in {0,1}/1, one redundancy and one relation entry placed on
    every ordered pair, each strategy."""
    import itertools
    out = []
    names = ["a", "b", "c"]
    pairs = [(i, j) for i in range(3) for j in range(3)]
    for r in itertools.product([0, 64], repeat=3):
        for (i, j) in pairs:
            for (k, l) in pairs:
                for strategy in ("median", "mean", "sum"):
                    out.append(dict(names=names, den=DEN, rel=[[0, r[0]], [1, r[1]], [2, r[2]]],
                                    red=[[i, j, 32]], rln=[[k, l, 96]], defaults=False, strategy=strategy,
                                    alpha=[4, 4], beta=[2, 4], hashseed=hashseed))
    return out


def load_corpus(pid):
    d = os.path.join(vlib.VERIF, "corpus", pid)
    out = []
    if os.path.isdir(d):
        for f in sorted(os.listdir(d)):
            if f.endswith(".json"):
                out.append(json.load(open(os.path.join(d, f))))
    return out


# ---------------------------------------------------------------------------
# encoding

def q(num, den):
    return coqparse.lit(Fraction(int(num), int(den)))


def qv(x, den):
    """a score entry: an integer k means k/den, a string is a float.hex() literal (an exact dyadic rational)"""
    if isinstance(x, str):
        fr = Fraction(float.fromhex(x))
        e = fr.denominator.bit_length() - 1          # the denominator of a double is a power of two
        if e > 60:                                    # m / 2^e written as  sc m e  (a 300-digit decimal literal is slow to read)
            return "(sc %s %d)" % (vlib.zlit(fr.numerator), e)
        return coqparse.lit(fr)
    return q(x, den)


def strat_coq(case):
    if case.get("defaults"):
        return "Median", "(1 # 1)", "(1 # 1)"
    s = case["strategy"]
    st = "Median" if s == "median" else ("Mean" if s == "mean" else "Sum")   # as the code's conditional does
    return st, q(*case["alpha"]), q(*case["beta"])


def inst_coq(case):
    den = case["den"]
    rel = "[" + "; ".join("(%d%%N, %s)" % (i, qv(k, den)) for i, k in case["rel"]) + "]"

    def tbl(t):
        return "[" + "; ".join("((%d%%N, %d%%N), %s)" % (i, j, qv(k, den)) for i, j, k in t) + "]"
    st, a, b = strat_coq(case)
    return "(mk_inst %s %s %s %s %s %s)" % (rel, tbl(case["red"]), tbl(case["rln"]), st, a, b)


def obs_coq(case, rows):
    idx = {}
    for i, nme in enumerate(case["names"]):
        idx.setdefault(nme, i)
    unknown = len(case["names"]) + 7
    items = []
    for f, r in rows:
        fid = idx.get(f, unknown) if f is not None else unknown
        items.append("(%d%%N, %s%%Z)" % (fid, vlib.zlit(r if r is not None else -1)))
    return "[" + "; ".join(items) + "]"


def evaluate(cases, pid="C17"):
    """Runs implementation and validator.  Returns per case a dict(verdict=None|clause text, impl=..., model=..., unique=..)."""
    if not cases:
        return []
    res = []
    by_seed = {}
    for i, c in enumerate(cases):
        by_seed.setdefault(int(c.get("hashseed", 0)), []).append(i)
    impl = [None] * len(cases)
    for hs, idxs in by_seed.items():
        r = vlib.run_impl("impl_c17.py", {"cases": [cases[i] for i in idxs]}, env_extra={"PYTHONHASHSEED": str(hs)})["results"]
        for i, x in zip(idxs, r):
            impl[i] = x
    exprs, where = [], []
    for i, (c, r) in enumerate(zip(cases, impl)):
        if r["ok"]:
            exprs.append("let d := %s in let r := %s in (clauses_3mr d r, ranking_df d, uniqueb d (ranking d))"
                         % (inst_coq(c), obs_coq(c, r["rows"])))
            where.append(i)
    vals = vlib.coq_eval(pid, HEADER, exprs, shard=25)
    out = [None] * len(cases)
    for i, r in enumerate(impl):
        if not r["ok"]:
            out[i] = dict(verdict="call terminates normally and returns a data frame", impl=r["error"], model=None, unique=False,
                          kind="impl-raises")
    for i, v in zip(where, vals):
        c1, c2, c3, c4, model, uniq = v
        bad = [CLAUSES[k] for k, ok in enumerate((c1, c2, c3, c4)) if not ok]
        names = cases[i]["names"]
        model_rows = [[names[f], z] for f, z in model]
        out[i] = dict(verdict="; ".join(bad) if bad else None, impl=impl[i]["rows"], model=model_rows, unique=bool(uniq),
                      kind="validator")
    return out


# ---------------------------------------------------------------------------
# pipeline family: the real ranking task builds the dictionaries (task_ranking.py:165-237)

PIPE_COLS = ["fa", "zb", "mc", "age", "zip", "dev", "os_", "hour", "Q1", "x9", "ua", "pos"]
PIPE_HEADER = HEADER + """
Definition encq (q : Q) : Z * Z := (Qnum q, Zpos (Qden q)).
"""
PIPE_TOL = 1e-9


def gen_pipeline_case(rng):
    k = rng.randint(2, 5)
    cols = rng.sample(PIPE_COLS, k) + [rng.choice(["label", "y", "click", "Target"])]
    cards = [rng.randint(2, 6) for _ in range(k)]
    copies = []
    if k >= 3 and rng.random() < 0.6:
        j, src = rng.sample(range(k), 2)
        copies.append([j, src])
    signal = rng.sample(range(k), rng.randint(1, min(2, k)))
    nrows = rng.randint(150, 600)
    return dict(kind="pipeline", cols=cols, cards=cards, copies=copies, signal=signal, nrows=nrows,
                dataseed=rng.randint(0, 10 ** 9), minibatch=rng.choice([50, 64, 100, 128]),
                interaction_order=(1 if k == 2 else rng.choice([1, 2, 2, 2, 3]) if k <= 4 else rng.choice([1, 2])),
                heuristic=rng.choice(["MI-numba-3mr", "MI-numba-3mr", "MI-numba-randomized-3mr"]),
                parts=rng.choice([1, 1, 2, 2, 3]), hashseed=0)


def hexfrac(h):
    return Fraction(float.fromhex(h))


def evaluate_pipeline(cases, hashseed):
    """Returns per case dict(status = ok|violation|excluded|near-tie, clause, impl, model)."""
    if not cases:
        return []
    impl = vlib.run_impl("impl_c17.py", {"cases": cases}, env_extra={"PYTHONHASHSEED": str(hashseed)})["results"]
    out = [None] * len(cases)
    exprs, where, maps = [], [], []
    for i, (c, r) in enumerate(zip(cases, impl)):
        if not r.get("ok"):
            out[i] = dict(status="violation", clause="the ranking task terminates normally", impl=r.get("error"), model=None)
            continue
        if r.get("ranks") is None or r.get("triplets") is None:
            out[i] = dict(status="violation", clause="3mr_ranks.tsv / pairwise_ranks.tsv are written for a *3mr heuristic",
                          impl={"exit": r.get("exit"), "has_triplets": r.get("triplets") is not None}, model=None)
            continue
        ids = {}

        def fid(nme):
            if nme not in ids:
                ids[nme] = len(ids)
            return ids[nme]

        def cname(nme):
            parts = nme.split(" AND_REL ")
            if len(parts) == 1:
                return "(Plain %d%%N)" % fid(nme)
            return "(Rel %d%%N %d%%N)" % (fid(parts[0]), fid(parts[1]))
        lbl = fid(c["cols"][-1])
        # the dictionaries are built from the concatenated per-file frames BEFORE the final sort by Score: with several input
        # files a pair occurs once per file and the LAST one wins, so the model must see the rows in the code's order
        # (recorded by a wrapper around estimate_importances_minibatches); pairwise_ranks.tsv (sorted by Score) is the fallback
        trip = r["triplets"]
        seen = r.get("triplets_in_code_order")
        order_known = False
        if seen is not None and sorted(map(tuple, seen)) == sorted(map(tuple, trip)):
            trip, order_known = seen, True
        dup = len({(a, b) for a, b, _ in trip}) < len(trip)
        if dup and not order_known:
            out[i] = dict(status="excluded-order-unknown", clause="repeated pairs and the code's row order could not be observed",
                          impl=r["ranks"], model=None)
            continue
        T = "[" + "; ".join("(%s, %s, %s)" % (cname(a), cname(b), coqparse.lit(hexfrac(h))) for a, b, h in trip) + "]"
        rows = []
        unknown = 10 ** 6
        for f, rk in r["ranks"]:
            try:
                z = int(rk)
            except ValueError:
                z = -1
            rows.append("(%d%%N, %s%%Z)" % (ids.get(f, unknown), vlib.zlit(z)))
        exprs.append("let T := %s in let lbl := %d%%N in let r := [%s] in match build_inst lbl T with None => None | Some d => "
                     "Some (clauses_3mr d r, valid_slackb (1 # 1000000000) d r, "
                     "map (fun '(k, v) => (k, encq v)) (rel d), map (fun '(a, b, v) => (a, b, encq v)) (red d), "
                     "map (fun '(a, b, v) => (a, b, encq v)) (rln d), ranking d) end" % (T, lbl, "; ".join(rows)))
        where.append(i)
        maps.append((ids, dup))
    vals = vlib.coq_eval("C17p", PIPE_HEADER, exprs, shard=4) if exprs else []
    for i, (ids, dup), v in zip(where, maps, vals):
        inv = {k: nme for nme, k in ids.items()}
        r = impl[i]
        if v is None:
            # build_inst = None: a non-empty table with min = max; the code's normalisation is 0/0 (NaN dictionaries, empty names
            # in 3mr_ranks.tsv): no instance, nothing the property determines
            out[i] = dict(status="excluded", clause="min = max in a normalised table (0/0 in the code; build_inst = None)",
                          impl=r["ranks"], model=None)
            continue
        c1, c2, c3, c4, slack, mrel, mred, mrln, mrank = v[1]
        model_rank = [inv[f] for f in mrank]
        # 1. the dictionaries the caller built
        bad = None
        if r.get("dicts") is not None:
            d = r["dicts"]
            m_rel = {inv[k]: Fraction(n, dd) for k, (n, dd) in mrel}
            m_red = {(inv[a], inv[b]): Fraction(n, dd) for a, b, (n, dd) in mred}
            m_rln = {(inv[a], inv[b]): Fraction(n, dd) for a, b, (n, dd) in mrln}
            i_rel = {k: h for k, h in d["rel"]}
            i_red = {(a, b): h for a, b, h in d["red"]}
            i_rln = {(a, b): h for a, b, h in d["rln"]}
            for nm, mi, ii in (("relevance", m_rel, i_rel), ("redundancy", m_red, i_red), ("relation", m_rln, i_rln)):
                if set(mi) != set(ii):
                    bad = "%s dictionary: keys differ (impl-only %s, model-only %s)" % (
                        nm, sorted(set(ii) - set(mi))[:4], sorted(set(mi) - set(ii))[:4])
                    break
                for k in mi:
                    if ii[k] == "nan" or abs(float.fromhex(ii[k]) - float(mi[k])) > PIPE_TOL:
                        bad = "%s dictionary: value at %s is %s, expected %.12g" % (
                            nm, k, ii[k] if ii[k] == "nan" else float.fromhex(ii[k]), float(mi[k]))
                        break
                if bad:
                    break
        if bad:
            out[i] = dict(status="violation", clause="the dictionaries handed to rank_features_3MR are the min-max normalised "
                          "relevance / redundancy / relation scores of the triplets: " + bad, impl=r["ranks"], model=model_rank)
            continue
        failed = [CLAUSES[k] for k, ok in enumerate((c1, c2, c3, c4)) if not ok]
        if not failed:
            out[i] = dict(status="ok", clause=None, impl=r["ranks"], model=model_rank, dicts_seen=r.get("dicts") is not None,
                          repeated_keys=dup)
        elif slack:
            out[i] = dict(status="near-tie", clause="; ".join(failed), impl=r["ranks"], model=model_rank)
        else:
            out[i] = dict(status="violation", clause="3mr_ranks.tsv: " + "; ".join(failed), impl=r["ranks"], model=model_rank)
    return out


def drop_feature(case, k):
    """The same instance without relevance key k (pairs mentioning it stay: they are then keys outside the dict)."""
    c = dict(case)
    c["rel"] = [e for e in case["rel"] if e[0] != k]
    return c


def drop_pairs_of(case, k):
    c = dict(case)
    c["red"] = [e for e in case["red"] if e[0] != k and e[1] != k]
    c["rln"] = [e for e in case["rln"] if e[0] != k and e[1] != k]
    return c


def drop_features(case, ks):
    c = case
    for k in ks:
        c = drop_pairs_of(drop_feature(c, k), k)
    return c


def size(case):
    return (len(case["rel"]), len(case["red"]) + len(case["rln"]))


def shrink(case, rounds=8):
    """Greedy: per round try dropping halves / single features / whole pair dictionaries, keep the smallest still failing."""
    cur = case
    for _ in range(rounds):
        cands = []
        keys = [e[0] for e in cur["rel"]]
        if len(keys) > 3:
            h = len(keys) // 2
            cands += [drop_features(cur, keys[:h]), drop_features(cur, keys[h:])]
        if len(keys) > 1:
            cands += [drop_features(cur, [k]) for k in keys]
        ids = sorted({e[0] for e in cur["red"] + cur["rln"]} | {e[1] for e in cur["red"] + cur["rln"]})
        cands += [drop_pairs_of(cur, k) for k in ids if k not in keys]
        if cur["red"]:
            cands.append(dict(cur, red=[]))
        if cur["rln"]:
            cands.append(dict(cur, rln=[]))
        if not cands:
            break
        try:
            ev = evaluate(cands, pid="C17s")
        except vlib.Broken:
            break
        failing = [c for c, e in zip(cands, ev) if e["verdict"]]
        if not failing:
            break
        cur = min(failing, key=size)
    return cur


def check(run, replay):
    model_ok, log = vlib.build(["Rank/ThreeMR.vo"])
    run.oblige("build:model Rank/ThreeMR.vo", model_ok, "" if model_ok else log[-1500:])
    if not model_ok:
        raise vlib.Broken("build:Rank/ThreeMR.vo", log)
    vlib.standard_proof_phase(run, ["Props/C17.vo"], "Outrank.Props.C17", THEOREMS)

    hashseed = run.rng.randint(0, 2 ** 32 - 1)
    pipe_cases = []
    if replay is not None and replay["case"].get("kind") == "pipeline":
        pipe_cases = [replay["case"]]
        cases = []
    elif replay is not None:
        cases = [replay["case"]]
    else:
        pipe_cases = [dict(gen_pipeline_case(run.rng), hashseed=hashseed) for _ in range(14 if run.tier == "quick" else 150)]
        cases = load_corpus("C17")
        n = 260 if run.tier == "quick" else 2500
        for i in range(n):
            cases.append(gen_case(run.rng, hashseed))
        for i in range(4 if run.tier == "quick" else 60):
            cases.append(gen_case(run.rng, hashseed, big=True))
        for i in range(60 if run.tier == "quick" else 600):
            cases.append(gen_close_case(run.rng, hashseed))
        if run.tier == "thorough":
            cases.extend(exhaustive_cases(hashseed))
    ev = evaluate(cases)

    hist = {"n_features": {}, "strategy": {}, "defaults": 0, "unique_ranking": 0, "with_ties": 0, "impl_errors": 0,
            "red_entries": {}, "alpha": {}, "beta": {}, "family": {}, "special_feature_names": 0}
    same_as_model = differs_but_unique = 0
    first_bad = None
    for c, e in zip(cases, ev):
        n = len(c["rel"])
        hist["n_features"][n] = hist["n_features"].get(n, 0) + 1
        fam = c.get("family", "k/64")
        hist["family"][fam] = hist["family"].get(fam, 0) + 1
        if any(c["names"][i] in SPECIAL_NAMES for i, _ in c["rel"]):
            hist["special_feature_names"] += 1
        skey = "defaults" if c.get("defaults") else c["strategy"]
        hist["strategy"][skey] = hist["strategy"].get(skey, 0) + 1
        b = min(len(c["red"]) // 50 * 50, 900)
        hist["red_entries"][b] = hist["red_entries"].get(b, 0) + 1
        hist["alpha"][str(Fraction(*c["alpha"]))] = hist["alpha"].get(str(Fraction(*c["alpha"])), 0) + 1
        hist["beta"][str(Fraction(*c["beta"]))] = hist["beta"].get(str(Fraction(*c["beta"])), 0) + 1
        canon = dict(c)
        canon.pop("hashseed", None)
        run.count_case(canon, n >= 3 and bool(c["red"] or c["rln"]))
        if e["kind"] == "impl-raises":
            hist["impl_errors"] += 1
        if e["unique"]:
            hist["unique_ranking"] += 1
        else:
            hist["with_ties"] += 1
        if e["verdict"] is None:
            if e["impl"] == e["model"]:
                same_as_model += 1
            elif e["unique"]:
                differs_but_unique += 1      # cannot happen when the validator accepted; kept as a cross-check of the harness
        elif first_bad is None or size(c) < size(first_bad[0]):
            first_bad = (c, e)
    nbad = sum(1 for e in ev if e["verdict"])
    if first_bad is not None:
        c, e = first_bad
        small = c if replay is not None else shrink(c)
        if small is not c:
            e2 = evaluate([small], pid="C17s")[0]
            if e2["verdict"]:
                c, e = small, e2
        run.violation("counterexample", "C17_check (valid_3mr) on the implementation's data frame" if e["kind"] == "validator"
                      else "impl-raises", case=c, impl=e["impl"], model=e["model"], clause=e["verdict"],
                      extra={"failing_cases_in_run": nbad, "total": len(cases)})
    run.oblige("correspondence:valid_3mr (Coq) accepts the implementation's data frame", nbad == 0,
               "" if nbad == 0 else "%d of %d data frames rejected" % (nbad, len(cases)))
    if differs_but_unique:
        run.notes.append("harness cross-check: %d accepted data frames differ from the model although the ranking is forced" % differs_but_unique)
    # the caller
    pev = evaluate_pipeline(pipe_cases, pipe_cases[0].get("hashseed", hashseed) if pipe_cases else hashseed)
    pstat = {}
    for c, e in zip(pipe_cases, pev):
        pstat[e["status"]] = pstat.get(e["status"], 0) + 1
        run.count_case(c, e["status"] == "ok" and len(e["model"]) >= 3)
    pbad = [(c, e) for c, e in zip(pipe_cases, pev) if e["status"] == "violation"]
    if pbad:
        c, e = min(pbad, key=lambda ce: (len(ce[0]["cols"]), ce[0]["interaction_order"], ce[0]["nrows"]))
        run.violation("counterexample", "C17 caller correspondence (build_inst / valid_3mr on the ranking task's outputs)",
                      case=c, impl=e["impl"], model=e["model"], clause=e["clause"],
                      extra={"failing_pipeline_cases": len(pbad), "total": len(pipe_cases)})
    run.oblige("correspondence:task_ranking builds the dictionaries of build_inst and writes a valid 3mr_ranks.tsv", not pbad,
               "" if not pbad else "%d of %d pipeline runs rejected" % (len(pbad), len(pipe_cases)))
    run.cov["pipeline_runs"] = pstat
    run.cov["pipeline_dicts_observed"] = sum(1 for e in pev if e.get("dicts_seen"))
    run.cov["pipeline_runs_with_repeated_keys_last_row_wins"] = sum(1 for e in pev if e.get("repeated_keys") and e["status"] == "ok")
    run.cov["frames_checked_in_coq"] = len(cases) - hist["impl_errors"]
    run.cov["same_order_as_transcription"] = same_as_model
    run.cov["input_distribution"] = hist
    run.cov["python_hash_seed"] = hashseed
    run.cov["exhaustive"] = False
    if run.tier == "thorough" and replay is None:
        run.cov["exhaustive_small_scope"] = ("3 features, relevance in {0,1}^3, one redundancy entry and one relation entry on "
                                             "every ordered pair, 3 strategies (1944 instances) included")
    run.samples = [cases[j] for j in range(min(2, len(cases)))] + pipe_cases[:1]
    run.assumptions += [
        "feature names are abstracted to ids by the harness (equality of names = equality of ids)",
        "close-score families (denormals k*2^-1074, m*2^-1000, 1-k*2^-53, 0.5+k*1e-13, random()*1e-300): values are float.hex literals "
        "read exactly; every float operation of the implementation is exact there (integers times one power of two with integer "
        "alpha/beta and sum / even-valued median, or empty pair dictionaries where importance = relevance), so the validator compares "
        "EXACTLY although importances differ by far less than 1e-12",
        "other families: scores are dyadic rationals k/64 and alpha, beta multiples of 1/4, so distinct exact importances at one step differ by "
        ">= 1/(256*29) > 1e-4 while the float evaluation errs by < 1e-12: the float argmax is an exact argmax",
        "strategy strings other than 'median'/'mean' select the sum, as in the code's conditional; only median|mean|sum are generated",
        "the empty relevance dict (n = 0) is outside the property (max() raises) and is not generated",
    ]
    run.trusted += ["harness: tools/props/c17.py (generator, id abstraction, Fraction literals), tools/impl/impl_c17.py (drives the real code)",
                    "coqparse.py (reads the terms coqc prints)"]
