"""C02 — scores depend on the co-occurrence structure, not on the numeric category codes."""
from __future__ import annotations

import json

import vlib
from props import c01

LEVEL = "proof"
RULE = ("quadruples (Y, X, f, g, flag): base pair from the C01 families plus identical pairs, equal-sum/equal-histogram "
        "non-identical pairs and pairs that become identical after recoding; f, g injective recodings (identity, permutation "
        "of the used codes, offset, order-reversing, sparse up to 2^20-1, affine); both flag values; plus SCALE quadruples at n = "
        "40 000 .. 200 000 regenerated from (family, n, seed, recoding); the real code runs on "
        "(Y, X) and on (f(Y), g(X)), each is compared with the Coq model and, where the theorem applies, with each other; "
        "non-trivial = both sides take >= 2 values and at least one of f, g is not the identity; distinct = distinct quadruples")
THEOREMS = ["C02_core_relabel", "C02_veq_spec", "C02_selfpair_exact", "C02_entry_relabel_offdiag", "C02_entry_relabel_flag_off",
            "C02_diag_relabel_refuted", "C02_prefix_refuted"]
DIAG = {"Y": [0, 1, 0, 1, 2, 2]}          # C02_diag_relabel_refuted: (Y, Y) scores ln 3, (Y, Y + 10) scores ln 2 with the flag on
KINDS = ["identity", "perm", "offset", "reverse", "sparse", "affine"]
WITNESS = {"Y": [0, 1, 0, 1, 2, 2, 0, 1], "X": [1, 0, 1, 0, 2, 2, 1, 0]}


def relabel(rng, v, kind):
    """an injective map on the used codes of v, as a dict, codes staying in [0, 2^20)"""
    vals = sorted(set(v))
    mx = vals[-1]
    if kind == "identity":
        return {a: a for a in vals}
    if kind == "perm":
        p = list(vals)
        rng.shuffle(p)
        return dict(zip(vals, p))
    if kind == "offset":
        k = rng.choice([1, 10, rng.randint(1, 1000), c01.MAXCODE - mx])
        k = max(0, min(k, c01.MAXCODE - mx))
        return {a: a + k for a in vals}
    if kind == "reverse":
        m = rng.choice([mx, mx + rng.randint(0, 50), c01.MAXCODE])
        return {a: m - a for a in vals}
    if kind == "sparse":
        codes = rng.sample(range(c01.MAXCODE + 1), len(vals))
        return dict(zip(vals, codes))
    if kind == "affine":
        a_max = max(1, (c01.MAXCODE - 100) // max(1, mx))
        a = rng.randint(1, min(a_max, 997))
        b = rng.randint(0, 100)
        if a * mx + b > c01.MAXCODE:
            a, b = 1, 0
        return {v_: a * v_ + b for v_ in vals}
    raise ValueError(kind)


def gen_quads(rng, tier, count):
    out = []
    sizes = c01.gen_sizes(rng, tier, count)
    fams = c01.FAMILIES + ["identical", "equalsum", "becomes-identical", "witness"]
    for i, n in enumerate(sizes):
        fam = fams[i % len(fams)]
        if n >= 1000:
            n = rng.randint(700, 1500)                # two model evaluations per quadruple
        kf, kg = rng.choice(KINDS), rng.choice(KINDS)
        if fam == "identical":
            X = [rng.randrange(rng.randint(1, max(1, min(n, 12)))) for _ in range(n)]
            Y = list(X)
        elif fam == "equalsum":
            X = [rng.randrange(rng.randint(2, max(2, min(n, 8)))) for _ in range(n)]
            Y = list(X)
            if rng.random() < 0.5:
                rng.shuffle(Y)                        # equal histogram, equal sum
            else:                                     # +1 / -1 on two positions: equal sum, different histogram
                idx = [j for j in range(n)]
                rng.shuffle(idx)
                for a in idx:
                    for b in idx:
                        if a != b and Y[b] >= 1:
                            Y[a] += 1
                            Y[b] -= 1
                            break
                    else:
                        continue
                    break
        elif fam == "becomes-identical":
            X = [rng.randrange(rng.randint(2, max(2, min(n, 10)))) for _ in range(n)]
            h = relabel(rng, X, rng.choice(["perm", "offset", "sparse", "reverse"]))
            Y = [h[a] for a in X]                     # Y is a recoding of X; g := h, f := identity makes them identical
            out.append(_mk(Y, X, {a: a for a in set(Y)}, h, rng.random() < 0.7, fam, "identity", "bijection-onto-Y"))
            continue
        elif fam == "witness":
            Y, X = list(WITNESS["Y"]), list(WITNESS["X"])
            reps = rng.randint(1, 3)
            Y, X = Y * reps, X * reps
        else:
            for _ in range(20):
                Y, X = c01.gen_pair(rng, fam, n)
                if n < 600 or c01.model_cost(Y, X) <= 1.2e7:
                    break
                n = max(600, n // 2)
        f = relabel(rng, Y, kf)
        if Y == X and rng.random() < 0.6:
            g, kg = f, kf                             # identical stays identical
        else:
            g = relabel(rng, X, kg)
        flag = rng.random() < 0.6
        out.append(_mk(Y, X, f, g, flag, fam, kf, kg))
    # identical pairs of every shape, BOTH flags: recoded with the same map (stay identical) and with two maps (stop being so)
    for shape in ("alldistinct", "alldistinct-sparse", "constant", "singleton-heavy", "zipf"):
        for flag in (True, False):
            n = rng.randint(2, 80)
            if shape.startswith("alldistinct"):
                V = list(range(n))
                rng.shuffle(V)
                if shape.endswith("sparse"):
                    V = c01._recode_sparse(rng, V)
            elif shape == "constant":
                V = [rng.randrange(40)] * n
            elif shape == "singleton-heavy":
                V = [i if rng.random() < 0.7 else 0 for i in range(n)]
            else:
                V = c01._zipf(rng, n, rng.randint(2, 12))
            kf = rng.choice(KINDS[1:])
            f = relabel(rng, V, kf)
            out.append(_mk(V, list(V), f, f, flag, "identical-" + shape, kf, kf))
            kg = rng.choice(KINDS[1:])
            out.append(_mk(V, list(V), f, relabel(rng, V, kg), flag, "identical-" + shape, kf, kg))
    return out


def _mk(Y, X, f, g, flag, fam, kf, kg):
    fY = [f[a] for a in Y]
    gX = [g[a] for a in X]
    assert len(set(f.values())) == len(f) and len(set(g.values())) == len(g)
    assert min(fY + gX) >= 0 and max(fY + gX) <= c01.MAXCODE
    return {"Y": Y, "X": X, "fY": fY, "gX": gX, "flag": bool(flag), "fam": fam, "f_kind": kf, "g_kind": kg}


def evaluate(pid, quads):
    """-> per quadruple dict(base=(ok, info, terms), rel=(ok, info, terms), inv_applicable, inv_ok, inv_diff)"""
    flat = []
    for q in quads:
        flat.append({"Y": q["Y"], "X": q["X"], "flag": q["flag"]})
        flat.append({"Y": q["fY"], "X": q["gX"], "flag": q["flag"]})
    res = c01.run_cases(pid, flat)
    out = []
    for k, q in enumerate(quads):
        b, r = res[2 * k], res[2 * k + 1]
        applicable = (not q["flag"]) or ((q["Y"] == q["X"]) == (q["fY"] == q["gX"]))
        inv_ok, inv_diff, model_inv = True, None, True
        if applicable:
            model_inv = abs(b[1]["model"] - r[1]["model"]) <= 1e-9 * (b[1]["sum_abs_terms"] + 1.0)
            if "impl" in b[1] and "impl" in r[1]:
                inv_diff = abs(b[1]["impl"] - r[1]["impl"])
                inv_ok = inv_diff <= b[1]["tolerance"] + r[1]["tolerance"]
        # self-pair rule on the model side (C02_selfpair_exact): effective flag = flag and not identical
        rule_ok = (b[2][3] == (q["flag"] and q["Y"] != q["X"])) and (r[2][3] == (q["flag"] and q["fY"] != q["gX"]))
        rule_ok = rule_ok and c01.py_terms(q["Y"], q["X"], q["flag"]) == b[2] and c01.py_terms(q["fY"], q["gX"], q["flag"]) == r[2]
        out.append(dict(base=b, rel=r, applicable=applicable, inv_ok=inv_ok, inv_diff=inv_diff, model_inv=model_inv,
                        rule_ok=rule_ok))
    return out


SCALE_QUADS = [  # (family, n, flag, f, g)
    ("ad_ad", 70000, True, ("reverse", 11), ("offset", 1000)),
    ("ad_ad", 70000, False, ("perm", 5), ("reverse", 0)),
    ("self_ad", 70000, True, ("perm", 7), ("perm", 7)),              # identical stays identical
    ("self_ad", 65537, False, ("offset", 900000), ("offset", 900000)),
    ("xsingles_4440", 40000, True, ("reverse", 3), ("perm", 9)),     # the singleton strata leave the low codes
    ("xsingles_1025", 65537, False, ("offset", 17), ("reverse", 500)),
    ("ycard", 70000, True, ("perm", 13), ("offset", 5)),
    ("sorted_lowcard", 200000, False, ("reverse", 40), ("perm", 3)),
    ("biggroup", 70000, True, ("perm", 21), ("reverse", 1)),
]


def scale_quads(run, quads_spec, replay_case=None):
    """relabel invariance on the SCALE families: (gen) and (gen + relabel) both against np_terms and against each other"""
    specs = []
    if replay_case is not None:
        pairs = [(replay_case["gen"], replay_case["gen_rel"], replay_case["flag"])]
    else:
        pairs = []
        for fam, n, flag, f, g in quads_spec:
            seed = run.rng.randrange(10 ** 6)
            f = (f[0], run.rng.randrange(10 ** 6)) if f[0] == "perm" else f
            g = (g[0], f[1]) if (g[0] == "perm" and fam.startswith("self")) else ((g[0], run.rng.randrange(10 ** 6)) if g[0] == "perm" else g)
            gen = {"fam": fam, "n": n, "seed": seed}
            pairs.append((gen, dict(gen, relabel={"f": list(f), "g": list(g)}), flag))
    for gen, gen_rel, flag in pairs:
        specs.append({"kind": "scale", "gen": gen, "flag": flag})
        specs.append({"kind": "scale", "gen": gen_rel, "flag": flag})
    impl, exp, st, _ = c01.run_scale_raw(specs)
    nbad, rows = 0, []
    for k, (gen, gen_rel, flag) in enumerate(pairs):
        b_ok, b = c01.compare_c(impl[2 * k], exp[2 * k])
        r_ok, r = c01.compare_c(impl[2 * k + 1], exp[2 * k + 1])
        applicable = (not flag) or (st[2 * k]["identical"] == st[2 * k + 1]["identical"])
        inv_ok = True
        if applicable and "impl" in b and "impl" in r:
            inv_ok = abs(b["impl"] - r["impl"]) <= b["tolerance"] + r["tolerance"]
        model_inv = (not applicable) or abs(b["model"] - r["model"]) <= 1e-9 * (b["sum_abs_terms"] + 1.0)
        run.count_case(["scale", gen_rel, flag], True)
        rows.append(dict(st[2 * k + 1], fam=gen["fam"], flag=flag, relabel=gen_rel["relabel"], ok=b_ok and r_ok and inv_ok))
        if not model_inv:
            run.violation("broken-obligation", "mirror-consistency(np_terms invariance)", found_input=False, extra=[gen_rel, b["model"], r["model"]])
        if b_ok and r_ok and inv_ok:
            continue
        nbad += 1
        if nbad == 1:
            run.violation("counterexample", "C02 relabel invariance on the SCALE families (vectors regenerated from family, n, seed)",
                          case={"kind": "scale", "gen": gen, "gen_rel": gen_rel, "flag": flag},
                          impl={"score(Y,X)": b.get("impl", b.get("impl_error")), "score(fY,gX)": r.get("impl", r.get("impl_error"))},
                          model={"score(Y,X)": b["model"], "score(fY,gX)": r["model"], "tolerances": [b["tolerance"], r["tolerance"]]},
                          clause=("score(Y, X, flag) = model value" if not b_ok else "score(f(Y), g(X), flag) = model value on the recoded pair"
                                  if not r_ok else "score(f(Y), g(X), flag) = score(Y, X, flag) for injective f, g")
                          + " [family %s, n = %d]" % (gen["fam"], gen["n"]))
    run.oblige("correspondence:SCALE quadruples (n = 40 000 .. 200 000), both scores = eval(np_terms) and invariant under recoding",
               nbad == 0, "%d of %d fail" % (nbad, len(pairs)) if nbad else "")
    run.cov["scale_families"] = rows


def failing(e):
    return not (e["base"][0] and e["rel"][0] and e["inv_ok"])


def check(run, replay):
    ok, log = vlib.build(c01.MODEL_TARGETS)
    run.oblige("build:model MI/Model.vo", ok, "" if ok else log[-1500:])
    if not ok:
        raise vlib.Broken("build:MI/Model.vo", log)
    vlib.standard_proof_phase(run, ["Props/C02.vo"], "Outrank.Props.C02", THEOREMS, allowed=vlib.STD_REAL_AXIOMS)

    if replay is not None and (replay.get("case") or {}).get("kind") == "direct-history":
        c01.direct_history_family(run, "C02", [replay["case"]], "score(Y, X, flag) = model value; recoding leaves it unchanged")
        return
    if replay is not None and (replay.get("case") or {}).get("kind") == "scale":
        scale_quads(run, [], replay_case=replay["case"])
        return
    if replay is not None:
        quads = [replay["case"]]
    else:
        quads = c01.load_corpus("C02")
        # the pair that exposed the sum-based self-pair test (D2), with the recoding X+10, both flags
        for fl in (True, False):
            quads.append(_mk(WITNESS["Y"], WITNESS["X"], {a: a for a in range(3)}, {a: a + 10 for a in range(3)}, fl,
                             "witness", "identity", "offset"))
        # the diagonal witness: one side of an identical pair recoded (invariance is NOT claimed; both scores must equal the model)
        for fl in (True, False):
            quads.append(_mk(DIAG["Y"], DIAG["Y"], {a: a for a in range(3)}, {a: a + 10 for a in range(3)}, fl,
                             "diag-witness", "identity", "offset"))
        quads += gen_quads(run.rng, run.tier, 150 if run.tier == "quick" else 900)
        # one n = 3000 quadruple with >= 1500 distinct values per side: holds py_terms / np_terms to Coq at the largest modelled size
        xc = c01.xcheck_cases(run.rng, True, 1)[0]
        quads.append(_mk(xc["Y"], xc["X"], relabel(run.rng, xc["Y"], "reverse"), relabel(run.rng, xc["X"], "perm"), True,
                         "xcheck-3000", "reverse", "perm"))
        if run.tier == "thorough":
            # exhaustive small scope: every pair of length <= 4 over 3 codes, both flags, order-reversing sparse f and offset g
            f = {a: 1000 - 7 * a for a in range(3)}
            g = {a: a + 10 for a in range(3)}
            for fl in (True, False):
                for c in c01.exhaustive_pairs(fl, maxlen=4):
                    quads.append(_mk(c["Y"], c["X"], {a: f[a] for a in set(c["Y"])}, {a: g[a] for a in set(c["X"])}, fl,
                                     "exhaustive", "reverse-affine", "offset"))
    ev = evaluate("C02", quads)

    hist = {"family": {}, "f_kind": {}, "g_kind": {}, "flag_true": 0, "identical_base": 0, "identical_after": 0,
            "equal_sum_not_identical": 0, "invariance_applicable": 0, "n_max": 0}
    nbad = 0
    worst = 0.0
    mirror_bad = None
    for q, e in zip(quads, ev):
        nontriv = (len(set(q["Y"])) >= 2 and len(set(q["X"])) >= 2 and (q["fY"] != q["Y"] or q["gX"] != q["X"]))
        run.count_case([q["Y"], q["X"], q["fY"], q["gX"], q["flag"]], nontriv)
        for k, key in (("family", "fam"), ("f_kind", "f_kind"), ("g_kind", "g_kind")):
            hist[k][q.get(key, "?")] = hist[k].get(q.get(key, "?"), 0) + 1
        hist["flag_true"] += q["flag"]
        hist["identical_base"] += q["Y"] == q["X"]
        hist["identical_after"] += q["fY"] == q["gX"]
        hist["equal_sum_not_identical"] += (q["Y"] != q["X"] and sum(q["Y"]) == sum(q["X"]))
        hist["invariance_applicable"] += e["applicable"]
        hist["n_max"] = max(hist["n_max"], len(q["Y"]))
        if not (e["model_inv"] and e["rule_ok"]) and mirror_bad is None:
            mirror_bad = {"case": [q["Y"][:50], q["X"][:50], q["flag"]], "model_inv": e["model_inv"], "rule_ok": e["rule_ok"]}
        for part in ("base", "rel"):
            worst = max(worst, e[part][1].get("ratio", 0.0) if e[part][0] else 0.0)
        if not failing(e):
            continue
        nbad += 1
        if nbad <= 3:
            small, es = q, e
            if nbad == 1 and len(q["Y"]) > 4:
                small = c01.shrink("C02", q, lambda cs: [failing(x) for x in evaluate("C02", cs)], keys=("Y", "X", "fY", "gX"))
                es = evaluate("C02", [small])[0]
                if not failing(es):
                    small, es = q, e
            if not es["base"][0]:
                clause = "score(Y, X, flag) = model value (plain / corrected score; self-pair shortcut only for identical vectors)"
            elif not es["rel"][0]:
                clause = "score(f(Y), g(X), flag) = model value on the recoded pair"
            else:
                clause = "score(f(Y), g(X), flag) = score(Y, X, flag) for injective f, g"
            run.violation("counterexample", "C02 relabel invariance / self-pair rule on the real code",
                          case=small,
                          impl={"score(Y,X)": es["base"][1].get("impl", es["base"][1].get("impl_error")),
                                "score(fY,gX)": es["rel"][1].get("impl", es["rel"][1].get("impl_error"))},
                          model={"score(Y,X)": es["base"][1]["model"], "score(fY,gX)": es["rel"][1]["model"],
                                 "tolerances": [es["base"][1]["tolerance"], es["rel"][1]["tolerance"]],
                                 "effective_flag": [es["base"][2][3], es["rel"][2][3]]},
                          clause=clause)
    run.oblige("mirror:model values invariant under recoding and effective flag = flag && not identical (as the theorems say)",
               mirror_bad is None, json.dumps(mirror_bad)[:400] if mirror_bad else "")
    if mirror_bad:
        run.violation("broken-obligation", "mirror-consistency", found_input=False, extra=mirror_bad)
    run.oblige("correspondence:impl(Y,X) and impl(fY,gX) = model within tolerance; impl invariant where C02_entry_relabel_offdiag applies",
               nbad == 0, "%d of %d quadruples fail" % (nbad, len(quads)) if nbad else
               "worst |impl-model| = %.2f * 2^-24 * (sum|terms|+1e-6), allowed %.0f" % (worst, c01.TOL_FACTOR))
    if replay is None:
        sc, stt = [], []
        for q, e in zip(quads, ev):
            if len(q["Y"]) <= 400 and len(sc) < 150 or q.get("fam") == "xcheck-3000":
                sc.append({"Y": q["Y"], "X": q["X"], "flag": q["flag"]})
                stt.append(e["base"][2])
        small_ct = vlib.run_impl("impl_c01_gen.py", {"scale": [], "small": sc})["small"]
        c01.np_terms_crosscheck(run, sc, stt, small_ct)
        # recodings applied IN PLACE to the same buffers between direct calls: (Y, X), (fY, gX), (Y, X) again, both flags
        hs = []
        for fl in (False, True):
            n = run.rng.randint(12, 120)
            Y, X = c01.gen_pair(run.rng, run.rng.choice(["uniform", "noisy", "func", "zipf"]), n)
            f, g = relabel(run.rng, Y, run.rng.choice(KINDS[1:])), relabel(run.rng, X, run.rng.choice(KINDS[1:]))
            fY, gX = [f[a] for a in Y], [g[a] for a in X]
            Z = [0] * n                                   # a refill with different contents between the recoded calls
            P = list(range(n))
            run.rng.shuffle(P)
            steps = [{"Y": Y, "X": X}, {"Y": fY, "X": gX}, {"Y": Z, "X": gX}, {"Y": Y, "X": X}, {"Y": fY, "X": X},
                     {"Y": P, "X": gX}, {"Y": Y, "X": None, "self": True}, {"Y": fY, "X": None, "self": True}]
            hs.append({"kind": "direct-history", "flag": fl, "reuse_y": True, "reuse_x": True, "steps": steps})
        for h in hs:
            for st in h["steps"]:
                if st.get("self"):
                    st["X"] = list(st["Y"])
        c01.direct_history_family(run, "C02", hs, "score(Y, X, flag) = model value; recoding leaves it unchanged")
        scale_quads(run, SCALE_QUADS)
    run.cov["input_distribution"] = {k: (int(v) if isinstance(v, bool) else v) for k, v in hist.items()}
    run.cov["exhaustive"] = False
    if run.tier == "thorough" and replay is None:
        run.cov["exhaustive_small_scope"] = ("all pairs of length <= 4 over 3 codes x both flags (14760 quadruples) with "
                                             "f = 1000 - 7c, g = c + 10 included")
    run.samples = [{k: (v[:30] if isinstance(v, list) else v) for k, v in q.items()} for q in quads[:3]]
    run.assumptions += [
        "recodings keep codes in [0, 2^20) (quantifier of the property); the theorems hold for any injective maps on Z",
        "DOCUMENTED DEVIATION from the literal first sentence: with the flag on, invariance of the ENTRY POINT holds (and is tested) "
        "exactly off the diagonal, i.e. when recoding does not change whether the two vectors are identical (hypothesis of "
        "C02_entry_relabel_offdiag; necessity shown by C02_diag_relabel_refuted: Y = X = [0,1,0,1,2,2] scores ln 3, Y vs X+10 "
        "scores ln 2); both scores are still compared with the model",
        "'up to rounding' = tolerance 8*2^-24*(sum|terms|+1e-6) per score (see C01)",
    ]
    run.trusted += [
        "harness: tools/props/c02.py (recodings, invariance comparison), tools/props/c01.py (eval_float mirror, tolerance), "
        "tools/impl/impl_c01.py",
        "coqparse.py (reads the terms coqc prints)",
        "category coding by pandas (core_ranking.py astype('category').cat.codes) is outside this check: any coding is an "
        "injective map, which is what the theorem quantifies over",
    ]
