"""C15 — frequency sketches err on one side only."""
from __future__ import annotations

import array
import base64
import json
import os

import vlib

LEVEL = "proof"
RULE = ("count-min: streams of add(x, delta) / batch_add(list, delta) over int and str items (delta >= 0, totals < 2^31) "
        "against CountMinSketch(depth 1..8, width 1..2^15, numpy seed per case); the hash oracle loc is tabulated from the "
        "real cms_hash; after every prefix the full matrix (non-zero cells of the implementation + every cell an item hashes "
        "to; all other model cells are 0 by C15_support), the row sums and query(x) for every item of the case (also "
        "never-inserted ones) are compared with the Coq model; non-trivial = some two items collide in some row or a weight "
        "differs from 1.  counter: streams of add(v) (30% of cases also batch_add) against PrimitiveConstrainedCounter(bound), "
        "default_counter after every prefix compared; non-trivial = the number of distinct values reaches the bound.  "
        "SCALE: batch_add calls of 4096..60000 items over 60..6000 distinct int/str items (width 64..2^15, depth 1..8) mixed with "
        "single adds, full matrix / row sums / query of every item after every call; counter streams of 10^4..10^5 items with "
        "bound-1 / bound / bound+1 distinct values; compute_cardinalities on a ~300k-distinct column in 3 mini-batches with the "
        "bound just above / below the true cardinality; judged by the Python transcriptions of the models, which are compared "
        "with the Coq models on every small case of the same run")
THEOREMS = ["C15_lower", "C15_upper", "C15_defined", "C15_query_is_min", "C15_rows", "C15_cell", "C15_support", "C15_shape",
            "C15_check_sound", "C15_model_ok", "C15_obs_rows_agree", "C15_b_no_over", "C15_b_exact", "C15_b_exact_boundary", "C15_b_size",
            "C15_b_frozen", "C15_b_no_over_ops", "C15_b_exact_ops", "C15_b_batch_size_refuted",
            "C15_b_exact_at_bound_refuted", "C15_b_check_sound", "C15_b_model_ok"]
HEADER = ("From Coq Require Import List NArith ZArith.\nFrom Outrank Require Import Sketch.CMS Sketch.Bounded.\n"
          "Import ListNotations.\nOpen Scope N_scope.")
WIDTHS = [1, 1, 2, 2, 3, 4, 5, 7, 8, 16, 31, 64, 256, 1000, 4096, 32768]
STRS = ["", "a", "b", "ab", "ba", "é", "key", "key1", "0", "1", "-1", "x y", "日本", "aaaaaaaaaaaaaaaaaaaaaaaa"]


# ---------------------------------------------------------------------------
# generators

LONG_N = [4096, 4097, 5000, 65536, 70000]
LONG_TAILS = ["", "A", "B", "AB", "|7"]


def expand(cell):
    """["l", ch, n, tail] stands for the long str ch * n + tail."""
    return cell[1] * cell[2] + cell[3] if isinstance(cell, list) else cell


def desc(v):
    if isinstance(v, str) and len(v) > 200:
        return "\x00long:%d:%s:%s" % (len(v), v[:8], v[-8:])
    return v


def gen_items(rng, n, long_p=0.0):
    out, seen = [], set()
    while len(out) < n:
        c = rng.random()
        if rng.random() < long_p:
            # long keys (4096 .. 70000 characters) sharing long prefixes
            v = ["l", "x", rng.choice(LONG_N), rng.choice(LONG_TAILS)]
        elif c < 0.35:
            v = ["i", rng.randint(-5, 40)]
        elif c < 0.5:
            v = ["i", rng.choice([2 ** 31 - 1, 2 ** 31, 2 ** 32, 2 ** 32 + 1, -2 ** 31, 2 ** 62, -2 ** 62, 10 ** 9 + 7]) + rng.randint(0, 3)]
        elif c < 0.8:
            v = ["s", rng.choice(STRS)]
        else:
            v = ["s", "".join(rng.choice("abcXYZ019_-é") for _ in range(rng.randint(1, 10)))]
        k = tuple(v)
        if k not in seen:
            seen.add(k)
            out.append(v)
    return out


def gen_delta(rng):
    c = rng.random()
    if c < 0.35:
        return 1
    if c < 0.45:
        return 0
    if c < 0.8:
        return rng.randint(2, 12)
    return rng.choice([100, 1000, 65535, 65536, 10 ** 6, rng.randint(1, 10 ** 6)])


def gen_cms(rng):
    depth = rng.randint(1, 8)
    width = rng.choice(WIDTHS)
    nit = rng.randint(1, 10)
    items = gen_items(rng, nit, long_p=rng.choice([0.0, 0.0, 0.0, 0.3]))
    nops = rng.randint(1, 14 if width >= 4096 else 40)
    ops = []
    live = rng.randint(1, nit)          # items beyond `live` are queried but never inserted
    for _ in range(nops):
        if rng.random() < 0.75:
            ops.append(["add", rng.randrange(live), gen_delta(rng)])
        else:
            ops.append(["batch", [rng.randrange(live) for _ in range(rng.randint(0, 6))], gen_delta(rng)])
    case = {"kind": "cms", "depth": depth, "width": width, "seed": rng.randint(0, 2 ** 31 - 1), "items": items, "ops": ops}
    if width <= 64 and rng.random() < 0.25:
        # pre-filled matrix handed to the constructor: rows no longer agree, so min over rows is exercised
        case["M0"] = [[rng.choice([0, 0, 1, 2, 5, rng.randint(0, 50)]) for _ in range(width)] for _ in range(depth)]
    return case


def gen_counter(rng):
    nit = rng.randint(1, 10)
    items = gen_items(rng, nit, long_p=rng.choice([0.0, 0.0, 0.4]))
    bound = rng.choice([-1, 0, 1, 1, 2, 2, 3, 4, 5, nit - 1, nit, nit, nit + 1, 30000])
    nops = rng.randint(1, 60)
    batches = rng.random() < 0.3
    ops = []
    for _ in range(nops):
        if batches and rng.random() < 0.3:
            ops.append(["batch", [rng.randrange(nit) for _ in range(rng.randint(0, 6))]])
        else:
            ops.append(["add", rng.randrange(nit) if rng.random() < 0.8 else rng.randrange(max(1, nit // 2))])
    return {"kind": "counter", "bound": bound, "items": items, "ops": ops}


def gen_pipeline(rng):
    cols = rng.sample(["a", "b", "n", "id", "feature_x"], rng.randint(1, 3))
    kinds = {c: rng.choice(["s", "s", "i"]) for c in cols}
    pools = {c: ([rng.choice(STRS[1:]) + str(rng.randint(0, 6)) for _ in range(rng.randint(1, 8))] if kinds[c] == "s"
                 else [rng.randint(-3, 12) for _ in range(rng.randint(1, 8))]) for c in cols}
    high = {c: rng.random() < 0.3 for c in cols}
    fresh = [0]
    for c in cols:
        if kinds[c] == "s" and rng.random() < 0.3:       # some long cells sharing long prefixes
            pools[c] += [["l", "x", rng.choice(LONG_N), rng.choice(LONG_TAILS)] for _ in range(rng.randint(2, 4))]

    def cell(c):
        if high[c] and rng.random() < 0.7:
            fresh[0] += 1
            return ("u%d" % fresh[0]) if kinds[c] == "s" else 1000 + fresh[0]
        return rng.choice(pools[c])
    batches = []
    for _ in range(rng.randint(1, 5)):
        rows = rng.randint(1, 12)
        batches.append({c: [cell(c) for _ in range(rows)] for c in cols})
    return {"kind": "pipeline", "bound": rng.choice([1, 2, 3, 4, 5, 5, 8, 10, 30000]), "batches": batches}


def pipe_streams(case):
    """Per column: (value ids in feeding order, batch end positions, id -> value)."""
    out = {}
    for col in case["batches"][0]:
        ids, ends, names = [], [], {}
        for b in case["batches"]:
            for v in b[col]:
                v = desc(expand(v))
                k = ("s" if isinstance(v, str) else "i", v)
                if k not in names:
                    names[k] = len(names)
                ids.append(names[k])
            ends.append(len(ids))
        out[col] = (ids, ends, names)
    return out


def pipe_compare(case, r, models):
    """models: {col: [counter after every item]}.  First disagreement (batch, col, text) or None."""
    if not r["ok"]:
        return (len(r["obs"]), None, "implementation raised %s" % r["error"])
    st = pipe_streams(case)
    for b, ob in enumerate(r["obs"]):
        for col, (ids, ends, names) in st.items():
            mo = dict(models[col][ends[b] - 1]) if ends[b] > 0 else {}
            im = {}
            for k, v in ob.get(col, []):
                im[names.get(("s" if isinstance(k, str) else "i", k), -1)] = v
            if im != mo or len(im) != len(ob.get(col, [])):
                return (b, col, "GLOBAL_COUNTS_STORAGE[%r].default_counter after batch %d: implementation %s, model (fed item by item, bound %d) %s"
                        % (col, b, sorted(ob.get(col, []), key=repr), case["bound"], sorted(mo.items())))
    return None


def pipe_prop_fail(case, r):
    """Python rendering of the counter clauses on the pipeline's counters (steers reporting/shrinking only)."""
    if not r["ok"]:
        return False
    st = pipe_streams(case)
    for b, ob in enumerate(r["obs"]):
        for col, (ids, ends, names) in st.items():
            inv = {v: k for k, v in names.items()}
            seen = [inv[i][1] for i in ids[:ends[b]]]
            cnt = {k: v for k, v in ob.get(col, [])}
            if len(cnt) > max(case["bound"], 0) or any(v > seen.count(k) for k, v in cnt.items()):
                return True
            if len(set(seen)) < case["bound"] and any(cnt.get(k, 0) != seen.count(k) for k in set(seen)):
                return True
    return False


def pipe_mirror_models(case):
    out = {}
    for col, (ids, ends, names) in pipe_streams(case).items():
        out[col] = [sorted(c.items()) for c in counter_mirror({"bound": case["bound"], "ops": [["add", i] for i in ids]})]
    return out


def pipe_shrink(case, prop_level=False):
    cur = case
    for _ in range(6):
        cands = []
        nb = len(cur["batches"])
        for b in range(nb):
            if nb > 1:
                cands.append(dict(cur, batches=cur["batches"][:b] + cur["batches"][b + 1:]))
            rows = len(next(iter(cur["batches"][b].values())))
            for i in range(rows):
                if rows > 1:
                    nbatch = {c: v[:i] + v[i + 1:] for c, v in cur["batches"][b].items()}
                    cands.append(dict(cur, batches=cur["batches"][:b] + [nbatch] + cur["batches"][b + 1:]))
        cols = list(cur["batches"][0])
        for c in cols:
            if len(cols) > 1:
                cands.append(dict(cur, batches=[{k: v for k, v in bt.items() if k != c} for bt in cur["batches"]]))
        cands = cands[:300]
        if not cands:
            break
        try:
            rs = vlib.run_impl("impl_c15.py", {"cases": cands})["results"]
        except vlib.Broken:
            break
        hit = [c for c, r in zip(cands, rs) if r["ok"] and
               (pipe_prop_fail(c, r) if prop_level else pipe_compare(c, r, pipe_mirror_models(c)) is not None)]
        if not hit:
            break
        cur = min(hit, key=lambda c: sum(len(v) for bt in c["batches"] for v in bt.values()))
    return cur


def pipe_coq(case):
    st = pipe_streams(case)
    cols = list(st)
    exprs = ["ctrace %s%%Z [] [%s]" % (vlib.zlit(case["bound"]), "; ".join("CAdd %d" % i for i in st[c][0])) for c in cols]
    return cols, exprs


def load_corpus(pid):
    d = os.path.join(vlib.VERIF, "corpus", pid)
    out = []
    if os.path.isdir(d):
        for f in sorted(os.listdir(d)):
            if f.endswith(".json"):
                out.append(json.load(open(os.path.join(d, f))))
    return out


# ---------------------------------------------------------------------------
# Python mirrors (used only to shrink; held to the Coq model on every case)

def cms_apply(M, loc, xs, delta):
    """Transcription of CMS.add / CMS.step: every element of a batch is an add with the same delta; one cell per row."""
    d = len(M)
    for x in xs:
        for i in range(d):
            M[i][loc[i][x]] += delta


def cms_query(M, loc, x):
    """Transcription of CMS.query: minimum over the rows of the cell at the update-side location."""
    return min(M[i][loc[i][x]] for i in range(len(M)))


def counter_apply(c, bound, xs):
    """Transcription of Bounded.cadd / cbatch: the size test is made once, before the whole op."""
    if len(c) < bound:
        for x in xs:
            c[x] = c.get(x, 0) + 1


def cms_mirror(case, loc):
    d, w = case["depth"], case["width"]
    M = [list(r) for r in case["M0"]] if case.get("M0") is not None else [[0] * w for _ in range(d)]
    out = []
    for op in case["ops"]:
        cms_apply(M, loc, [op[1]] if op[0] == "add" else op[1], op[2])
        out.append({"q": [cms_query(M, loc, x) for x in range(len(case["items"]))],
                    "cells": {(i, j): M[i][j] for i in range(d) for j in (range(w) if case.get("M0") is not None else set(loc[i]))},
                    "rows": [sum(r) for r in M]})
    return out


def counter_mirror(case):
    c = {}
    out = []
    for op in case["ops"]:
        counter_apply(c, case["bound"], [op[1]] if op[0] == "add" else op[1])
        out.append(dict(c))
    return out


# ---------------------------------------------------------------------------
# SCALE families: large generated inputs, judged here by the transcriptions above (cms_apply / cms_query /
# counter_apply -- the same functions that are compared with the Coq models on every small case of the run)

def unb64(s, code):
    a = array.array(code)
    a.frombytes(base64.b64decode(s))
    return a


def gen_scale(rng, tier):
    specs = []
    sizes = [4096, 5000, 60000] if tier == "quick" else [4096, 4097, 5000, 20000, 60000, 60000]
    for n in sizes:
        width = rng.choice([64, 1000, 4096, 32768]) if n < 60000 else 32768
        nd = rng.choice([60, 300, 1000]) if n < 60000 else 6000
        calls = [["adds", rng.randint(50, 400), rng.choice([1, 2, 5]), rng.randint(0, 10 ** 9), False],
                 ["batch", n, rng.choice([1, 1, 3]), rng.randint(0, 10 ** 9), rng.random() < 0.5],
                 ["batch", rng.choice([10, 4095]), 1, rng.randint(0, 10 ** 9), False],
                 ["adds", rng.randint(50, 400), 1, rng.randint(0, 10 ** 9), True]]
        if rng.random() < 0.5:
            calls.append(["batch", rng.choice([4096, 8000]), rng.choice([1, 2]), rng.randint(0, 10 ** 9), True])
        specs.append({"kind": "scale_cms", "depth": rng.randint(1, 8), "width": width, "seed": rng.randint(0, 2 ** 31 - 1),
                      "n_distinct": nd, "mix": rng.choice(["mixed", "mixed", "int", "str"]), "calls": calls})
    for k, off in enumerate([-1, 0, 1] if tier == "quick" else [-1, 0, 1, -1, 0, 1, 5]):
        bound = rng.choice([50, 1000, 30000])
        specs.append({"kind": "scale_counter", "bound": bound, "n_distinct": bound + off,
                      "n_items": min(10 ** 5, max(rng.choice([10 ** 4, 3 * 10 ** 4, 10 ** 5]), 3 * bound)), "seed": rng.randint(0, 10 ** 9),
                      "mix": rng.choice(["mixed", "int", "str"]), "batch": (tier != "quick" and k >= 3), "skew": rng.random() < 0.3,
                      "long": rng.choice([0, 6, 12])})
    modes = ["above", "below"] if tier == "quick" else ["above", "above", "below", "far"]
    for md in modes:
        specs.append({"kind": "scale_pipeline", "seed": rng.randint(0, 10 ** 6), "lo": 290000, "hi": 310000, "mode": md, "tail": 2000})
    return specs


def judge_scale_cms(spec, r):
    """Returns (None | (call index, clause text), statistics)."""
    if not r["ok"]:
        return (len(r["calls"]), "batch_add()/add()/query() terminates normally: %s" % r["error"]), {}
    d, w, nd = spec["depth"], spec["width"], spec["n_distinct"]
    flat = unb64(r["loc"], "i")
    loc = [list(flat[i * nd:(i + 1) * nd]) for i in range(d)]
    M = [[0] * w for _ in range(d)]
    tw = [0] * nd
    total = 0
    coll = max(nd - len(set(loc[0])), 0) if d else 0
    for k, (call, ob) in enumerate(zip(spec["calls"], r["calls"])):
        ids = unb64(ob["ids"], "I")
        if len(ids) != call[1]:
            raise vlib.Broken("harness:c15-scale", "id sequence length")
        cms_apply(M, loc, ids, call[2])
        for x in ids:
            tw[x] += call[2]
        total += call[2] * len(ids)
        if ob["shape"] != [d, w]:
            return (k, "matrix shape %s is not depth x width" % ob["shape"]), {}
        im = unb64(ob["M"], "q")
        iq = unb64(ob["queries"], "q")
        what = "%s of %d items (%d distinct available, delta %d)" % ("one batch_add" if call[0] == "batch" else "single adds", call[1], nd, call[2])
        for i in range(d):
            rs = sum(im[i * w:(i + 1) * w])
            if rs != total:
                return (k, "after call %d (%s): row %d sums to %d, total weight added is %d (C15_rows)" % (k, what, i, rs, total)), {}
        for x in range(nd):
            if iq[x] < tw[x]:
                return (k, "after call %d (%s): query(item #%d) = %d is below its true accumulated weight %d (C15_lower)" % (k, what, x, iq[x], tw[x])), {}
            if iq[x] > total:
                return (k, "after call %d (%s): query(item #%d) = %d exceeds the total weight %d (C15_upper)" % (k, what, x, iq[x], total)), {}
        for i in range(d):
            if list(im[i * w:(i + 1) * w]) != M[i]:
                j = next(j for j in range(w) if im[i * w + j] != M[i][j])
                return (k, "after call %d (%s): matrix cell (%d, %d) is %d, model %d (C15_cell)" % (k, what, i, j, im[i * w + j], M[i][j])), {}
        for x in range(nd):
            if iq[x] != cms_query(M, loc, x):
                return (k, "after call %d (%s): query(item #%d) = %d, model %d (C15_query_is_min)" % (k, what, x, iq[x], cms_query(M, loc, x))), {}
    return None, {"items": total, "distinct": nd, "width": w, "depth": d, "colliding_items_row0": coll,
                  "largest_batch": max(c[1] for c in spec["calls"] if c[0] == "batch")}


def judge_counter_obs(bound, ids_upto, nd, ob, c, single, where):
    counts = unb64(ob["counts"], "q")
    if ob["unknown_keys"]:
        return "%s: the counter tracks %d keys that were never fed" % (where, ob["unknown_keys"])
    seen = {}
    for x in ids_upto:
        seen[x] = seen.get(x, 0) + 1
    nkeys = sum(1 for v in counts if v != 0)
    if nkeys != ob["len"]:
        return "%s: default_counter holds %d keys of which %d have a non-zero count" % (where, ob["len"], nkeys)
    for x in range(nd):
        if counts[x] > seen.get(x, 0):
            return "%s: item #%d counted %d times, fed %d times (C15_b_no_over)" % (where, x, counts[x], seen.get(x, 0))
    if len(seen) < bound:
        for x, n in seen.items():
            if counts[x] != n:
                return ("%s: %d distinct values seen (< bound %d) but item #%d is counted %d times instead of %d (C15_b_exact)"
                        % (where, len(seen), bound, x, counts[x], n))
    if single and ob["len"] > max(bound, 0):
        return "%s: %d distinct values tracked with bound %d (C15_b_size)" % (where, ob["len"], bound)
    for x in range(nd):
        if counts[x] != c.get(x, 0):
            return ("%s: item #%d counted %d times, model (fed item by item, updates refused once bound=%d keys are tracked) %d"
                    % (where, x, counts[x], bound, c.get(x, 0)))
    return None


def judge_scale_counter(spec, r):
    if not r["ok"]:
        return (0, "add()/batch_add() terminates normally: %s" % r["error"]), {}
    ids = unb64(r["ids"], "I")
    chunks = {a: b for a, b in r["chunks"]}
    c, k = {}, 0
    obs = {o["at"]: o for o in r["obs"]}
    single = True
    reached = False
    while k < len(ids):
        if k in chunks:
            counter_apply(c, spec["bound"], ids[k:chunks[k]])
            k = chunks[k]
            single = False
        else:
            counter_apply(c, spec["bound"], [ids[k]])
            k += 1
        reached = reached or len(c) >= spec["bound"]
        if k in obs:
            msg = judge_counter_obs(spec["bound"], ids[:k], spec["n_distinct"], obs[k], c, single, "after %d items" % k)
            if msg:
                return (k, msg), {}
    return None, {"items": len(ids), "distinct_fed": len(set(ids)), "bound": spec["bound"], "bound_reached": reached,
                  "with_batch_add": not single}


def judge_scale_pipeline(spec, r):
    if not r["ok"]:
        return (0, "compute_cardinalities terminates normally: %s" % r["error"]), {}
    ids = unb64(r["ids"], "I")
    c = {}
    s = 0
    for b, (e, ob) in enumerate(zip(r["ends"], r["obs"])):
        for x in ids[s:e]:
            counter_apply(c, r["bound"], [x])           # the pipeline feeds the counter item by item
        msg = judge_counter_obs(r["bound"], ids[:e], r["n"], ob, c, True,
                                "column 'id' after mini-batch %d (%d distinct values so far, max_unique_hist_constraint %d, "
                                "sketch estimate %d)" % (b, len(set(ids[:e])), r["bound"], ob["sketch_len"]))
        if msg:
            return (b, msg), {}
        small = {}
        for x in ids[:e]:
            counter_apply(small, r["bound"], [x % 7])
        if sorted(small.items()) != [tuple(kv) for kv in r["small"][b]]:
            return (b, "column 'k' after mini-batch %d: counter %s, model %s" % (b, r["small"][b], sorted(small.items()))), {}
        s = e
    return None, {"distinct": r["n"], "bound": r["bound"], "mode": spec["mode"], "rows": len(ids),
                  "sketch_estimate_after_batch1": r["sketch_estimate_after_batch1"], "sketch_overshoot": r["overshoot"]}


JUDGE = {"scale_cms": judge_scale_cms, "scale_counter": judge_scale_counter, "scale_pipeline": judge_scale_pipeline}


def check_scale(run, specs):
    res = vlib.run_impl("impl_c15_scale.py", {"cases": specs}, timeout=3000)["results"]
    stats = {"scale_cms": [], "scale_counter": [], "scale_pipeline": []}
    bad = 0
    for spec, r in zip(specs, res):
        viol, st = JUDGE[spec["kind"]](spec, r)
        nontrivial = bool(st) and (st.get("colliding_items_row0", 0) > 0 or st.get("bound_reached") or st.get("sketch_overshoot", 0) > 0)
        run.count_case(spec, nontrivial)
        if viol is None:
            stats[spec["kind"]].append(st)
            continue
        bad += 1
        if bad <= 3:
            run.violation("counterexample", "C15 scale family (%s) vs the transcription of the Coq model" % spec["kind"], case=spec,
                          impl={k: r.get(k) for k in ("error", "n", "bound", "sketch_estimate_after_batch1", "overshoot") if k in r},
                          model="tools/props/c15.py cms_apply/cms_query/counter_apply (held to Sketch/CMS.v, Sketch/Bounded.v on every small case of this run)",
                          clause=viol[1])
    run.oblige("correspondence: SCALE families (%d generated inputs: large batch_add calls, long counter streams around the bound, "
               "~300k-distinct pipeline column) vs the transcriptions of the models" % len(specs), bad == 0, "%d disagree" % bad)
    return stats


# ---------------------------------------------------------------------------
# Coq terms

def cms_ops(case):
    ops = []
    for op in case["ops"]:
        if op[0] == "add":
            ops.append("Add %d %s%%Z" % (op[1], vlib.zlit(op[2])))
        else:
            ops.append("Batch %s %s%%Z" % (vlib.nlist(op[1]), vlib.zlit(op[2])))
    return "[" + "; ".join(ops) + "]"


def cms_probe_cells(case, r):
    cells = set()
    if case.get("M0") is not None:
        cells.update((i, j) for i in range(case["depth"]) for j in range(case["width"]))
    for i, row in enumerate(r["loc"]):
        for j in row:
            cells.add((i, j))
    for o in r["obs"]:
        for i, j, _ in o["cells"]:
            cells.add((i, j))
    return sorted(cells)


def cms_expr(case, r, cells):
    table = "[" + "; ".join(vlib.nlist(row) for row in r["loc"]) + "]"
    args = (case["depth"], case["width"], table, vlib.nlist(range(len(case["items"]))),
            "[" + "; ".join("(%d, %d)" % c for c in cells) + "]")
    if case.get("M0") is not None:
        return ("obs_from (N.to_nat %d) (N.to_nat %d) (fun i x => nth (N.to_nat x) (nth i %s []) 0) %s %s " % args +
                "%s%%Z %s" % (vlib.zlistlist(case["M0"]), cms_ops(case)))
    return "obs (N.to_nat %d) (N.to_nat %d) (fun i x => nth (N.to_nat x) (nth i %s []) 0) %s %s " % args + cms_ops(case)


def cms_verdict_expr(case, r):
    o = "[" + "; ".join("(%s%%Z, %s%%Z)" % (vlib.zlist([-1 if q is None else q for q in ob["queries"]]), vlib.zlist(ob["rowsums"]))
                        for ob in r["obs"]) + "]"
    n = len(r["obs"])
    c2 = dict(case, ops=case["ops"][:n])
    return "verdicts (N.to_nat %d) %s [] %s %s" % (case["depth"], vlib.nlist(range(len(case["items"]))), cms_ops(c2), o)


def counter_ops(case):
    return "[" + "; ".join(("CAdd %d" % op[1]) if op[0] == "add" else ("CBatch %s" % vlib.nlist(op[1])) for op in case["ops"]) + "]"


def counter_expr(case):
    return "ctrace %s%%Z [] %s" % (vlib.zlit(case["bound"]), counter_ops(case))


def counter_verdict_expr(case, r):
    o = "[" + "; ".join("[" + "; ".join("(%d, %s%%Z)" % (k, vlib.zlit(v)) for k, v in c) + "]" for c in r["obs"]) + "]"
    c2 = dict(case, ops=case["ops"][:len(r["obs"])])
    return "ccheckb %s%%Z %s true [] %s %s" % (vlib.zlit(case["bound"]), vlib.nlist(range(len(case["items"]))), counter_ops(c2), o)


# ---------------------------------------------------------------------------
# comparison

def cms_compare(case, r, model, cells):
    """model: per prefix (queries, cell values at `cells`, rowsums, shape_ok).  First disagreement or None."""
    if not r["ok"]:
        return (len(r["obs"]), "implementation raised %s" % r["error"])
    for k, (ob, mo) in enumerate(zip(r["obs"], model)):
        qs, cs, rs, shp = mo
        if ob["shape"] != [case["depth"], case["width"]] or not shp:
            return (k, "matrix shape %s is not depth x width" % ob["shape"])
        ic = {(i, j): v for i, j, v in ob["cells"]}
        for (i, j), mv in zip(cells, cs):
            if ic.get((i, j), 0) != mv:
                return (k, "matrix cell (%d, %d) after op %d: implementation %d, model %d" % (i, j, k, ic.get((i, j), 0), mv))
        if ob["rowsums"] != list(rs):
            return (k, "row sums after op %d: implementation %s, model %s" % (k, ob["rowsums"], list(rs)))
        if ob["queries"] != list(qs):
            x = next(n for n in range(len(qs)) if ob["queries"][n] != qs[n])
            return (k, "query(%r) after op %d: implementation %s, model (row-wise minimum at the update-side locations) %s"
                    % (case["items"][x][1], k, ob["queries"][x], qs[x]))
    return None


def counter_compare(case, r, model):
    if not r["ok"]:
        return (len(r["obs"]), "implementation raised %s" % r["error"])
    for k, (ob, mo) in enumerate(zip(r["obs"], model)):
        a = {kk: v for kk, v in ob}
        b = {kk: v for kk, v in mo}
        if a != b or len(a) != len(ob):
            return (k, "default_counter after op %d: implementation %s, model %s" % (k, sorted(a.items()), sorted(b.items())))
    return None


def mirror_fails(case, r):
    if not r["ok"]:
        return True
    if case["kind"] == "cms":
        mo = cms_mirror(case, r["loc"])
        for ob, m in zip(r["obs"], mo):
            ic = {(i, j): v for i, j, v in ob["cells"]}
            if ob["queries"] != m["q"] or ob["rowsums"] != m["rows"]:
                return True
            if any(ic.get(c, 0) != v for c, v in m["cells"].items()) or any(c not in m["cells"] for c in ic):
                return True
        return False
    mo = counter_mirror(case)
    return any({k: v for k, v in ob} != m for ob, m in zip(r["obs"], mo))


def shrink(case):
    cur = case
    for _ in range(8):
        n = len(cur["ops"])
        if n <= 1:
            break
        cands = []
        size = max(1, n // 2)
        while size >= 1:
            for s in range(0, n, size):
                ops = cur["ops"][:s] + cur["ops"][s + size:]
                if ops:
                    cands.append(dict(cur, ops=ops))
            size //= 2
        if cur["kind"] == "cms" and cur.get("M0") is None:
            for w in (1, 2, 3, 5, 16):
                if w < cur["width"]:
                    cands.append(dict(cur, width=w))
            if cur["depth"] > 1:
                cands.append(dict(cur, depth=1))
                cands.append(dict(cur, depth=cur["depth"] - 1))
            for k, op in enumerate(cur["ops"]):
                if op[0] == "batch" and len(op[1]) > 1:
                    cands.append(dict(cur, ops=cur["ops"][:k] + [["batch", op[1][:-1], op[2]]] + cur["ops"][k + 1:]))
        cands = cands[:500]
        try:
            rs = vlib.run_impl("impl_c15.py", {"cases": cands})["results"]
        except vlib.Broken:
            break
        hit = [c for c, r in zip(cands, rs) if mirror_fails(c, r)]
        if not hit:
            break
        cur = min(hit, key=lambda c: (len(c["ops"]), c.get("width", 0) * c.get("depth", 0)))
    return cur


def cms_clause(case, r, verdict, d):
    if not r["ok"]:
        return "add()/query() terminates normally: %s" % r["error"]
    if verdict is not None and False in verdict:
        k = verdict.index(False)
        # name the clause (message only; the verdict is Coq's)
        tw = [0] * len(case["items"])
        tot = 0
        for op in case["ops"][:k + 1]:
            for x in ([op[1]] if op[0] == "add" else op[1]):
                tw[x] += op[2]
                tot += op[2]
        ob = r["obs"][k]
        for x, q in enumerate(ob["queries"]):
            if q is None or q < tw[x]:
                return "C15_check (Coq) fails after op %d: query(%r) = %s is below the true accumulated weight %d (C15_lower)" % (k, case["items"][x][1], q, tw[x])
            if q > tot:
                return "C15_check (Coq) fails after op %d: query(%r) = %s exceeds the total weight %d (C15_upper)" % (k, case["items"][x][1], q, tot)
        return "C15_check (Coq) fails after op %d: row sums %s differ from the total weight %d (C15_rows)" % (k, ob["rowsums"], tot)
    return "correspondence with the model (estimate = row-wise minimum of the cells written by the update, C15_query_is_min / C15_cell): " + d[1]


def counter_clause(case, r, verdict, d):
    if not r["ok"]:
        return "add() terminates normally: %s" % r["error"]
    if verdict is not None and False in verdict:
        k = verdict.index(False)
        stream = []
        for op in case["ops"][:k + 1]:
            stream += [op[1]] if op[0] == "add" else op[1]
        c = {kk: v for kk, v in r["obs"][k]}
        single = all(op[0] == "add" for op in case["ops"][:k + 1])
        if any(x >= len(case["items"]) for x in c):
            return ("C15_b_check (Coq) fails after op %d: default_counter tracks a key that was never fed (the fed key was altered), "
                    "so it counts something that occurred 0 times (C15_b_no_over): %s" % (k, sorted(c.items())))
        if any(v > stream.count(x) or v < 1 for x, v in c.items()):
            return "C15_b_check (Coq) fails after op %d: the counter over-counts (C15_b_no_over): %s" % (k, sorted(c.items()))
        if len(set(stream)) < case["bound"] and any(c.get(x, 0) != stream.count(x) for x in set(stream)):
            return "C15_b_check (Coq) fails after op %d: fewer than bound=%d distinct values seen but counts are not exact (C15_b_exact): %s" % (k, case["bound"], sorted(c.items()))
        if single and len(c) > max(case["bound"], 0):
            return "C15_b_check (Coq) fails after op %d: %d distinct values tracked with bound %d (C15_b_size)" % (k, len(c), case["bound"])
        return "C15_b_check (Coq) fails after op %d" % k
    return "correspondence with the model (updates refused once len(default_counter) >= bound): " + d[1]


def check(run, replay):
    ok, log = vlib.build(["Sketch/CMS.vo", "Sketch/Bounded.vo"])
    run.oblige("build:model Sketch/CMS.vo Sketch/Bounded.vo", ok, "" if ok else log[-1500:])
    if not ok:
        raise vlib.Broken("build:Sketch/CMS.vo", log)
    vlib.standard_proof_phase(run, ["Props/C15.vo"], "Outrank.Props.C15", THEOREMS)

    scale = []
    if replay is not None:
        cases = [replay["case"]]
        if cases[0]["kind"].startswith("scale_"):
            # the transcriptions that judge the scale case are still held to the Coq models on small cases of this run
            scale, cases = cases, [gen_cms(run.rng) if i % 2 else gen_counter(run.rng) for i in range(40)]
    else:
        corpus = load_corpus("C15")
        scale = [c for c in corpus if c["kind"].startswith("scale_")]
        cases = [c for c in corpus if not c["kind"].startswith("scale_")]
        n = 260 if run.tier == "quick" else 2500
        for i in range(n):
            cases.append(gen_cms(run.rng) if i % 5 < 3 else gen_counter(run.rng))
        for _ in range(60 if run.tier == "quick" else 400):
            cases.append(gen_pipeline(run.rng))
        scale += gen_scale(run.rng, run.tier)
    out = vlib.run_impl("impl_c15.py", {"cases": cases})
    res = out["results"]

    exprs, meta = [], []
    for c, r in zip(cases, res):
        if c["kind"] == "pipeline":
            cols, ex = pipe_coq(c)
            exprs.extend(ex)
            meta.append(cols)
        elif c["kind"] == "cms":
            if r["loc"] is None:
                meta.append(None)
                continue
            cells = cms_probe_cells(c, r)
            exprs.append(cms_expr(c, r, cells))
            meta.append(cells)
        else:
            exprs.append(counter_expr(c))
            meta.append(True)
    vals = iter(vlib.coq_eval("C15", HEADER, exprs, shard=12))
    hist = {"cms": 0, "counter": 0, "pipeline": 0, "pipeline_bound_crossed_inside_a_batch": 0, "depth": {}, "width": {}, "collisions": 0, "weighted": 0, "never_inserted_queried": 0,
            "counter_bound_reached": 0, "counter_with_batches": 0, "ops": {}, "impl_errors": 0,
            "prefilled_matrix": 0, "prefilled_rows_disagree": 0, "fresh_sketch_rows_disagree": 0}
    fails = []
    mirror_bad = 0
    for i, (c, r, mt) in enumerate(zip(cases, res, meta)):
        hist[c["kind"]] += 1
        if "ops" in c:
            b = len(c["ops"]) // 10 * 10
            hist["ops"][b] = hist["ops"].get(b, 0) + 1
        if mt is None:
            hist["impl_errors"] += 1
            run.count_case(c, False)
            fails.append((i, (0, "implementation raised %s" % r["error"])))
            continue
        if c["kind"] == "pipeline":
            models = {col: [[(k, n) for k, n in cnt] for cnt in next(vals)] for col in mt}
            pm = pipe_mirror_models(c)
            if any([sorted(x) for x in models[col]] != [[tuple(e) for e in s] for s in pm[col]] for col in mt):
                mirror_bad += 1
            crossed = False
            for col, (ids, ends, names) in pipe_streams(c).items():
                for b, e in enumerate(ends):
                    s0 = ends[b - 1] if b else 0
                    if len(set(ids[:s0])) < c["bound"] < len(set(ids[:e])):
                        crossed = True
            hist["pipeline_bound_crossed_inside_a_batch"] += crossed
            run.count_case(c, crossed)
            d = pipe_compare(c, r, models)
            if d is not None:
                fails.append((i, d))
            continue
        v = next(vals)
        if c["kind"] == "cms":
            hist["depth"][c["depth"]] = hist["depth"].get(c["depth"], 0) + 1
            hist["width"][c["width"]] = hist["width"].get(c["width"], 0) + 1
            coll = any(len(set(row)) < len(row) for row in r["loc"])
            wtd = any(op[2] != 1 for op in c["ops"])
            used = set()
            for op in c["ops"]:
                used.update([op[1]] if op[0] == "add" else op[1])
            hist["collisions"] += coll
            if c.get("M0") is not None:
                hist["prefilled_matrix"] += 1
                hist["prefilled_rows_disagree"] += r.get("probe_spread", 0) > 0
            else:
                hist["fresh_sketch_rows_disagree"] += r.get("probe_spread", 0) > 0
            hist["weighted"] += wtd
            hist["never_inserted_queried"] += len(used) < len(c["items"])
            run.count_case(c, coll or wtd or c.get("M0") is not None)
            model = [tuple(x) for x in v]
            mm = cms_mirror(c, r["loc"])
            for mo, pm in zip(model, mm):
                if list(mo[0]) != pm["q"] or list(mo[2]) != pm["rows"] or any(pm["cells"].get(cc, 0) != mv for cc, mv in zip(mt, mo[1])):
                    mirror_bad += 1
                    break
            d = cms_compare(c, r, model, mt)
        else:
            stream = []
            reached = False
            for op in c["ops"]:
                stream += [op[1]] if op[0] == "add" else op[1]
                reached = reached or len(set(stream)) >= c["bound"] > 0
            hist["counter_bound_reached"] += reached
            hist["counter_with_batches"] += any(op[0] == "batch" for op in c["ops"])
            run.count_case(c, reached)
            model = [[(k, n) for k, n in cnt] for cnt in v]
            pm = counter_mirror(c)
            if any({k: n for k, n in mo} != m for mo, m in zip(model, pm)):
                mirror_bad += 1
            d = counter_compare(c, r, model)
        if d is not None:
            fails.append((i, d))
    run.oblige("mirror: tools/props/c15.py mirrors = Coq models on %d cases" % len(cases), mirror_bad == 0, "%d differ" % mirror_bad)
    if mirror_bad:
        run.violation("broken-obligation", "python mirror differs from the Coq model", found_input=False)

    reported = {"cms": 0, "counter": 0, "pipeline": 0}
    fails.sort(key=lambda f: (cases[f[0]]["kind"] == "pipeline" and not pipe_prop_fail(cases[f[0]], res[f[0]]), f[0]))
    for i, d in fails:
        c, r = cases[i], res[i]
        if reported[c["kind"]] >= 2:
            continue
        reported[c["kind"]] += 1
        if c["kind"] == "pipeline":
            small = pipe_shrink(dict(c, batches=c["batches"][:d[0] + 1]), prop_level=pipe_prop_fail(c, r)) if r["ok"] else c
            rr = vlib.run_impl("impl_c15.py", {"cases": [small]})["results"][0]
            clause, verdict, model = d[2], None, None
            if rr["ok"]:
                cols, ex = pipe_coq(small)
                st = pipe_streams(small)
                chk = []
                for col in cols:
                    ids, ends, names = st[col]
                    for b, ob in enumerate(rr["obs"]):
                        cnt = "[" + "; ".join("(%d, %s%%Z)" % (names.get(("s" if isinstance(k, str) else "i", k), 999999), vlib.zlit(v))
                                              for k, v in ob.get(col, [])) + "]"
                        chk.append("ccheck1 %s%%Z %s true %s %s" % (vlib.zlit(small["bound"]), vlib.nlist(range(len(names))),
                                                                     vlib.nlist(ids[:ends[b]]), cnt))
                try:
                    out2 = vlib.coq_eval("C15", HEADER, ex + ["[" + "; ".join(chk) + "]"])
                    model = {col: m for col, m in zip(cols, out2[:len(cols)])}
                    verdict = out2[-1]
                    d2 = pipe_compare(small, rr, {col: [[(k, n) for k, n in cnt] for cnt in model[col]] for col in cols})
                    if d2 is not None:
                        clause = d2[2]
                    if False in verdict:
                        clause = ("C15_b_check (Coq) fails on the counter the pipeline keeps (no over-count / exact below the bound / "
                                  "at most bound distinct values when fed item by item): ") + clause
                    else:
                        clause = "correspondence with the model (compute_cardinalities feeds the counter item by item): " + clause
                except vlib.Broken:
                    pass
            else:
                clause = "compute_cardinalities terminates normally: %s" % rr["error"]
            run.violation("counterexample", "C15 model/implementation correspondence (pipeline)", case=small,
                          impl={"obs": rr["obs"], "error": rr["error"]}, model=repr(model)[:3000], clause=clause,
                          extra={"checker_verdict": verdict})
            continue
        cut = dict(c, ops=c["ops"][:d[0] + 1])
        small = shrink(cut)
        rr = vlib.run_impl("impl_c15.py", {"cases": [small]})["results"][0]
        verdict = model = None
        try:
            if small["kind"] == "cms" and rr["loc"] is not None:
                cells = cms_probe_cells(small, rr)
                if small.get("M0") is not None:      # bounds against the stream do not apply to a pre-filled matrix
                    model = vlib.coq_eval("C15", HEADER, [cms_expr(small, rr, cells)])[0]
                else:
                    model, verdict = vlib.coq_eval("C15", HEADER, [cms_expr(small, rr, cells), cms_verdict_expr(small, rr)])
            elif small["kind"] == "counter":
                model, verdict = vlib.coq_eval("C15", HEADER, [counter_expr(small), counter_verdict_expr(small, rr)])
        except vlib.Broken:
            pass
        clause = (cms_clause if small["kind"] == "cms" else counter_clause)(small, rr, verdict, d)
        run.violation("counterexample", "C15 model/implementation correspondence (%s)" % small["kind"], case=small,
                      impl={"obs": rr["obs"][-2:], "loc": rr.get("loc"), "error": rr["error"]}, model=repr(model)[:3000],
                      clause=clause, extra={"checker_verdict": verdict, "original_case_ops": len(c["ops"])})
    ncms = sum(1 for c in cases if c["kind"] == "cms")
    run.oblige("correspondence: count-min matrix, row sums and query after every prefix (%d streams)" % ncms,
               not any(cases[i]["kind"] == "cms" for i, _ in fails), "%d streams disagree" % sum(1 for i, _ in fails if cases[i]["kind"] == "cms"))
    ncnt = sum(1 for c in cases if c["kind"] == "counter")
    run.oblige("correspondence: bounded counter default_counter after every prefix (%d streams)" % ncnt,
               not any(cases[i]["kind"] == "counter" for i, _ in fails), "%d streams disagree" % sum(1 for i, _ in fails if cases[i]["kind"] == "counter"))
    run.oblige("correspondence: counter kept by core_ranking.compute_cardinalities after every mini-batch (%d histories)" % (len(cases) - ncms - ncnt),
               not any(cases[i]["kind"] == "pipeline" for i, _ in fails), "%d histories disagree" % sum(1 for i, _ in fails if cases[i]["kind"] == "pipeline"))
    run.cov["input_distribution"] = hist
    if scale:
        if mirror_bad:
            run.notes.append("scale families judged by transcriptions that differ from the Coq models on small cases: see obligation 'mirror'")
        run.cov["scale_families"] = check_scale(run, scale)
    run.cov["default_bound_of_a_fresh_counter"] = out.get("default_bound")
    run.cov["exhaustive"] = False
    run.samples = [next((c for c in cases if c["kind"] == k), None) for k in ("cms", "counter", "pipeline")]
    run.assumptions += [
        "items are abstracted to ids by the harness (equality of ids = Python equality of the int / str items; ints and strs only)",
        "weights are non-negative Python ints and the total weight of a stream stays below 2^31: int32 wrap-around of the matrix is outside the property and the model uses Z",
        "the count-min hash seeds are drawn by the constructor after np.random.seed(case seed); PYTHONHASHSEED is fixed so that str hashes are reproducible",
        "the matrices are compared on the implementation's non-zero cells plus every cell some item of the case hashes to; every other cell of the model is 0 by C15_support",
    ]
    run.trusted += [
        "harness: tools/props/c15.py (generators, id abstraction, sparse matrix comparison), tools/impl/impl_c15.py (drives the real classes, tabulates cms_hash)",
        "numba-compiled cms_hash / _add (oracle: the theorems hold for every hash function)",
        "coqparse.py (reads the terms coqc prints)",
        "SCALE families are not executed in Coq: they are judged by cms_apply / cms_query / counter_apply in tools/props/c15.py, "
        "the same functions whose outputs are compared with Eval vm_compute of the Coq models on every small case of the run (obligation 'mirror'); "
        "tools/impl/impl_c15_scale.py generates the inputs from the spec",
    ]
