"""E2E — the composed model of the whole ranking task (coq/E2E/Compose.v: text -> lines -> rows -> batches -> codes ->
pairs -> exact coverage -> median -> sorted table) against the REAL task, compared on the whole pairwise_ranks.tsv.

Not one of the 20 properties: an extra obligation that ties the per-layer checks (C16, C08, C06, C07, C05) together."""
from __future__ import annotations

import csv
import io
import json
import os
import time
from concurrent.futures import ThreadPoolExecutor
from fractions import Fraction

import coqparse
import vlib

LEVEL = "proof"
RULE = ("generated csv-raw files (2-6 columns, label at any position, 30-3300 data lines, cells from small alphabets incl. "
        "empty strings, blanks, latin-1 letters, quoted cells with commas / doubled quotes, malformed lines: short, long, "
        "blank, one field, stray quote; LF / CRLF / mixed terminators, missing final newline) x (B, s) grid incl. tails of "
        "1023/1024/1025 rows x target_ranking_only True/False x heuristic max-value-coverage / Constant, run through the real "
        "outrank_task_conduct_ranking (args from the repository's parser, serial pool object) and through e2e_run evaluated by "
        "vm_compute on the same text; non-trivial = at least one batch is processed and (two or more batches, or a malformed "
        "selected line, or a quoted cell, or a tail decision within 2 rows of 1024); distinct = distinct (text, config)")
THEOREMS = ["E2E_spec", "E2E_spec_constant", "E2E_requested_pairs", "E2E_batches", "E2E_loop", "E2E_batch_rows",
            "E2E_batch_score_exact", "E2E_max_cov_unique", "E2E_max_cov_symmetric", "E2E_batch_split_scores",
            "E2E_median_replicate", "E2E_maxfreq_fast", "E2E_text_run", "E2E_no_csv_error", "E2E_wellformed_file",
            "E2E_wellformed_run", "E2E_cap_nonbinding", "E2E_shuffle_sampler_independent", "E2E_deterministic",
            "E2E_examples"]
TOL = 1e-15
COQ_MEM_KB = 2 * 1024 * 1024          # address-space cap per coqc evaluating cases
HEADER = ("From Coq Require Import List NArith ZArith QArith.\nFrom Outrank Require Import E2E.Compose.\n"
          "Import ListNotations.\nOpen Scope N_scope.")
H_COV, H_CONST = "max-value-coverage", "Constant"
TAIL_MIN = 1024


# ---------------------------------------------------------------------------------------------------------------
# file generation

ALPHABETS = [["a", "b"], ["0", "1"], ["x", "y", "z", ""], ["a", "b", "c", "", "dd"], ["1", "2", "10", "02", ""],
             ["u", "\xe9", "\xfc", " "], ["yes", "no", ""], ["A", "a", "B", "b"], ["", "", "1"], ["k"],
             ["a", " a", "a ", "b"], ["", " ", "x", "\t"]]
SPECIAL = ["a,b", "x,y,z", 'say "hi"', '"', ' pad ', "semi;colon", "tab\there", "it's", ",", '""', "\xa0", "q\x85r", "a b",
           "\u65e5\u672c", "\U0001f600", "\u2028"]
NAMESETS = [lambda k: "f%d" % k, lambda k: "col_%d" % k, lambda k: "x" + "abcdefg"[k], lambda k: "F %d" % k,
            lambda k: "v%d-%d" % (k, k * k)]
LABELS = ["label", "label", "y", "target", "clicked", "Label", "is_click"]


def render_cell(c, style):
    if style == 1 or any(ch in c for ch in ',"\r\n') :
        return '"' + c.replace('"', '""') + '"'
    return c


def render_row(cells, style=0):
    if cells == [""]:
        return '""'
    return ",".join(render_cell(c, style) for c in cells)


def gen_columns(rng, ncols, lp, small):
    """per-column generators of one cell given (row index, label value, earlier cells)"""
    kinds = []
    for j in range(ncols):
        if j == lp:
            kinds.append(("label", rng.choice(ALPHABETS[:3] + [["0", "1", "2"]])))
            continue
        r = rng.random()
        if r < 0.45:
            kinds.append(("indep", rng.choice(ALPHABETS)))
        elif r < 0.6 and j > 0:
            kinds.append(("copy", rng.randrange(j), rng.choice([0.0, 0.1, 0.3])))
        elif r < 0.8:
            kinds.append(("oflabel", rng.choice([0.05, 0.2, 0.5]), rng.choice(ALPHABETS[:5])))
        elif r < 0.92:
            kinds.append(("wide", rng.choice([7, 13, 40])))
        else:
            kinds.append(("id",) if small else ("wide", 60))
    return kinds


def gen_good_row(rng, kinds, lp, i, p_special):
    lab = rng.choice(kinds[lp][1])
    cells = []
    for j, k in enumerate(kinds):
        if k[0] == "label":
            c = lab
        elif k[0] == "indep":
            c = rng.choice(k[1])
        elif k[0] == "copy":
            c = cells[k[1]] if rng.random() >= k[2] else rng.choice(["a", "b", ""])
        elif k[0] == "oflabel":
            c = k[2][sum(map(ord, lab)) % len(k[2])] if rng.random() >= k[1] else rng.choice(k[2])
        elif k[0] == "wide":
            c = "v%d" % rng.randrange(k[1])
        else:
            c = "r%d" % i
        if p_special and rng.random() < p_special:
            c = rng.choice(SPECIAL)
        cells.append(c)
    return cells


def gen_bad_line(rng, good_cells):
    n = len(good_cells)
    kind = rng.choice(["short", "long", "blank", "one", "unquoted-comma", "long2", "short-quoted"])
    if kind == "short":
        return render_row(good_cells[:-1]) if n > 1 else ""
    if kind == "long":
        return render_row(good_cells + ["extra"])
    if kind == "long2":
        return render_row(good_cells + ["", ""])
    if kind == "blank":
        return ""
    if kind == "one":
        return "lonely" if n > 1 else "a,b"
    if kind == "unquoted-comma":
        return ",".join(good_cells[:-1] + ["p,q"])
    # one cell fewer, but a quoted comma keeps the comma count of a good line
    return render_row(good_cells[:-2] + [good_cells[-2] + "," + good_cells[-1]]) if n > 1 else ""


def gen_case(rng, family):
    ncols = rng.choice([2, 3, 3, 4, 4, 5, 6])
    lp = rng.randrange(ncols)
    nm = rng.choice(NAMESETS)
    label = rng.choice(LABELS)
    names = [label if j == lp else nm(j) for j in range(ncols)]
    s = rng.choice([1, 1, 1, 2, 3, 5])
    p_bad = rng.choice([0, 0, 0.01, 0.05])
    p_special = rng.choice([0, 0, 0.01, 0.05])
    style_all = rng.random() < 0.1
    G = None           # exact number of selected well-formed lines (tail family), else a number of lines
    if family == "tail":
        B = rng.choice([1100, 1500, 2048])
        rest = rng.choice([1023, 1024, 1025])
        k = rng.choice([0, 0, 1]) if B <= 1500 else 0
        G = k * B + rest
        s = 1 if G > 1700 else rng.choice([1, 1, 2])
        p_bad = rng.choice([0, 0.005])
        ncols = min(ncols, 5)
    elif family == "none":
        B = rng.choice([40, 400, 2000])
        nlines = rng.randint(1, min(B * s - 1, 1000))
    elif family == "medium":
        nlines = rng.randint(400, 3000)
        B = rng.choice([50, 128, 333, 700, 1000])
    else:
        nlines = rng.randint(30, 400)
        B = rng.choice([5, 7, 16, 50, 128])
    if family in ("small", "medium"):
        B = min(B, max(1, nlines // (s * rng.choice([1, 2, 3, 8]))))   # at least one batch (up to malformed lines)
        B = max(B, -(-nlines // (s * 60)))          # at most ~60 batches (cost of the aggregation in Coq)
    if family == "tail":
        names = names[:ncols]
        lp = min(lp, ncols - 1)
        names[lp] = label
    kinds = gen_columns(rng, ncols, lp, family == "small")
    lines = []
    good_sel = 0
    feats = {"bad_selected": 0, "quoted": 0}
    while True:
        pos = len(lines) + 1
        if G is None and pos > nlines:
            break
        if G is not None and good_sel >= G:
            break
        cells = gen_good_row(rng, kinds, lp, pos, p_special)
        if rng.random() < p_bad:
            ln = gen_bad_line(rng, cells)
            try:
                nf = len(list(csv.reader([ln + "\n"])).pop())
            except Exception:
                nf = -1
            if pos % s == 0:
                if nf == ncols:
                    good_sel += 1
                else:
                    feats["bad_selected"] += 1
        else:
            ln = render_row(cells, 1 if style_all else 0)
            if pos % s == 0:
                good_sel += 1
        if '"' in ln:
            feats["quoted"] += 1
        lines.append(ln)
    if G is not None:
        for _ in range(rng.randint(0, s - 1)):      # unselected trailing lines
            lines.append(render_row(gen_good_row(rng, kinds, lp, len(lines) + 1, 0)))
    eolk = rng.choice(["lf", "lf", "lf", "crlf", "mixed"])
    parts = [",".join(names)]
    text = []
    for i, ln in enumerate(parts + lines):
        eol = "\n" if eolk == "lf" else ("\r\n" if eolk == "crlf" else rng.choice(["\n", "\r\n", "\r"]))
        text.append(ln + eol)
    text = "".join(text)
    final_newline = rng.random() < 0.8
    if not final_newline and lines and lines[-1] != "":
        text = text.rstrip("\r\n")
    # the file is written as UTF-8 (parse_csv_raw reads the header with the locale's codec) and the data lines are read back
    # as latin-1 by the task: the model's text is the list of BYTES
    text = text.encode("utf-8").decode("latin1")
    heuristic = H_CONST if rng.random() < 0.15 else H_COV
    tro = rng.choice(["True", "False"])
    ncands = (ncols if tro == "True" else ncols * (ncols + 1) // 2)      # every unordered pair once (repo b3d9d15)
    cap = rng.choice([2 ** 15, 2 ** 15, ncands, ncands + 1, 10 ** 6])
    return {"text": text, "B": B, "s": s, "label": label, "tro": tro, "heuristic": heuristic, "cap": cap,
            "family": family, "ncols": ncols, "nlines": len(lines), "good_selected": good_sel, "eol": eolk,
            "final_newline": final_newline, "features": feats}


def small_scope():
    """Exhaustive small scope (thorough tier): every file of up to 4 data lines over five line kinds (three good rows, a
    one-field line, a blank line) x B in {1, 2} x s in {1, 2}; the mode alternates.  The tail rule cannot fire here; the
    composition of selection, skipping, batch trigger, per-batch scores and median can."""
    import itertools
    kinds = ["a,0", "b,1", "a,1", "a", ""]
    out = []
    k = 0
    for n in range(0, 5):
        for seq in itertools.product(kinds, repeat=n):
            for B in (1, 2):
                for s in (1, 2):
                    k += 1
                    text = "x,label\n" + "".join(ln + "\n" for ln in seq)
                    good = sum(1 for i, ln in enumerate(seq) if (i + 1) % s == 0 and ln.count(",") == 1)
                    out.append({"text": text, "B": B, "s": s, "label": "label", "tro": "True" if k % 2 else "False",
                                "heuristic": H_COV, "cap": 2 ** 15, "family": "small-scope", "ncols": 2, "nlines": n,
                                "good_selected": good, "eol": "lf", "final_newline": True,
                                "features": {"bad_selected": sum(1 for i, ln in enumerate(seq) if (i + 1) % s == 0 and ln.count(",") != 1),
                                             "quoted": 0}})
    return out


def load_corpus():
    d = os.path.join(vlib.VERIF, "corpus", "E2E")
    out = []
    if os.path.isdir(d):
        for f in sorted(os.listdir(d)):
            if f.endswith(".json"):
                out.append(json.load(open(os.path.join(d, f))))
    return out


# ---------------------------------------------------------------------------------------------------------------
# Coq side

def coq_cfg(case):
    return "(mkconfig %d %d %s %s %s %s)" % (case["B"], case["s"], vlib.strlit(case["label"]), vlib.strlit(case["tro"]),
                                             vlib.strlit(case["heuristic"]), vlib.zlit(case["cap"]) + "%Z")


def coq_expr(case, fn="e2e_eval"):
    return "%s %s %s" % (fn, coq_cfg(case), vlib.strlit(case["text"]))


def coq_eval(tag, exprs, weights, jobs=12, timeout=1500):
    """`Eval vm_compute` of every expression; expressions are spread over at most `jobs` coqc processes by weight
    (one file text costs about 1 s per 1000 lines to elaborate).  Local variant of vlib.coq_eval: 2 GB cap per coqc."""
    if not exprs:
        return []
    os.makedirs(vlib.CASES, exist_ok=True)
    nsh = max(1, min(jobs, len(exprs)))
    shards = [[] for _ in range(nsh)]
    load = [0] * nsh
    for i in sorted(range(len(exprs)), key=lambda i: -weights[i]):
        k = load.index(min(load))
        shards[k].append(i)
        load[k] += weights[i] + 200
    base = "%s_%d" % (tag, os.getpid())

    def one(k):
        path = os.path.join(vlib.CASES, "cases_%s_%d.v" % (base, k))
        with open(path, "w") as f:
            f.write(HEADER + "\nSet Printing Width 10000000. Set Printing Depth 10000000.\n")
            for i in shards[k]:
                f.write("Eval vm_compute in (%s).\n" % exprs[i])
        rc, out = vlib._run(["bash", "-c", "ulimit -s unlimited 2>/dev/null; ulimit -v %d 2>/dev/null; exec coqc -Q '%s' Outrank '%s'" % (
            COQ_MEM_KB, vlib.COQ, path)], timeout, cwd=vlib.CASES)
        vlib._cleanup(path)
        if rc != 0:
            raise vlib.Broken("model-eval:E2E", out[-3000:])
        vals = coqparse.parse_evals(out)
        if len(vals) != len(shards[k]):
            raise vlib.Broken("model-eval:E2E", "expected %d results got %d\n%s" % (len(shards[k]), len(vals), out[-2000:]))
        return vals

    res = [None] * len(exprs)
    with ThreadPoolExecutor(max_workers=nsh) as ex:
        for k, vals in enumerate(ex.map(one, range(nsh))):
            for i, v in zip(shards[k], vals):
                res[i] = v
    return res


def dec(codes):
    return "".join(chr(c) for c in codes)


def model_table(val):
    """(status, [(A, B, num, den)]) -> (status, [(A, B, Fraction)])"""
    status, rows = val
    return status, [(dec(a), dec(b), Fraction(n, d)) for a, b, n, d in rows]


# ---------------------------------------------------------------------------------------------------------------
# comparison

def known_constant_crash(case, res):
    """`--heuristic Constant` never writes the checkpoint inside the loop, so without a tail batch the final
    os.remove('ranking_checkpoint_tmp.tsv') raises AFTER pairwise_ranks.tsv was written (known observation, C08/C09 notes)."""
    # Repaired in /repo by fix 4add6a4 (the checkpoint is removed only if it exists): the crash is no longer an accepted
    # behaviour — a Constant run that ends in this error is reported like any other abnormal termination.
    return False


def score_close(f, q):
    if not isinstance(f, (int, float)):
        return False
    if q == 0:
        return f == 0
    return float(f) == q.numerator / q.denominator or abs(Fraction(float(f)) - q) <= Fraction(TOL) * abs(q)


def compare(case, res, mval):
    """-> None when the implementation's run agrees with the model, else (clause, detail)."""
    status, mt = model_table(mval)
    if status == 1:
        return ("excluded", "configuration outside the modelled fragment")
    crashed = not res.get("ok") and not known_constant_crash(case, res)
    if status == 2:
        if crashed and "Error" in str(res.get("error_type")) and "csv" in (res.get("traceback") or "").lower():
            return None
        return ("a selected line on which csv.reader raises makes the task raise", "model: csv.Error; implementation: %s" % (
            res.get("error") or "no exception"))
    if crashed:
        return ("the ranking task terminates normally", res.get("error"))
    pw = res.get("pairwise")
    if status == 3:
        if pw is None:
            return None
        return ("no batch is processed (fewer than B accepted rows and a remainder of at most 1024): no pairwise_ranks.tsv",
                "implementation processed %d batches and wrote %d rows" % (res.get("nbatches", -1), len(pw)))
    if pw is None:
        return ("pairwise_ranks.tsv is written", "model table has %d rows, implementation wrote no file (exit %s, %d batches)" % (
            len(mt), res.get("exit"), res.get("nbatches", -1)))
    if case["heuristic"] == H_CONST:
        want = sorted(tuple(sorted((a, b))) for a, b, _ in mt)
        got = sorted(tuple(sorted((r[0], r[1]))) for r in pw)
        if want != got:
            return ("Constant: every requested pair exactly once", "pairs differ: model-only %s, implementation-only %s" % (
                _msdiff(want, got)[:4], _msdiff(got, want)[:4]))
        bad = [r for r in pw if r[2] != 0]
        if bad:
            return ("Constant: all scores 0", "rows %s" % bad[:3])
        return None
    m = {}
    for a, b, q in mt:
        m[(a, b)] = q
    seen = set()
    for a, b, f in pw:
        if (a, b) in seen:
            return ("one row per ordered pair", "pair (%s, %s) appears twice" % (a, b))
        seen.add((a, b))
        if (a, b) not in m:
            return ("pairs = the ordered pairs requested by the mode, both orientations, nothing else", "unexpected pair (%s, %s)" % (a, b))
    if len(seen) != len(m):
        return ("pairs = the ordered pairs requested by the mode, both orientations, nothing else",
                "pairs missing: %s" % sorted(set(m) - seen)[:4])
    for a, b, f in pw:
        q = m[(a, b)]
        if not score_close(f, q):
            return ("score = median over the processed batches of max_(u,v) n_uv / n",
                    "pair (%s, %s): model %s = %.17g, implementation %.17g" % (a, b, q, q.numerator / q.denominator, f))
    sc = [r[2] for r in pw]
    if any(sc[i] > sc[i + 1] for i in range(len(sc) - 1)):
        return ("table sorted ascending by score", "scores %s" % sc[:12])
    return None


def _msdiff(a, b):
    b = list(b)
    out = []
    for x in a:
        if x in b:
            b.remove(x)
        else:
            out.append(x)
    return out


def diagnose(case, res, dval):
    """Names the first layer whose observable differs (informational text for the replay; the verdict is `compare`)."""
    try:
        header, D, batches, invalid, parsed = dval
        header = [dec(h) for h in header]
        parsed_rows = [[dec(c) for c in o[1]] for o in parsed if o is not None]
        ib = res.get("batches") or []
        cols = [b.get("columns") for b in ib if b.get("columns") is not None]
        if cols and cols[0] != header:
            return "layer header (C16, parse_csv_raw): implementation columns %s, model %s" % (cols[0], header)
        msizes = [len(b[0]) for b in batches]
        isizes = [b["n"] for b in ib]
        if msizes != isizes:
            iflat = [r for b in ib for r in (b.get("rows") or [])]
            mflat = [[dec(c) for c in r] for b in batches for r in b[0]]
            j = next((i for i in range(min(len(iflat), len(mflat))) if iflat[i] != mflat[i]), min(len(iflat), len(mflat)))
            foreign = next((r for r in iflat if r not in parsed_rows), None)
            if foreign is not None:
                return ("layer line parser (C16: csv.reader on physical lines): the implementation's batches contain the row %r, which is not the "
                        "parse of any data line (batch sizes implementation %s, model %s)" % (foreign, isizes, msizes))
            return ("layer streaming loop (C08: every s-th line, field-count test, mini-batches, tail rule) or line parser (C16, field "
                    "counts): batch sizes implementation %s, model %s; invalid-line count implementation %s, model %d; consumed rows first "
                    "differ at index %d: implementation %r, model %r" % (
                        isizes, msizes, res.get("invalid_logged"), invalid, j, iflat[j] if j < len(iflat) else None,
                        mflat[j] if j < len(mflat) else None))
        for k, (b, mb) in enumerate(zip(ib, batches)):
            mrows = [[dec(c) for c in r] for r in mb[0]]
            if b.get("rows") is not None and b["rows"] != mrows:
                j = next(i for i in range(len(mrows)) if b["rows"][i] != mrows[i])
                return "layer line parser / selection (C16, C08): batch %d row %d: implementation %r, model %r" % (k, j, b["rows"][j], mrows[j])
        inv = res.get("invalid_logged") or []
        if (inv[0] if inv else 0) != invalid:
            return "layer streaming loop (C08): invalid-line count implementation %s, model %d" % (inv, invalid)
        for k, (b, mb) in enumerate(zip(ib, batches)):
            if b.get("triplets") is None:
                continue
            mt = sorted((dec(a), dec(c), Fraction(n, D)) for a, c, n in mb[1])
            it = sorted((a, c, f) for a, c, f in b["triplets"])
            if [(a, c) for a, c, _ in mt] != [(a, c) for a, c, _ in it]:
                return "layer rank graph rows (C06: candidate pairs, mirror rows / Constant once): batch %d pairs implementation %s, model %s" % (
                    k, [(a, c) for a, c, _ in it][:8], [(a, c) for a, c, _ in mt][:8])
            for (a, c, q), (_, _, f) in zip(mt, it):
                if not score_close(f, q):
                    return "layer batch score (C05: codes, orientation, max joint-value frequency / n): batch %d pair (%s, %s): implementation %.17g, model %s" % (k, a, c, f, q)
        return "layer aggregation (C08: median per ordered pair over the batches, final sort): all per-batch observables agree"
    except Exception as e:  # diagnosis must never hide the verdict
        return "diagnosis failed: %s: %s" % (type(e).__name__, e)


# ---------------------------------------------------------------------------------------------------------------
# shrinking (fewer rows / columns / smaller B)

def split_lines(text):
    out = []
    cur = ""
    i = 0
    while i < len(text):
        ch = text[i]
        if ch == "\r" and i + 1 < len(text) and text[i + 1] == "\n":
            out.append((cur, "\r\n"))
            cur = ""
            i += 2
            continue
        if ch in "\r\n":
            out.append((cur, ch))
            cur = ""
        else:
            cur += ch
        i += 1
    if cur:
        out.append((cur, ""))
    return out


def join_lines(ls):
    return "".join(a + b for a, b in ls)


def drop_column(case, j):
    ls = split_lines(case["text"])
    names = ls[0][0].split(",")
    if len(names) <= 2 or names[j] == case["label"]:
        return None
    out = [(",".join(names[:j] + names[j + 1:]), ls[0][1])]
    for body, eol in ls[1:]:
        try:
            cells = list(csv.reader([body + "\n"])).pop()
        except Exception:
            return None
        if len(cells) > j:
            cells = cells[:j] + cells[j + 1:]
        buf = io.StringIO()
        csv.writer(buf, lineterminator="").writerow(cells)
        out.append((buf.getvalue() if cells else "", eol))
    c2 = dict(case)
    c2["text"] = join_lines(out)
    c2["ncols"] = len(names) - 1
    return c2


def shrink_variants(case):
    ls = split_lines(case["text"])
    n = len(ls) - 1
    out = []
    ncols = len(ls[0][0].split(","))
    for j in range(ncols):
        v = drop_column(case, j)
        if v is not None:
            out.append(v)
    if n >= 2:
        for lo, hi in ((0, n // 2), (n // 2, n), (n // 4, n - n // 4), (0, n - 1), (1, n)):
            if hi - lo < n and hi > lo:
                c2 = dict(case)
                c2["text"] = join_lines([ls[0]] + ls[1 + lo:1 + hi])
                c2["nlines"] = hi - lo
                out.append(c2)
    for B2 in (max(1, case["B"] // 2), max(1, case["B"] // 8), 2):
        if B2 < case["B"]:
            c2 = dict(case)
            c2["B"] = B2
            out.append(c2)
    if case["s"] > 1:
        c2 = dict(case)
        c2["s"] = 1
        out.append(c2)
    # keep the evaluation in Coq cheap: at most ~120 batches
    return [v for v in out if (len(split_lines(v["text"])) - 1) // (v["B"] * v["s"]) <= 120]


def size_of(case):
    return (len(case["text"]), case["B"], case["s"])


def run_cases(cases, root, detail=False):
    results = vlib.run_impl("impl_e2e.py", {"cases": [{k: c[k] for k in ("text", "B", "s", "label", "tro", "heuristic", "cap")} for c in cases],
                                            "root": root, "detail": detail})["results"]
    return results


def shrink(case, clause, root, budget_s=120):
    t0 = time.time()
    best = case
    for rnd in range(8):
        if time.time() - t0 > budget_s:
            break
        vs = shrink_variants(best)
        if not vs:
            break
        try:
            rs = run_cases(vs, "%s_shr%d" % (root, rnd))
            ms = coq_eval("E2Es", [coq_expr(v) for v in vs], [len(v["text"]) for v in vs])
        except vlib.Broken:
            break
        cand = None
        for v, r, m in zip(vs, rs, ms):
            d = compare(v, r, m)
            if d is not None and d[0] == clause and (cand is None or size_of(v) < size_of(cand)):
                cand = v
        if cand is None or size_of(cand) >= size_of(best):
            break
        best = cand
    return best


# ---------------------------------------------------------------------------------------------------------------

def nontrivial(case, status, res):
    if status != 0:
        return False
    rest = case.get("good_selected", 0) % case["B"] if case.get("good_selected") is not None else 0
    f = case.get("features", {})
    return (res.get("nbatches", 0) >= 2 or f.get("bad_selected", 0) > 0 or f.get("quoted", 0) > 0 or abs(rest - TAIL_MIN) <= 2)


def check(run, replay):
    ok, log = vlib.build(["E2E/Compose.vo"])
    run.oblige("build:model E2E/Compose.vo (imports IO.Str/Csv/Accept, Pipeline.Stream/Aggregate/RankGraph/Combos unchanged)", ok,
               "" if ok else log[-1500:])
    if not ok:
        raise vlib.Broken("build:E2E/Compose.vo", log)
    vlib.standard_proof_phase(run, ["Props/E2E.vo"], "Outrank.Props.E2E", THEOREMS)

    if replay is not None:
        cases = [replay["case"]]
    else:
        cases = load_corpus()
        if run.tier == "quick":
            fams = ["tail"] * 9 + ["medium"] * 16 + ["small"] * 60 + ["none"] * 5
        else:
            fams = ["tail"] * 120 + ["medium"] * 300 + ["small"] * 800 + ["none"] * 40
        for fam in fams:
            cases.append(gen_case(run.rng, fam))
        if run.tier == "thorough":
            cases.extend(small_scope())
            run.cov["exhaustive_small_scope"] = ("every file of <= 4 data lines over {a,0 | b,1 | a,1 | a | blank} x B in {1,2} x s in {1,2} "
                                                 "(3124 files) included")
    root = os.path.join(vlib.CACHE, "e2e", str(os.getpid()))
    with ThreadPoolExecutor(max_workers=2) as ex:      # the implementation and the model run side by side
        fi = ex.submit(run_cases, cases, root)
        fm = ex.submit(coq_eval, "E2E", [coq_expr(c) for c in cases], [len(c["text"]) for c in cases])
        results = fi.result()
        mvals = fm.result()
    run.oblige("correspondence: whole pairwise_ranks.tsv of the real task = e2e_run (vm_compute) on the same text and config "
               "(pairs exact; scores within 1e-15 relative of the model's rational; ascending)", True)

    hist = {"family": {}, "ncols": {}, "B": {}, "s": {}, "batches": {}, "heuristic": {}, "tro": {}, "eol": {}, "status": {},
            "nlines_max": 0, "lines_total": 0, "bad_selected_files": 0, "quoted_files": 0, "tail_rest": {},
            "constant_known_crash_at_os_remove": 0, "excluded": 0, "table_rows_compared": 0}
    failing = []
    for i, (c, r, m) in enumerate(zip(cases, results, mvals)):
        status = m[0]
        run.count_case({k: c[k] for k in ("text", "B", "s", "label", "tro", "heuristic", "cap")}, nontrivial(c, status, r))
        for key, val in (("family", c.get("family", "?")), ("ncols", c.get("ncols", "?")), ("B", c["B"]), ("s", c["s"]),
                         ("batches", r.get("nbatches", 0)), ("heuristic", c["heuristic"]), ("tro", c["tro"]), ("eol", c.get("eol", "?")),
                         ("status", status)):
            hist[key][str(val)] = hist[key].get(str(val), 0) + 1
        hist["nlines_max"] = max(hist["nlines_max"], c.get("nlines", 0))
        hist["lines_total"] += c.get("nlines", 0)
        f = c.get("features", {})
        hist["bad_selected_files"] += 1 if f.get("bad_selected") else 0
        hist["quoted_files"] += 1 if f.get("quoted") else 0
        if c.get("family") == "tail":
            rest = c["good_selected"] % c["B"]
            hist["tail_rest"][str(rest)] = hist["tail_rest"].get(str(rest), 0) + 1
        if known_constant_crash(c, r):
            hist["constant_known_crash_at_os_remove"] += 1
        d = compare(c, r, m)
        if d is not None and d[0] == "excluded":
            hist["excluded"] += 1
            continue
        if d is None:
            hist["table_rows_compared"] += len(r.get("pairwise") or [])
        else:
            failing.append((i, d))

    reported = {}
    for i, d in failing:
        if d[0] in reported:          # one (shrunk) representative per failing clause
            reported[d[0]]["count"] += 1
            continue
        case = cases[i]
        if replay is None:
            case = shrink(case, d[0], root)
        layer = ""
        r2, m2, d2 = results[i], mvals[i], d
        try:
            r2 = run_cases([case], root + "_d", detail=True)[0]
            m2 = coq_eval("E2Ed", [coq_expr(case)], [1])[0]
            d2 = compare(case, r2, m2) or d
            dv = coq_eval("E2Ed", [coq_expr(case, "e2e_detail")], [1])[0]
            layer = diagnose(case, r2, dv)
        except vlib.Broken as b:
            layer = "diagnosis unavailable: %s" % b.obligation
        st, mt = model_table(m2)
        reported[d[0]] = {"count": 1}
        impl = {"pairwise": r2.get("pairwise"), "exit": r2.get("exit"), "error": r2.get("error"), "nbatches": r2.get("nbatches"),
                "batch_sizes": [b.get("n") for b in (r2.get("batches") or [])], "invalid_logged": r2.get("invalid_logged"),
                "traceback": r2.get("traceback")}
        model = {"status": st, "table": [(a, b, "%s/%s" % (q.numerator, q.denominator), q.numerator / q.denominator) for a, b, q in mt]}
        run.violation("counterexample", "E2E correspondence (E2E_spec): real ranking task vs composed model", case=case, impl=impl,
                      model=model, clause="%s: %s || first differing layer: %s" % (d2[0], d2[1], layer))
    if failing:
        run.obligations[-1] = (run.obligations[-1][0], False, "%d files disagree (%s)" % (
            len(failing), "; ".join("%s x%d" % (k, v["count"]) for k, v in reported.items())))
    run.cov["input_distribution"] = hist
    run.cov["exhaustive"] = False
    run.cov["tolerance"] = ("pairs exact; score: the float written to pairwise_ranks.tsv equals the correctly rounded double of the model's "
                            "rational or lies within 1e-15 relative of it (k/n is correctly rounded, the median of an even number of batches "
                            "adds one rounding and an exact halving); order: non-decreasing floats (ties in any order); Constant: 0.0 exactly, "
                            "unordered pairs each once")
    run.samples = [{k: (v if k != "text" else v[:300]) for k, v in c.items()} for c in cases[:3]]
    run.assumptions += [
        "heuristic in {max-value-coverage, Constant}; --data_source csv-raw; interaction_order 1, no transformers / noise / "
        "multivalue / subfeature / focus options; --include_cardinality_in_feature_names False; reference_model_JSON empty",
        "cap not binding: combination_number_upper_bound >= number of candidate pairs (the model answers None otherwise; cases "
        "include cap = #candidates exactly); then the sampler selects every candidate in every batch whatever its counter "
        "(E2E_cap_nonbinding), and the shuffle is irrelevant (E2E_shuffle_sampler_independent)",
        "header line ASCII, names distinct, without commas / quotes / surrounding blanks; label among them; B >= 1, s >= 1",
        "the file is read as latin-1: text = list of byte values; no NUL, no field longer than csv.field_size_limit()",
        "the former Constant crash (no tail batch: FileNotFoundError at os.remove('ranking_checkpoint_tmp.tsv') after the outputs "
        "were written) was repaired in /repo by fix 4add6a4 (D26); an abnormal end of a Constant run is now reported like any other",
        "module globals of outrank.core_ranking are reset by the harness between files",
    ]
    run.trusted += ["harness: tools/props/e2e.py (generator, float-vs-rational decision, diagnosis, shrinker), tools/impl/impl_e2e.py "
                    "(file writer, serial pool object, recording wrapper in detail mode) and the parts of tools/impl/impl_c08_lib.py it imports",
                    "coqparse.py (reads the terms coqc prints)",
                    "pandas (DataFrame construction, astype('category'), groupby().median(), sort_values, to_csv), numpy.unique, csv.reader, "
                    "text-mode file iteration: transcribed in the layer models, held to the code by this correspondence and the layers' own",
                    "the layer models themselves are imported unchanged; their own ties to the code are the checks C16, C08, C06, C07, C05"]
