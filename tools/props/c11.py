"""C11 — feature construction is additive, row-aligned and follows its stated rule."""
from __future__ import annotations

import json
import os

import vlib

LEVEL = "proof"
RULE = ("string frames run through the real compute_expanded_multivalue_features, compute_subfeatures, "
        "compute_combined_features, enrich_with_transformations, include_noisy_features (each checked by the Coq "
        "checkers append_okb / check_against / noise_okb against the transcription) and through compute_batch_ranking "
        "for random subsets of the construction flags (feature names of BatchRankingSummary and the frame handed to "
        "mixed_rank_graph against batch_construct); non-trivial = the step appended at least one column; "
        "distinct = distinct canonical cases")
THEOREMS = ["C11_appends_firstn", "C11_append_multivalue", "C11_append_subfeatures", "C11_append_combined",
            "C11_append_transform", "C11_append_noise", "C11_compose", "C11_batch", "C11_tokens", "C11_multivalue",
            "C11_multivalue_names_distinct", "C11_multivalue_cell", "C11_sub_columns", "C11_sub_one_columns",
            "C11_sub_one", "C11_sub_two_columns", "C11_sub_two", "C11_target_control", "C11_append_checker_sound",
            "C11_rule_checker_sound", "C11_noise_checker_sound"]

# whitespace-padded tokens are tokens of their own (' a', 'a ', ' ', '\tb' are not 'a' / '' / 'b')
PADDED = [" a", "a ", " ", "\tb", " b", "b ", "a  ", "  "]
TOKENS = ["a", "ab", "abc", "b", "bc", "", "x1", "é", "1", "11", "{}", "NA", "c", "A", "ß", "\U0001d11e", "a b", "0"]
VALUES = ["", " ", "  ", "\t", "a|b", "1", "11", "a", "b", "ab", "a&b", "&", "AND", "x AND y", "é", "0", "1&1", "y", "x", "aANDb", "-", "|"]
NUMS = ["0", "1", "2", "3.5", "-1", "10", "100", "0.25", "", "7", "-2.5", "1e2", '"4"', "12", "5", "0.0"]
NAME_POOL = ["a", "b", "f", "x", "é", "0", "c d", "w|z", "n&m", "u_v", "k:"]


def names_for(rng, n, label):
    out = []
    for i in range(n):
        out.append(rng.choice(NAME_POOL) + str(i))
    pos = rng.randint(0, n)
    return out[:pos] + [label] + out[pos:], pos


def plain_column(rng, nrows):
    pool = [rng.choice(VALUES) for _ in range(rng.randint(2, 4))]
    return [rng.choice(pool) for _ in range(nrows)]


def mv_column(rng, nrows):
    toks = [rng.choice(TOKENS) for _ in range(rng.randint(2, 6))]
    if rng.random() < 0.45:
        toks += ["a", "b"] + rng.sample(PADDED, rng.randint(2, 4))
    col = []
    for _ in range(nrows):
        k = rng.choice([0, 1, 1, 2, 2, 3, 4])
        parts = [rng.choice(toks) for _ in range(k)]
        s = ""
        for q, p in enumerate(parts):
            s += p
            if q + 1 < len(parts):
                s += rng.choice([",", "-", ",", "-", ",,", "-,"][:4 if rng.random() < 0.9 else 6])
        col.append(s)
    return col


def num_column(rng, nrows):
    pool = [rng.choice(NUMS) for _ in range(rng.randint(2, 8))]
    if rng.random() < 0.5:
        return [str(rng.randint(-3, 40)) if rng.random() < 0.8 else rng.choice(pool) for _ in range(nrows)]
    return [rng.choice(pool) for _ in range(nrows)]


def make_frame(rng, nf, nrows, kinds=None):
    label = rng.choice(["label", "y"])
    names, pos = names_for(rng, nf, label)
    cols = []
    kinds = kinds or ["plain"] * nf
    for k in kinds:
        cols.append(mv_column(rng, nrows) if k == "mv" else num_column(rng, nrows) if k == "num" else plain_column(rng, nrows))
    lab = [rng.choice(["0", "1", "2"][:rng.randint(2, 3)]) for _ in range(nrows)]
    cols = cols[:pos] + [lab] + cols[pos:]
    rows = [[cols[j][i] for j in range(nf + 1)] for i in range(nrows)]
    feat_names = [n for n in names if n != label]
    return names, rows, label, feat_names


def nrows_of(rng, big=80):
    if rng.random() < 0.06:
        return rng.randint(1, 2)               # one-row and two-row frames (direct constructor calls)
    return rng.randint(5, 20) if rng.random() < 0.6 else rng.randint(20, big)


def gen_multivalue(rng):
    nf = rng.randint(2, 5)
    nmv = rng.randint(1, min(2, nf))
    kinds = ["mv"] * nmv + ["plain"] * (nf - nmv)
    rng.shuffle(kinds)
    names, rows, label, feats = make_frame(rng, nf, nrows_of(rng), kinds)
    mvnames = [f for f, k in zip(feats, kinds) if k == "mv"]
    if rng.random() < 0.15:
        mvnames.append(rng.choice(feats))          # a plain column, or a repeated one
    return {"kind": "multivalue", "names": names, "rows": rows, "label": label, "explode": ";".join(mvnames),
            "missing": rng.choice([",{}", ",{}", "", "NA,{}", "a", ",a,b", "{}"])}


def gen_ops(rng, cols, maxops=3):
    ops = []
    for _ in range(rng.randint(1, maxops)):
        a, b = rng.sample(cols, 2)
        ops.append(a + (rng.choice(["->", "<->"])) + b)
    if rng.random() < 0.2 and len(cols) >= 3:
        a, b, c = rng.sample(cols, 3)
        ops = [a + "->" + b, a + "->" + c]          # shared source: names collide when b and c share a value
    return ";".join(ops)


def gen_sub(rng):
    nf = rng.randint(2, 4)
    names, rows, label, feats = make_frame(rng, nf, nrows_of(rng, 60))
    return {"kind": "sub", "names": names, "rows": rows, "label": label, "mapping": gen_ops(rng, names)}


def gen_transform(rng):
    nf = rng.randint(2, 4)
    nnum = rng.randint(1, min(2, nf))
    kinds = ["num"] * nnum + ["plain"] * (nf - nnum)
    rng.shuffle(kinds)
    names, rows, label, feats = make_frame(rng, nf, nrows_of(rng, 60), kinds)
    numeric = [f for f, k in zip(feats, kinds) if k == "num"]
    plain = [f for f, k in zip(feats, kinds) if k != "num"]
    if plain and rng.random() < 0.35:
        # an INPUT column already named like a constructed feature ('price_tr_sqrt' next to numeric 'price'): the result has two
        # columns of that name and is judged by position (the first len(input) columns are the input, unchanged).  Direct call
        # only: compute_batch_ranking itself raises on the unchanged tree once two columns share a name (compute_cardinalities).
        clash = rng.choice(numeric) + rng.choice(["_tr_sqrt", "_tr_log(x+1)", "_tr_sqrt(abs(x))", "_tr_log(abs(x)+1)"])
        if clash not in names:
            names = [clash if n == plain[0] else n for n in names]
    return {"kind": "transform", "names": names, "rows": rows, "label": label, "numeric": numeric,
            "transformers": rng.choice(["minimal", "default", "minimal,default"])}


def gen_noise(rng):
    nf = rng.randint(1, 5)
    names, rows, label, feats = make_frame(rng, nf, nrows_of(rng, 200))
    c = {"kind": "noise", "names": names, "rows": rows, "label": label, "np_seed": rng.randint(0, 10 ** 6)}
    if rng.random() < 0.1:
        c["label"] = "absent"
    return c


def gen_combined(rng):
    nf = rng.randint(2, 5)
    names, rows, label, feats = make_frame(rng, nf, nrows_of(rng, 60))
    return {"kind": "combined", "names": names, "rows": rows, "label": label, "order": rng.randint(2, min(3, nf)),
            "cap": rng.choice([2 ** 15, 3, 1]), "is3mr": rng.random() < 0.15}


def estimate_columns(c):
    """upper estimate of the number of columns compute_batch_ranking builds for a batch case (keeps cases small)"""
    from math import comb
    names = c["names"]
    cols = {nm: [row[j] for row in c["rows"]] for j, nm in enumerate(names)}
    n = len(names)
    if c["transformers"] != "none":
        n += 10 * len(c["numeric"])
    if c["explode"] != "False":
        for f in c["explode"].split(";"):
            toks = set()
            for v in cols.get(f, []):
                toks |= set(v.replace(",", "-").split("-"))
            n += len(toks)
    if c["mapping"] != "False":
        for op in c["mapping"].split(";"):
            if "<->" in op:
                a, b = op.split("<->")
                n += len(set(cols.get(a, []))) * len(set(cols.get(b, [])))
            else:
                a, b = op.split("->")
                n += len(set(cols.get(b, [])))
    if c["order"] > 1:
        n += comb(n - 1, c["order"])
        if "3mr" in c.get("heuristic", ""):
            n += comb(n - 1, 2)
    return n


def gen_batch(rng, force_noise=False, budget=130):
    while True:
        c = gen_batch_raw(rng, force_noise)
        if estimate_columns(c) <= budget:
            return c


def gen_batch_raw(rng, force_noise=False):
    heavy = rng.random() < 0.35            # interactions and/or 3mr: keep the rest small
    nf = rng.randint(2, 3) if heavy else rng.randint(2, 4)
    kinds = [rng.choice(["plain", "mv", "num", "plain"]) for _ in range(nf)]
    names, rows, label, feats = make_frame(rng, nf, rng.randint(6, 25), kinds)
    c = {"kind": "batch", "names": names, "rows": rows, "label": label, "np_seed": rng.randint(0, 10 ** 6),
         "order": 1, "explode": "False", "mapping": "False", "transformers": "none", "noise": "False",
         "missing": rng.choice([",{}", "", "NA,{}"]),
         "numeric": [f for f, k in zip(feats, kinds) if k == "num"]}
    budget = 1 if heavy else 3
    opts = ["explode", "mapping", "transformers"]
    rng.shuffle(opts)
    for o in opts[:rng.randint(0, budget)]:
        if o == "explode":
            c["explode"] = ";".join(rng.sample(feats, rng.randint(1, min(2, len(feats)))))
        elif o == "mapping":
            c["mapping"] = gen_ops(rng, names, maxops=1 if heavy else 2)
        elif c["numeric"]:
            c["transformers"] = "minimal"
    h = rng.random()
    if heavy:
        c["order"] = rng.choice([2, 2, 3]) if nf >= 3 else 2
        if rng.random() < 0.5:
            c["heuristic"] = "MI-numba-3mr"
            c["order"] = rng.choice([1, 2])
            if c["explode"] != "False" or c["mapping"] != "False" or c["transformers"] != "none":
                if rng.random() < 0.7:
                    c["explode"], c["mapping"], c["transformers"] = "False", "False", "none"
        else:
            c["heuristic"] = rng.choice(["Constant", "MI-numba-randomized"])
    else:
        c["heuristic"] = "Constant" if h < 0.4 else ("MI-numba-randomized" if h < 0.9 else "MI-numba-3mr")
    c["noise"] = "True" if (force_noise or rng.random() < 0.4) else "False"
    if force_noise and c["heuristic"] == "Constant":
        c["heuristic"] = "MI-numba-randomized"
    return c


def round6_cases():
    return [
        {"kind": "multivalue", "names": ["m", "label"], "label": "label", "explode": "m", "missing": ",{}",
         "rows": [["a, b", "0"], [" a", "1"], ["a ", "0"], [" ", "1"], ["\tb-b", "0"], ["a,b", "1"]]},
        {"kind": "transform", "names": ["price", "price_tr_sqrt", "label"], "label": "label", "numeric": ["price"],
         "transformers": "minimal", "rows": [["1", "x", "0"], ["4", "y", "1"], ["9", "x", "0"], ["16", "z", "1"], ["25", "y", "0"]]},
        {"kind": "sub", "names": ["a", "b", "label"], "label": "label", "mapping": "a->b;a<->b",
         "rows": [["", " ", "0"], [" ", "", "1"], ["x&y", "z", "0"], ["x", "y&z", "1"], ["AND", "|", "0"], ["\t", "AND", "1"]]},
        {"kind": "multivalue", "names": ["m", "label"], "label": "label", "explode": "m", "missing": ",{}", "rows": [["a-b ,c", "0"]]},
        {"kind": "sub", "names": ["a", "b", "label"], "label": "label", "mapping": "a<->b", "rows": [["x", "y", "0"], ["x", "y", "1"]]},
    ]


def fixed_cases():
    base_rows = [["a,b-c", "11", "x", "1"], ["", "1", "x", "2.5"], ["b", "11", "y", "3"], ["a-", "", "y", "4"],
                 ["ab", "1", "x", "7"]]
    names = ["m", "b", "label", "n"]
    return [
        # the run repaired by 2e5643b: noise baseline features through compute_cardinalities
        {"kind": "batch", "names": names, "rows": base_rows, "label": "label", "order": 1, "heuristic": "MI-numba-randomized",
         "explode": "False", "mapping": "False", "transformers": "none", "noise": "True", "numeric": ["n"], "missing": ",{}",
         "np_seed": 1},
        {"kind": "multivalue", "names": names, "rows": base_rows, "label": "label", "explode": "m;b", "missing": ",{}"},
        {"kind": "sub", "names": names, "rows": base_rows, "label": "label", "mapping": "m->b;b<->label"},
        {"kind": "sub", "names": names, "rows": base_rows, "label": "label", "mapping": "m->b;m->label"},
        {"kind": "noise", "names": names, "rows": base_rows, "label": "label", "np_seed": 3},
        {"kind": "transform", "names": names, "rows": base_rows, "label": "label", "numeric": ["n"], "transformers": "default"},
    ]


def load_corpus(pid):
    d = os.path.join(vlib.VERIF, "corpus", pid)
    out = []
    if os.path.isdir(d):
        for f in sorted(os.listdir(d)):
            if f.endswith(".json"):
                out.append(json.load(open(os.path.join(d, f))))
    return out


# ---------------------------------------------------------------------------
def columns_of(case):
    n = len(case["names"])
    return [[row[j] for row in case["rows"]] for j in range(n)]


def frame_lit(names, cols):
    return "[" + "; ".join("(%s, %s)" % (vlib.strlit(nm), vlib.strlist(c)) for nm, c in zip(names, cols)) + "]"


HEADER = ("From Coq Require Import List NArith ZArith.\nFrom Outrank Require Import Features.Interact Features.Construct.\n"
          "Import ListNotations.\nOpen Scope N_scope.\n"
          "Definition nnew (df : frame) (m : option frame) : option nat := "
          "match m with Some x => Some (length x - length df)%nat | None => None end.\n"
          "Definition trace (steps : list step) (df : frame) : list (option nat) := "
          "map (fun k => option_map (@length column) (run_steps (firstn k steps) df)) (seq 1 (length steps)).")


def cfg_lit(c):
    is3mr = "3mr" in c.get("heuristic", "")
    noise = c.get("noise") == "True" and c.get("heuristic") != "Constant"
    return ("{| c_label := %s; c_transformers := %s; c_explode := %s; c_missing := split_on COMMA %s; c_submap := %s; "
            "c_io := %d%%nat; c_3mr := %s; c_noise := %s |}" % (
                vlib.strlit(c["label"]), vlib.blit(c["transformers"] != "none"),
                "None" if c["explode"] == "False" else "Some (split_on SEMI %s)" % vlib.strlit(c["explode"]),
                vlib.strlit(c["missing"]),
                "None" if c["mapping"] == "False" else "parse_submap %s" % vlib.strlit(c["mapping"]),
                c["order"], vlib.blit(is3mr), vlib.blit(noise)))


def step_kinds(c):
    is3mr = "3mr" in c.get("heuristic", "")
    noise = c.get("noise") == "True" and c.get("heuristic") != "Constant"
    ks = []
    if c["transformers"] != "none":
        ks.append("transform")
    if c["explode"] != "False":
        ks.append("multivalue")
    if c["mapping"] != "False":
        ks.append("sub")
    if c["order"] > 1:
        ks.append("combined")
    if is3mr:
        ks.append("3mr")
    if noise:
        ks.append("noise")
    return ks


def expr_for(c, r):
    df = frame_lit(c["names"], columns_of(c))
    k = c["kind"]
    if k == "batch":
        tn = r.get("transform_new") or {"names": [], "cols": []}
        T = "(fun _ : frame => [%s])" % "; ".join(
            "(%s, fun i : nat => nth i %s [])" % (vlib.strlit(nm), vlib.strlist(col)) for nm, col in zip(tn["names"], tn["cols"]))
        cap = r.get("captured")
        out = frame_lit(cap["names"], cap["cols"]) if cap else "df"
        sample = "(observed_sample %s)" % vlib.strlist(cap["names"]) if cap else "(fun _ x => x)"
        return ("let df := %s in let cfg := %s in let steps := batch_steps (fun x => x) %s (fun _ _ => []) %s "
                "cfg in (append_okb df %s, run_steps steps df, trace steps df)" % (df, cfg_lit(c), T, sample, out))
    out = frame_lit(r["names"], r["cols"])
    if k == "multivalue":
        model = "multivalue_args df %s %s" % (vlib.strlit(c["explode"]), vlib.strlit(c["missing"]))
    elif k == "sub":
        model = "subfeatures_args df %s" % vlib.strlit(c["mapping"])
    elif k == "noise":
        return "let df := %s in (noise_okb df %s %s, Some 0%%nat)" % (df, vlib.strlit(c["label"]), out)
    else:
        model = "None"
    return "let df := %s in let m := %s in (check_against df m %s, nnew df m)" % (df, model, out)


def observed_token_order(c, r):
    """per exploded feature, the order in which the implementation emitted the multi-value columns (read off the recorded frame)"""
    cap = r.get("captured")
    if not cap or c["explode"] == "False":
        return {}
    start = len(c["names"]) + len((r.get("transform_new") or {"names": []})["names"])
    seg = []
    for nm in cap["names"][start:]:
        if not nm.startswith("MULTIEX-"):
            break
        seg.append(nm)
    table = {}
    for f in c["explode"].split(";"):
        pre = "MULTIEX-" + f + "-"
        table[f] = [nm[len(pre):] for nm in seg if nm.startswith(pre) and "-" not in nm[len(pre):]]
    return table


def tokens_sorted(c, r):
    """the code emits the tokens of one feature in sorted order (b8c228d) and the model follows it; the property does not fix
    the order, so a different order is reported as a note and the order-dependent names are then not compared"""
    return all(toks == sorted(toks) for toks in observed_token_order(c, r).values())


def model_expr(c):
    """for diagnostics only: the appended columns the transcription produces"""
    df = frame_lit(c["names"], columns_of(c))
    if c["kind"] == "multivalue":
        model = "multivalue_args df %s %s" % (vlib.strlit(c["explode"]), vlib.strlit(c["missing"]))
    elif c["kind"] == "sub":
        model = "subfeatures_args df %s" % vlib.strlit(c["mapping"])
    else:
        return None
    return "let df := %s in option_map (skipn (length df)) (%s)" % (df, model)


def decode_frame(v):
    return [(vlib.from_codes(nm), [vlib.from_codes(x) for x in col]) for nm, col in v]


def canon_part(col):
    ids = {}
    return [ids.setdefault(x, len(ids)) for x in col]


MODEL_REJECTS = ("correspondence: the transcription rejects this configuration (None: missing column / malformed mapping / "
                 "no rows) but the implementation accepts it")
NONSTR = ("values preserved / indicator values are strings: a cell of an original or rule-derived column is not a str "
          "(type change hidden by str())")
NOTES = []


def compare_batch(c, r, v):
    """v = (append_ok, model frame option, trace).  Returns (clause, detail) or None."""
    append_ok, model, trace = v
    if model is None or any(t is None for t in trace):
        return (MODEL_REJECTS, "batch_construct = None, compute_batch_ranking returned a summary")
    bad = [x for x in (r.get("captured") or {}).get("nonstr_columns", [])
           if not x[1].startswith("CONTROL-") or x[1] == "CONTROL-target"]
    if bad:
        return (NONSTR, {"columns": bad[:6]})
    model = decode_frame(model[1])
    mnames = [nm for nm, _ in model]
    # without the recorded frame the orders the property leaves free (token order, sampler order) are unknown, and the
    # names of interactions built on top of them cannot be predicted
    order_known = (bool(r.get("captured")) and tokens_sorted(c, r)) or c["order"] <= 1
    if order_known and set(r["summary_names"]) != set(mnames):
        return ("feature names in BatchRankingSummary = original + constructed features",
                {"only_in_impl": sorted(set(r["summary_names"]) - set(mnames))[:8],
                 "only_in_model": sorted(set(mnames) - set(r["summary_names"]))[:8]})
    cap = r.get("captured")
    if not cap:
        return None                                           # reported by the capture obligation in check()
    if not tokens_sorted(c, r):
        NOTES.append("multi-value tokens not emitted in sorted order (regression of b8c228d?): %r" % (observed_token_order(c, r),))
    if not append_ok or not cap["index_ok"] or cap["nrows"] != len(c["rows"]):
        return ("every construction step only appends columns (originals, values and row order preserved; one value per row)",
                "frame handed to mixed_rank_graph: nrows=%d index_ok=%s append_okb=%s" % (cap["nrows"], cap["index_ok"], append_ok))
    if not order_known:
        return None         # interaction names depend on an emission order the property leaves free and the model no longer predicts
    if sorted(cap["names"]) != sorted(mnames):
        return ("constructed feature names", {"impl": cap["names"][:40], "model": mnames[:40]})
    bounds = [len(c["names"])] + [t[1] for t in trace]
    icols = list(zip(cap["names"], cap["cols"]))
    for kind, lo, hi in zip(step_kinds(c), bounds, bounds[1:]):
        im = dict(icols[lo:hi])
        mm = dict(model[lo:hi])
        if set(im) != set(mm):
            return ("step %s appends the columns of the transcription, after the earlier steps" % kind,
                    {"impl": sorted(im)[:10], "model": sorted(mm)[:10]})
        for nm in mm:
            if kind in ("combined", "3mr"):
                same = canon_part(im[nm]) == canon_part(mm[nm])
            elif kind == "noise":
                same = len(im[nm]) == len(mm[nm]) and (nm != "CONTROL-target" or im[nm] == mm[nm])
            else:
                same = im[nm] == mm[nm]
            if not same:
                return ("step %s: column %r differs from its rule" % (kind, nm), {"impl": im[nm][:12], "model": mm[nm][:12]})
    return None


def evaluate_units(cases):
    res = vlib.run_impl("impl_c11.py", {"cases": cases})["results"]
    exprs, idx = [], []
    verdicts = [None] * len(cases)
    for i, (c, r) in enumerate(zip(cases, res)):
        if not r["ok"]:
            verdicts[i] = {"fail": None, "impl": r, "raised": True}
            exprs.append("let df := %s in let m := %s in ((true, true), nnew df m)" % (
                frame_lit(c["names"], columns_of(c)),
                {"multivalue": "multivalue_args df %s %s" % (vlib.strlit(c.get("explode", "")), vlib.strlit(c.get("missing", ""))),
                 "sub": "subfeatures_args df %s" % vlib.strlit(c.get("mapping", ""))}.get(c["kind"], "Some df")))
            idx.append(i)
            continue
        exprs.append(expr_for(c, r))
        idx.append(i)
    vals = vlib.coq_eval("C11", HEADER, exprs, shard=10) if exprs else []
    for i, v in zip(idx, vals):
        c, r = cases[i], res[i]
        if not r["ok"]:
            model_defined = v[2] is not None
            fail = None
            if model_defined:       # a valid configuration must not raise
                fail = ("compute_batch_ranking returns a BatchRankingSummary whose feature names can be read (valid flags)"
                        if c["kind"] == "batch" else "the constructor returns a frame (valid configuration)", r["error"])
            verdicts[i] = {"fail": fail, "impl": r, "raised": True, "n_new": 0}
            continue
        fail = None
        if c["kind"] == "batch":
            fail = compare_batch(c, r, v)
            n_new = (len(r["captured"]["names"]) - len(c["names"])) if r.get("captured") else len(r["summary_names"]) - len(c["names"])
        else:
            append_ok, rule_ok, nmodel = v
            nd = len(c["names"])
            n_new = len(r["names"]) - nd
            badtypes = [x for x in r.get("nonstr_columns", [])
                        if x[0] < nd or c["kind"] != "noise" or x[1] == "CONTROL-target"]
            if nmodel is None and c["kind"] in ("multivalue", "sub"):
                fail = (MODEL_REJECTS, {"names": r["names"][nd:nd + 8]})
            elif badtypes:
                fail = (NONSTR, {"columns": badtypes[:6]})
            elif not r["index_ok"] or r["nrows"] != len(c["rows"]):
                fail = ("row order preserved: the returned frame keeps the input's rows and row labels",
                        "nrows=%d (input %d) index_ok=%s" % (r["nrows"], len(c["rows"]), r["index_ok"]))
            elif not append_ok:
                fail = ("only appends columns: originals and their values preserved, one value per row in every new column",
                        {"impl_names": r["names"][:20], "lengths": [len(x) for x in r["cols"]][:20]})
            elif not rule_ok:
                clause = {"multivalue": 'a multi-value indicator is "1" exactly on rows whose delimited value contains the token '
                                        '(one column per non-missing token)',
                          "sub": "one-sided: joined source value exactly where the selector has the value; two-sided: indicator of the pair",
                          "noise": "noise controls: expected control columns, one value per row; the target control replicates the label",
                          }.get(c["kind"], "rule")
                fail = (clause, {"impl_new": list(zip(r["names"][nd:nd + 8], [x[:10] for x in r["cols"][nd:nd + 8]]))})
        verdicts[i] = {"fail": fail, "impl": r, "coq": v, "n_new": n_new,
                       "capture_missing": c["kind"] == "batch" and not r.get("captured")}
    return verdicts


def units_of(case):
    if case["kind"] == "history":
        out = []
        for b, u in enumerate(case["units"]):
            u = dict(u)
            if b > 0:
                u["keep_state"] = True
            out.append(u)
        return out
    return [case]


def evaluate(cases):
    """cases are single calls or histories ({"kind": "history", "units": [...]}: consecutive calls in one process,
    module state kept in between).  Per case the first failing unit decides."""
    flat, owner = [], []
    for i, c in enumerate(cases):
        for u in units_of(c):
            flat.append(u)
            owner.append(i)
    uv = evaluate_units(flat)
    verdicts = [{"fail": None, "units": [], "n_new": 0, "raised": False} for _ in cases]
    for u, o, v in zip(flat, owner, uv):
        d = verdicts[o]
        b = len(d["units"])
        d["units"].append((u, v))
        d["n_new"] += max(0, v.get("n_new", 0))
        d["raised"] = d["raised"] or bool(v.get("raised"))
        d["capture_missing"] = d.get("capture_missing", False) or bool(v.get("capture_missing"))
        d["both_reject"] = d.get("both_reject", 0) + (1 if v.get("raised") and not v["fail"] else 0)
        if v["fail"] and u.get("observe_only"):
            d.setdefault("observations", []).append((u["kind"], v["fail"][0]))
        elif v["fail"] and not d["fail"]:
            d.update(fail=v["fail"], batch=b, impl=v["impl"], coq=v.get("coq"))
    for d in verdicts:
        d.setdefault("impl", d["units"][-1][1]["impl"])
    return verdicts


def resample_rows(rng, base_rows, nrows):
    """fresh rows over the same columns: every cell drawn from its column's values in the base batch (keeps numeric columns
    numeric and multi-value columns multi-valued), so later batches differ in rows, values per row and row count"""
    ncol = len(base_rows[0])
    cols = [[r[j] for r in base_rows] for j in range(ncol)]
    return [[rng.choice(cols[j]) for j in range(ncol)] for _ in range(nrows)]


def gen_history(rng):
    """2..3 consecutive calls with the same configuration in one process, module state NOT cleared in between"""
    g = rng.choice([gen_batch, gen_batch, gen_batch, gen_multivalue, gen_sub, gen_combined])
    for _ in range(50):
        c0 = g(rng)
        units = [c0]
        for _ in range(rng.randint(1, 2)):
            u = dict(c0, rows=resample_rows(rng, c0["rows"], rng.randint(3, 25)), np_seed=rng.randint(0, 10 ** 6))
            units.append(u)
        if g is not gen_batch or all(estimate_columns(u) <= 130 for u in units):
            return {"kind": "history", "units": units}
    return {"kind": "history", "units": [c0]}


def gen_index_probe(rng):
    """a direct constructor call on a frame whose row labels are not 0..n-1 (filtered / shuffled rows).  compute_batch_ranking
    never builds such a frame; the outcome is recorded per constructor as an observation (never a violation of C11)"""
    c = rng.choice([gen_multivalue, gen_sub, gen_transform, gen_noise, gen_combined])(rng)
    n = len(c["rows"])
    if rng.random() < 0.5:
        idx = list(range(n))
        rng.shuffle(idx)
    else:
        idx = sorted(rng.sample(range(2 * n + 3), n))
    return dict(c, index=idx, observe_only=True)


def gen_invalid(rng):
    """configurations the transcription rejects (None): both sides must reject"""
    if rng.random() < 0.5:
        c = gen_sub(rng)
        a, b = rng.sample(c["names"], 2)
        c["mapping"] = rng.choice([a + "->" + b + "->" + a, a + "<->" + b + "<->" + a, a + b, a + "->nosuchcolumn",
                                   "nosuchcolumn<->" + b, a + "->" + a, a + "<->" + b + "->" + a, ""])
    else:
        c = gen_multivalue(rng)
        c["explode"] = rng.choice([c["explode"] + ";nosuchcolumn", "nosuchcolumn", ""])
    return c


def shrinks(c, batch=0):
    if c["kind"] == "history":
        units = c["units"][:batch + 1]
        out = [dict(c, units=units)]
        for k in (2, 4, 8):
            out.append(dict(c, units=[dict(u, rows=u["rows"][:k]) for u in units]))
            out.append(dict(c, units=[dict(u, rows=u["rows"][:k]) for u in units[:-1]] + [units[-1]]))
        return out
    out = []
    n = len(c["rows"])
    for k in (2, 3, 5, max(5, n // 2)):
        if k < n:
            out.append(dict(c, rows=c["rows"][:k]))
            out.append(dict(c, rows=c["rows"][-k:]))
    if c["kind"] == "sub" and ";" in c.get("mapping", ""):
        for part in c["mapping"].split(";"):
            out.append(dict(c, mapping=part))
            out.append(dict(c, mapping=part, rows=c["rows"][:4]))
    if c["kind"] == "multivalue" and ";" in c.get("explode", ""):
        for part in c["explode"].split(";"):
            out.append(dict(c, explode=part))
    if c["kind"] == "batch":
        for key, off in (("explode", "False"), ("mapping", "False"), ("transformers", "none"), ("noise", "False"), ("order", 1)):
            if c.get(key) != off:
                out.append(dict(c, **{key: off}))
                out.append(dict(c, **{key: off}, rows=c["rows"][:6]))
    return out


def check(run, replay):
    ok, log = vlib.build(["Features/Construct.vo"])
    run.oblige("build:model Features/Construct.vo", ok, "" if ok else log[-1500:])
    if not ok:
        raise vlib.Broken("build:Features/Construct.vo", log)
    vlib.standard_proof_phase(run, ["Props/C11.vo"], "Outrank.Props.C11", THEOREMS)

    if replay is not None:
        cases = [replay["case"]]
    else:
        cases = load_corpus("C11") + fixed_cases() + round6_cases()
        q = run.tier == "quick"
        plan = [(gen_multivalue, 60 if q else 1000), (gen_sub, 60 if q else 1000), (gen_transform, 12 if q else 150),
                (gen_noise, 15 if q else 200), (gen_combined, 12 if q else 150), (gen_batch, 50 if q else 800)]
        for g, n in plan:
            for _ in range(n):
                cases.append(g(run.rng))
        for _ in range(3 if q else 20):
            cases.append(gen_batch(run.rng, force_noise=True))
        for _ in range(30 if q else 300):
            cases.append(gen_history(run.rng))
        for _ in range(20 if q else 150):
            cases.append(gen_index_probe(run.rng))
        for _ in range(12 if q else 100):
            cases.append(gen_invalid(run.rng))
    verdicts = evaluate(cases)

    hist = {"kind": {}, "rows": {}, "raised": 0, "invalid_config_skipped": 0, "appended_columns": 0, "batch_flags": {},
            "batch_frame_captured": 0, "histories": 0, "history_units": 0}
    failing = []
    obs_index = {}
    missing_capture = []
    for c, v in zip(cases, verdicts):
        if c["kind"] == "history":
            hist["histories"] += 1
            hist["history_units"] += len(c["units"])
        for u, w in v["units"]:
            key = u["kind"] + ("(history)" if u.get("keep_state") else "")
            hist["kind"][key] = hist["kind"].get(key, 0) + 1
            b = min(len(u["rows"]) // 20 * 20, 200)
            hist["rows"]["%d+" % b] = hist["rows"].get("%d+" % b, 0) + 1
            if w.get("raised"):
                hist["raised"] += 1
                if not w["fail"]:
                    hist["invalid_config_skipped"] += 1
            if u["kind"] == "batch":
                key = "+".join(step_kinds(u)) or "none"
                hist["batch_flags"][key] = hist["batch_flags"].get(key, 0) + 1
                if w["impl"].get("captured"):
                    hist["batch_frame_captured"] += 1
        hist["appended_columns"] += max(0, v.get("n_new", 0))
        hist["both_sides_reject_invalid_configuration"] = hist.get("both_sides_reject_invalid_configuration", 0) + v.get("both_reject", 0)
        if c.get("observe_only"):
            key = c["kind"]
            o = obs_index.setdefault(key, {"probes": 0, "aligned_and_rule_ok": 0, "outcomes": {}})
            o["probes"] += 1
            if v.get("observations"):
                for _, clause in v["observations"]:
                    o["outcomes"][clause[:90]] = o["outcomes"].get(clause[:90], 0) + 1
            elif v["impl"].get("ok"):
                o["aligned_and_rule_ok"] += 1
            else:
                o["outcomes"]["raises"] = o["outcomes"].get("raises", 0) + 1
        if v.get("capture_missing"):
            missing_capture.append(c)
        run.count_case(c, v.get("n_new", 0) > 0)
        if v["fail"]:
            failing.append((c, v))
    run.oblige("capture: the frame handed to mixed_rank_graph was recorded for every batch case", not missing_capture,
               "%d batch cases without a recorded frame" % len(missing_capture))
    if missing_capture:
        run.violation("broken-obligation", "capture:mixed_rank_graph frame (observation point of the batch family is gone)",
                      case=None, found_input=False, extra={"cases_without_capture": len(missing_capture)})
    run.cov["non_default_row_index_observations"] = obs_index
    if NOTES:
        run.notes.extend(sorted(set(NOTES))[:5])
        run.cov["multivalue_order_notes"] = len(NOTES)
        print("NOTE property=C11 multi-value tokens were not emitted in sorted order in %d batch cases "
              "(the property does not fix the order; order-dependent interaction names were not compared)" % len(NOTES))
    run.oblige("correspondence:constructors and compute_batch_ranking against the transcription (Coq checkers)",
               not failing, "%d of %d cases rejected" % (len(failing), len(cases)))

    if failing:
        todo = failing[:4]
        cand, owner = [], []
        if replay is None:
            for k, (c, v) in enumerate(todo):
                for s in shrinks(c, v.get("batch", 0))[:14]:
                    cand.append(s)
                    owner.append(k)
        sv = []
        if cand:
            try:
                sv = evaluate(cand)
            except vlib.Broken:
                sv = []
        diag = []
        for k, (c, v) in enumerate(todo):
            best, bestv = c, v
            for s, o, w in zip(cand, owner, sv):
                if o == k and w and w["fail"] and w["fail"][0] == v["fail"][0] and len(json.dumps(s)) < len(json.dumps(best)):
                    best, bestv = s, w
            diag.append((best, bestv))
        # model output for the message (diagnostics only)
        def failing_unit(b, bv):
            return units_of(b)[min(bv.get("batch", 0), len(units_of(b)) - 1)]
        mexprs = [model_expr(failing_unit(b, bv)) for b, bv in diag]
        mvals = {}
        try:
            sel = [(j, e) for j, e in enumerate(mexprs) if e]
            if sel:
                got = vlib.coq_eval("C11", HEADER, [e for _, e in sel], shard=10)
                for (j, _), g in zip(sel, got):
                    mvals[j] = None if g is None else [(nm, col[:12]) for nm, col in decode_frame(g[1])][:12]
        except vlib.Broken:
            pass
        for j, (best, bestv) in enumerate(diag):
            r = bestv["impl"]
            fu = failing_unit(best, bestv)
            run.violation("counterexample", "C11 checkers on the frame returned by %s%s" % (
                fu["kind"], " (call %d of a history in one process)" % (bestv.get("batch", 0) + 1) if best["kind"] == "history" else ""),
                          case=best,
                          impl={"names": r.get("names") or (r.get("captured") or {}).get("names") or r.get("summary_names"),
                                "error": r.get("error"), "detail": bestv["fail"][1]},
                          model={"appended_by_transcription": mvals.get(j), "coq": repr(bestv.get("coq"))[:300]},
                          clause=bestv["fail"][0])
    run.cov["input_distribution"] = hist
    run.cov["exhaustive"] = False
    run.samples = cases[:2]
    run.assumptions += [
        "frames have string cells, distinct column names and a RangeIndex (what compute_batch_ranking builds from parsed lines)",
        "random noise columns (and CONTROL-volume, constant0, int-sequence) are compared by name and length only; "
        "CONTROL-target exactly",
        "appended columns are compared as a name -> column map after the unchanged prefix (set-iteration order is free)",
        "module state (every GLOBAL_* container, IGNORED_VALUES) is cleared before each case and kept between the calls of a "
        "history case",
        "configurations naming a missing column / malformed mappings (the transcription returns None, the code raises) are not compared",
        "interaction columns inside compute_batch_ranking are compared by the partition they induce (the model runs with the "
        "identity as hash); the sampler cap is non-binding in batch cases and the order in which the sampler returns the "
        "candidates (history dependent) is read off the recorded frame, like the multi-value token order",
        "FeatureTransformerGeneric is an oracle here (what it appends is read from a direct call and fed to the model); "
        "its formulas are C12's",
    ]
    run.trusted += ["harness: tools/props/c11.py (generators, batch segment comparison), tools/impl/impl_c11.py "
                    "(drives the real code; wraps mixed_rank_graph to record the frame it receives)",
                    "coqparse.py (reads the terms coqc prints)"]
