"""C07 — capped combination sampling is fair over any sequence of batches."""
from __future__ import annotations

import itertools
import json
import os

import vlib
import sys
sys.path.insert(0, os.path.dirname(os.path.dirname(os.path.abspath(__file__))))
import translate_c07  # noqa: E402

LEVEL = "proof"
RULE = ("op histories (candidate list, cap) against prior_combinations_sample with the module-global counter reset "
        "per history; 70% one stable duplicate-free list with changing caps, 30% changing lists incl. duplicates; "
        "non-trivial = some cap strictly between 0 and the number of candidates; distinct = distinct canonical histories")
THEOREMS = ["C07_step_valid", "C07_checker_sound", "C07_subset", "C07_exact", "C07_least_first", "C07_fair",
            "C07_fair_interleaved", "C07_shared_counter_refuted",
            "C07_counts_are_selections", "C07_model_fair", "C07_checked_history_fair",
            "C07_selection_history_fair", "C07_report_sound", "C07_source_constants", "C07_source_constants_matter"]
NAMES = ["a", "b", "f1", "f2", "label", "x AND y", "u", "v9", "é", "", "0", "1", "f AND_REL g"]


def split_family(rng):
    """Distinct tuples whose constituents concatenate to the same text under common joiners
    (interaction features are themselves named "a AND b", so such names are ordinary pipeline input)."""
    sep = rng.choice([" AND ", ",", "', '", " ", "-", ""])
    toks = [rng.choice(["a", "b", "c", "x", "label", "f1", "0"]) for _ in range(rng.randint(3, 5))]
    out = []
    for i in range(1, len(toks)):
        t = (sep.join(toks[:i]), sep.join(toks[i:]))
        if t not in out:
            out.append(t)
    return out


def gen_case(rng, stable):
    nk = rng.randint(1, 25)
    arity = rng.randint(2, 4)
    pool = []
    seen = set()
    if rng.random() < 0.25:
        arity = 2
        for t in split_family(rng):
            if t not in seen and len(pool) < nk:
                seen.add(t)
                pool.append(t)
    while len(pool) < nk:
        t = tuple(rng.choice(NAMES) + str(rng.randint(0, 40)) for _ in range(arity))
        if t not in seen:
            seen.add(t)
            pool.append(t)
    nops = rng.randint(1, 30)
    ops = []
    L0 = list(pool)
    for _ in range(nops):
        if stable:
            L = L0
        else:
            k = rng.randint(0, nk)
            L = [rng.choice(pool) for _ in range(k)] if rng.random() < 0.5 else rng.sample(pool, k)
        mode = rng.random()
        if mode < 0.6:
            cap = rng.randint(0, max(0, len(L)))
        elif mode < 0.8:
            cap = rng.randint(-2, 30)
        else:
            cap = rng.choice([0, 1, len(L), len(L) + 1, len(L) - 1, 10 ** 6])
        ops.append([[list(t) for t in L], cap])
    return {"ops": ops, "stable": stable}


def exhaustive_cases():
    out = []
    for nl in range(1, 5):
        L = [[("k%d" % i), "t"] for i in range(nl)]
        for ln in range(1, 5):
            for caps in itertools.product(range(-2, 6), repeat=ln):
                out.append({"ops": [[L, c] for c in caps], "stable": True})
    return out


def gen_pipe_case(rng):
    ncol = rng.randint(2, 6)
    names = rng.sample(["f%d" % i for i in range(12)] + ["é", "a b", "x-y", "n0"], ncol)
    mode = rng.choice(["Constant", "max-value-coverage", "MI-numba-3mr"])
    if mode == "MI-numba-3mr" and ncol >= 3 and rng.random() < 0.7:
        names[-1] = names[0] + " AND_REL " + names[1]
    label = rng.choice([n for n in names if " AND_REL " not in n])
    target_only = rng.choice(["True", "False"])
    ncand_max = ncol * (ncol + 1) // 2 + ncol
    caps = [rng.randint(0, ncand_max + 2) for _ in range(rng.randint(1, 8))]
    case = {"columns": names, "label": label, "heuristic": mode, "target_only": target_only, "caps": caps,
            "nrows": 12, "seed": rng.randint(0, 10 ** 6)}
    if rng.random() < 0.3 and "reference" not in case:
        # interaction features are built (and sampled, on their own storage since fix 45d13a2) before the pairs
        # are sampled, exactly as compute_batch_ranking does; the cap is chosen to bind on the pairs
        case["interaction_order"] = 2
        # here the ' AND_REL ' columns are produced by compute_combined_features itself; a base column that already
        # carries such a name would collide with the generated one (duplicate column label: not a pipeline input)
        names = [n if " AND_REL " not in n else "r%d" % i for i, n in enumerate(names)]
        case["columns"] = names
        case["heuristic"] = rng.choice(["MI-numba-3mr", "max-value-coverage", "Constant"])
        nf = len(names) - 1
        lo = nf * (nf - 1) // 2
        case["caps"] = [rng.randint(max(1, lo), lo + nf + 1) for _ in range(rng.randint(3, 8))]
        if rng.random() < 0.5:
            case["caps"] = [case["caps"][0]] * len(case["caps"])
    elif rng.random() < 0.25:
        # prior heuristic with a reference model (rarely used configuration): some columns are reference-model features
        case["heuristic"] = rng.choice(["surrogate-SGD", "surrogate-SVM", "surrogate-SGD-RP"])
        others = [n for n in names if n != label and " AND_REL " not in n]
        ref = rng.sample(others, min(len(others), rng.randint(1, 2))) if others else []
        if len(ref) == 2 and rng.random() < 0.5:
            ref.append(",".join(ref))
        case["reference"] = ref
        case["caps"] = [rng.randint(1, 4) for _ in range(rng.randint(2, 8))]
    return case


def gen_feat_case(rng):
    """The interaction-feature call site (compute_combined_features) over batches with the same columns."""
    nf = rng.randint(3, 6)
    feats = rng.sample(["f%d" % i for i in range(12)] + ["é", "a b", "x-y", "n0"], nf)
    cols = list(feats)
    cols.insert(rng.randint(0, nf), "label")
    sites = rng.choice([["and"], ["and"], ["rel"], ["and", "rel"]])
    order = rng.choice([2, 2, 3]) if nf > 3 else 2
    ncand = max(len(list(itertools.combinations(feats, order))), len(list(itertools.combinations(feats, 2))))
    nb = rng.randint(3, 9)
    if rng.random() < 0.5:
        caps = [rng.randint(1, max(1, ncand - 1))] * nb
    else:
        caps = [rng.randint(0, ncand + 1) for _ in range(nb)]
    return {"kind": "feat", "columns": cols, "label": "label", "order": order, "sites": sites,
            "heuristic": "MI-numba-3mr" if "rel" in sites else rng.choice(["MI-numba-randomized", "Constant", "AMI"]),
            "caps": caps, "nrows": 6, "seed": rng.randint(0, 10 ** 6), "interleave_pairs": rng.random() < 0.4}


def feat_exprs(case, res):
    """One Coq expression per call site: every batch's selection (read off the appended columns) judged against the counts
    the selections themselves imply."""
    feats = [c for c in case["columns"] if c != case["label"]]
    out = []
    for site in case["sites"]:
        join = " AND_REL " if site == "rel" else " AND "
        cands = list(itertools.combinations(feats, 2 if site == "rel" else case["order"]))
        ids = {t: i for i, t in enumerate(cands)}
        sels, caps = [], []
        for b in res["obs"]:
            sel = []
            for name in b[site]["new"]:
                t = tuple(name.split(join))
                if t not in ids:
                    ids[t] = len(ids)
                sel.append(ids[t])
            sels.append(sel)
            caps.append(case["caps"][len(caps)])       # the cap given, not what the call left in args
        L = vlib.nlist(range(len(cands)))
        out.append((site, "let L := %s%%nat in let ops := map (fun c => (L, c)) %s in let sels := [%s]%%nat in "
                    "let obs := derived_obs [] sels in (steps_ok [] ops obs, Nat.eqb (length obs) (length ops), "
                    "fairb L (last (map snd obs) []))" % (L, vlib.zlist(caps), "; ".join(vlib.nlist(x) for x in sels)),
                    len(cands)))
    return out


def gen_stream_case(rng):
    """The real ranking task on a small file: per-batch evaluated pairs against combination_estimation_counts.json."""
    nf = rng.randint(3, 5)
    B = rng.randint(5, 8)
    return {"kind": "stream", "cols": ["f%d" % i for i in range(1, nf + 1)] + ["label"], "B": B,
            "nrows": B * rng.randint(3, 8), "cap": rng.randint(2, 6), "order": rng.choice([1, 2, 2, 3]),
            # (3mr heuristics are left to the pipe/feat families: with a binding cap the 3MR post-processing of the task has
            # no relevance scores to work with, which is outside this property)
            "heuristic": rng.choice(["Constant", "MI-numba-randomized"]),
            "tro": rng.choice(["False", "False", "True"]), "seed": rng.randint(0, 10 ** 6)}


def gen_stream_tail_case(rng, used):
    """One full batch plus a final partial batch: used by the task iff it has more than 1024 rows; its selections count."""
    nf = rng.randint(3, 4)
    B = rng.randint(1065, 1100)          # larger than the tail, so the remainder really is a partial batch
    tail = rng.randint(1025, 1060) if used else rng.randint(900, 1024)
    return {"kind": "stream", "cols": ["f%d" % i for i in range(1, nf + 1)] + ["label"], "B": B, "nrows": B + tail,
            "cap": rng.randint(2, 4), "order": rng.choice([1, 2]), "heuristic": rng.choice(["Constant", "MI-numba-randomized"]),
            "tro": rng.choice(["False", "True"]), "seed": rng.randint(0, 10 ** 6), "tail_used": used}


def stream_expr(case, res):
    import ast
    per_eval = 1 if case["heuristic"] == "Constant" else 2
    ids = {}

    def kid(u):
        if u not in ids:
            ids[u] = len(ids)
        return ids[u]
    sels = []
    for b in res["batches"]:
        cnt = {}
        for a, c in b:
            cnt[frozenset((a, c))] = cnt.get(frozenset((a, c)), 0) + 1
        sel = []
        for u, n in cnt.items():
            if n % per_eval:
                return None, "rows of pair %s do not come in both orientations" % sorted(u)
            sel += [kid(u)] * (n // per_eval)
        sels.append(sel)
    rep = {}
    for k, v in res["report"].items():
        try:
            t = ast.literal_eval(k)
            u = frozenset(t)
        except Exception:
            return None, "report key %r is not a combination" % (k,)
        rep[kid(u)] = rep.get(kid(u), 0) + int(v)
    return ("reportb [%s]%%nat [%s]%%nat" % ("; ".join(vlib.nlist(x) for x in sels),
                                             "; ".join("(%d, %d)" % kv for kv in sorted(rep.items()))),
            {"selected_per_pair": {",".join(sorted(u)): sum(s.count(i) for s in sels) for u, i in ids.items()},
             "reported": res["report"]}), None


def pipe_encode(case, res):
    """Evaluated pairs are read off the emitted rows (both orientations per evaluated pair, once for Constant)."""
    ids = {}

    def kid(t):
        t = tuple(t)
        if t not in ids:
            ids[t] = len(ids)
        return ids[t]
    ops, obs = [], []
    per_eval = 1 if case["heuristic"] == "Constant" else 2
    for o in res["obs"]:
        L = [tuple(c) for c in o["cands"]]
        by_unordered = {}
        for c in L:
            by_unordered.setdefault(frozenset(c), c)
        cnt = {}
        for a, b, _s in o["rows"]:
            cnt[frozenset((a, b))] = cnt.get(frozenset((a, b)), 0) + 1
        sel = []
        for u, n in cnt.items():
            if n % per_eval:
                return None, None, "rows of pair %s do not come in both orientations" % sorted(u)
            key = by_unordered.get(u, tuple(sorted(u)) if len(u) == 2 else tuple(u) * 2)
            sel += [kid(key)] * (n // per_eval)
        # the cap the batch was GIVEN, clamped to MAX_FEATURES_3MR = 10^4 for 3mr heuristics (the documented clamp, C06_3mr_clamp);
        # not the value found in args afterwards: a call site that raises the cap must not thereby legitimise what it evaluated
        given = case["caps"][len(ops)]
        cap_eff = min(given, 10 ** 4) if "3mr" in case["heuristic"] else given
        ops.append("(%s%%nat, %s%%Z)" % (vlib.nlist([kid(c) for c in L]), vlib.zlit(cap_eff)))
        cn = "[" + "; ".join("(%d, %d)" % (kid(k), v) for k, v in o["counter"]) + "]"
        obs.append("(%s%%nat, %s%%nat)" % (vlib.nlist(sel), cn))
    return "[" + "; ".join(ops) + "]", "[" + "; ".join(obs) + "]", None


def py_slice_len(n, cap):
    return max(0, n + cap) if cap < 0 else min(n, cap)


def py_valid_step(st, L, cap, sel, st2):
    """Python mirror of Sampler.valid_stepb on integer keys (used for lists too long for vm_compute; it is run on
    every small history as well and must agree there with the verdict computed in Coq).  Returns None or the clause."""
    from collections import Counter
    cl, cs = Counter(L), Counter(sel)
    if any(cs[k] > cl.get(k, 0) for k in cs):
        return "selected combinations are not a sub-multiset of the candidates"
    if len(sel) != py_slice_len(len(L), cap):
        return "number of selected combinations %d != len(candidates[:cap]) = %d" % (len(sel), py_slice_len(len(L), cap))
    rest = [st.get(b, 0) for b in cl if cs.get(b, 0) < cl[b]]
    if sel and rest and max(st.get(a, 0) for a in sel) > min(rest):
        return "a selected combination had been evaluated more often than an unselected candidate"
    for k in set(st) | set(st2) | set(cl) | set(cs):
        if st2.get(k, 0) != st.get(k, 0) + cs.get(k, 0):
            return "reported count of a combination != previous count + times selected"
    return None


def big_cases(rng, tier):
    """Scale families: more than 2^16 candidates in one list; more than 2^17 tracked combinations over two
    alternating lists.  Judged by py_valid_step."""
    n = 70000 + rng.randint(0, 3000)
    out = [{"lists": {"x": n}, "ops": [["x", 2 ** 15], ["x", 2 ** 15], ["x", 2 ** 15], ["x", n - 1 - rng.randint(0, 5)], ["x", 300]]},
           {"lists": {"x": 68000 + rng.randint(0, 999), "y": 69000 + rng.randint(0, 999)},
            "ops": [["x", 300], ["y", 300], ["x", 300], ["y", 2 ** 15], ["x", 300], ["x", 300]]}]
    if tier == "thorough":
        out.append({"lists": {"x": 140000, "y": 5000}, "ops": [["x", 70000], ["y", 10], ["x", 70000], ["x", 2 ** 15], ["y", 5000]]})
        out.append({"lists": {"x": 4096 + 7}, "ops": [["x", 1000]] * 6})
    return out


def load_corpus(pid):
    d = os.path.join(vlib.VERIF, "corpus", pid)
    out = []
    if os.path.isdir(d):
        for f in sorted(os.listdir(d)):
            if f.endswith(".json"):
                out.append(json.load(open(os.path.join(d, f))))
    return out


def encode(case, res):
    """Assign ids to tuples; returns (ops_coq, obs_coq, idmap) or None when impl raised."""
    ids = {}

    def kid(t):
        t = tuple(t)
        if t not in ids:
            ids[t] = len(ids)
        return ids[t]
    ops = []
    for L, cap in case["ops"]:
        ops.append("(%s%%nat, %s%%Z)" % (vlib.nlist([kid(t) for t in L]), vlib.zlit(cap)))
    obs = []
    for o in res["obs"]:
        sel = vlib.nlist([kid(t) for t in o["sel"]])
        cnt = "[" + "; ".join("(%d, %d)" % (kid(k), v) for k, v in o["counter"]) + "]"
        obs.append("(%s%%nat, %s%%nat)" % (sel, cnt))
    return "[" + "; ".join(ops) + "]", "[" + "; ".join(obs) + "]", ids


def source_constants(run, proofs_ok):
    """The constants of prior_combinations_sample read from the source; a proof obligation `pstep <them> = step` is generated
    and checked by coqc.  Unrecognised source shape: no obligation (the correspondence alone holds the function), said so in
    the evidence.  Recognised shape with other constants: the obligation fails; a history the checker rejects is computed in the
    model and reported unless the correspondence below finds an implementation history itself."""
    try:
        k = translate_c07.extract(vlib.REPO)
    except (translate_c07.TranslateError, OSError, SyntaxError) as e:
        run.notes.append("source shape of prior_combinations_sample not recognised by tools/translate_c07.py (%s): its constants are "
                         "held by the correspondence only in this run" % e)
        run.cov["source_constants"] = None
        return
    run.cov["source_constants"] = k
    if not proofs_ok:
        return
    hdr = ("From Coq Require Import List ZArith.\nFrom Outrank Require Import Pipeline.Sampler Props.C07.\nImport ListNotations.\n"
           "Open Scope Z_scope.\n")
    goal = ("Goal forall s L cap, pstep %s (%d) %d %d s L cap = step s L cap.\nProof. exact C07_source_constants. Qed.\n"
            % ("true" if k["rev"] else "false", k["off"], k["inc"], k["init"]))
    name = ("translator:constants of prior_combinations_sample read from core_ranking.py (sort ascending, slice [:cap+0], += 1, "
            "new = 0): generated obligation `pstep rev off inc init = step` checked by coqc")
    try:
        vlib.coq_eval("C07src", hdr + goal, ["true"])
        run.oblige(name, True)
    except vlib.Broken as e:
        run.oblige(name, False, "source constants %r\n%s" % (k, str(e)[-600:]))
        # a history the checker rejects, computed in the model with the source's constants
        wit = None
        try:
            ops = "(map (fun c => ([0; 1; 2]%nat, c)) [2; 2; 2; 1; 3])"
            v = vlib.coq_eval("C07srcw", hdr, ["steps_ok [] %s (prun %s (%d) %d %d [] %s)"
                                               % (ops, "true" if k["rev"] else "false", k["off"], k["inc"], k["init"], ops)])[0]
            if not all(v):
                wit = {"ops": [[[["k0", "t"], ["k1", "t"], ["k2", "t"]], c] for c in [2, 2, 2, 1, 3][:list(v).index(False) + 1]],
                       "stable": True}
        except vlib.Broken:
            pass
        run.pending_source = (k, wit)


def check(run, replay):
    model_ok, log = vlib.build(["Pipeline/Sampler.vo"])
    run.oblige("build:model Pipeline/Sampler.vo", model_ok, "" if model_ok else log[-1500:])
    if not model_ok:
        raise vlib.Broken("build:Pipeline/Sampler.vo", log)
    proofs_ok = vlib.standard_proof_phase(run, ["Props/C07.vo"], "Outrank.Props.C07", THEOREMS)
    if proofs_ok and run.tier == "thorough" and replay is None:
        vlib.coqchk(run, "Outrank.Props.C07")

    source_constants(run, proofs_ok)

    if replay is not None:
        cases = [replay["case"]]
    else:
        cases = load_corpus("C07")
        n = 400 if run.tier == "quick" else 3000
        for i in range(n):
            cases.append(gen_case(run.rng, stable=(run.rng.random() < 0.7)))
        if run.tier == "thorough":
            cases.extend(exhaustive_cases())
    if replay is not None and replay["case"].get("kind") == "pipe":
        pipe_cases, cases = [replay["case"]], []
    elif replay is not None:
        pipe_cases = []
    else:
        pipe_cases = [gen_pipe_case(run.rng) for _ in range(60 if run.tier == "quick" else 400)]
    if replay is None and getattr(run, "pending_source", None) and run.pending_source[1]:
        cases.insert(0, run.pending_source[1])
    rk = replay["case"].get("kind") if replay is not None else None
    if replay is None:
        feat_cases = [gen_feat_case(run.rng) for _ in range(40 if run.tier == "quick" else 300)]
        stream_cases = [gen_stream_case(run.rng) for _ in range(12 if run.tier == "quick" else 80)]
        for _ in range(1 if run.tier == "quick" else 4):
            stream_cases += [gen_stream_tail_case(run.rng, True), gen_stream_tail_case(run.rng, False)]
    else:
        feat_cases = [replay["case"]] if rk == "feat" else []
        stream_cases = [replay["case"]] if rk == "stream" else []
        if rk in ("feat", "stream"):
            cases, pipe_cases = [], []
    bigs = big_cases(run.rng, run.tier) if replay is None else ([replay["case"]] if replay["case"].get("kind") == "big" else [])
    if replay is not None and replay["case"].get("kind") == "big":
        cases = []
    both = vlib.run_impl("impl_c07.py", {"cases": cases, "pipe_cases": pipe_cases, "big_cases": bigs, "feat_cases": feat_cases,
                                         "stream_cases": stream_cases,
                                         "root": os.path.join(vlib.CACHE, "c07_stream_%d" % os.getpid())})
    res = both["results"]

    header = ("From Coq Require Import List ZArith.\nFrom Outrank Require Import Pipeline.Sampler.\n"
              "Import ListNotations.\nOpen Scope Z_scope.")
    exprs = []
    idx = []
    hist = {"ops": {}, "cands": {}, "binding_caps": 0, "impl_errors": 0, "stable": 0}
    for i, (c, r) in enumerate(zip(cases, res)):
        hist["ops"][len(c["ops"])] = hist["ops"].get(len(c["ops"]), 0) + 1
        if c.get("stable"):
            hist["stable"] += 1
        nontriv = any(0 < cap < len(L) for L, cap in c["ops"])
        hist["binding_caps"] += 1 if nontriv else 0
        run.count_case(c["ops"], nontriv)
        if not r["ok"]:
            hist["impl_errors"] += 1
            run.violation("counterexample", "impl-raises", case=c, impl=r["error"], clause="call terminates normally")
            continue
        ops, obs, _ = encode(c, r)
        stable = "true" if c.get("stable") and c["ops"] else "false"
        L0 = vlib.nlist(range(len({tuple(t) for t in c["ops"][0][0]}))) if c["ops"] else "[]"
        exprs.append("let ops := %s in let obs := %s in (steps_ok [] ops obs, Nat.eqb (length obs) (length ops), "
                     "if %s then fairb (%s)%%nat (last (map snd obs) []) else true, run [] ops)" % (ops, obs, stable, L0))
        idx.append(i)
    vals = vlib.coq_eval("C07", header, exprs, shard=300)
    # pipeline level: mixed_rank_graph over batches; evaluated pairs are the ones whose rows were emitted
    pexprs, pidx = [], []
    for i, (c, r) in enumerate(zip(pipe_cases, both["pipe"])):
        c["kind"] = "pipe"
        run.count_case(c, any(0 < o["cap_after"] < len(o["cands"]) for o in r["obs"]))
        if not r["ok"]:
            run.violation("counterexample", "impl-raises (mixed_rank_graph)", case=c, impl=r.get("tb", r["error"]),
                          clause="call terminates normally")
            continue
        ops, obs, err = pipe_encode(c, r)
        if err:
            run.violation("counterexample", "evaluated pairs readable from rows", case=c, impl=err, clause=err)
            continue
        exp = sorted(str(tuple(k)) for k, _ in r["obs"][-1]["counter"]) if r["obs"] else []
        if exp != r["export_keys"]:
            run.violation("counterexample", "export keys", case=c, impl=r["export_keys"], model=exp,
                          clause="reported per-combination counts are keyed by the combination")
        pexprs.append("let ops := %s in let obs := %s in (steps_ok [] ops obs)" % (ops, obs))
        pidx.append(i)
    pvals = vlib.coq_eval("C07p", header, pexprs, shard=300) if pexprs else []
    for i, steps in zip(pidx, pvals):
        if not all(steps):
            k = steps.index(False)
            c = dict(pipe_cases[i])
            c["caps"] = c["caps"][:k + 1]
            run.violation("counterexample", "C07_checker (valid_stepb) on mixed_rank_graph batches",
                          case=c, impl=both["pipe"][i]["obs"][k], clause="valid_step fails at batch %d: evaluated pairs / counter" % k)
    # the interaction-feature call site, judged by its own selections (derived_obs)
    fexprs, fidx = [], []
    for i, (c, r) in enumerate(zip(feat_cases, both.get("feat", []))):
        run.count_case(c, True)
        if not r["ok"]:
            run.violation("counterexample", "impl-raises (compute_combined_features)", case=c, impl=r.get("tb", r["error"]),
                          clause="call terminates normally")
            continue
        for site, e, ncand in feat_exprs(c, r):
            fexprs.append(e)
            fidx.append((i, site, ncand))
    fvals = vlib.coq_eval("C07f", header, fexprs, shard=300) if fexprs else []
    nfeat_bad = 0
    for (i, site, ncand), (steps, lenok, fair) in zip(fidx, fvals):
        if lenok and all(steps) and fair:
            continue
        nfeat_bad += 1
        c = dict(feat_cases[i])
        k = steps.index(False) if False in steps else len(c["caps"]) - 1
        c["caps"] = c["caps"][:k + 1]
        c["sites"] = [site]
        run.violation("counterexample", "C07_selection_history_fair (valid_runb on derived_obs) at the interaction-feature call site",
                      case=c, impl=[b[site]["new"] for b in both["feat"][i]["obs"][:k + 1]],
                      clause=("batch %d of the %r feature space (%d candidates): the combinations built are not the least-selected "
                              "ones given the selections of the earlier batches / not len(candidates[:cap]) many" % (k, site, ncand))
                      if False in steps or not lenok else "numbers of selections differ by more than one after the history")
    run.oblige("correspondence:interaction-feature call site, every batch valid against its own selection history", nfeat_bad == 0)
    run.cov["feature_space_histories_checked"] = len(fidx)
    # the reported table of the real ranking task against the pairs evaluated per batch
    sexprs, sidx, sinfo = [], [], []
    for i, (c, r) in enumerate(zip(stream_cases, both.get("stream", []))):
        run.count_case(c, True)
        if not r["ok"]:
            run.violation("counterexample", "impl-raises (ranking task)", case=c, impl=r.get("tb", r["error"]),
                          clause="the ranking task terminates normally and writes combination_estimation_counts.json")
            continue
        ei, err = stream_expr(c, r)
        if err:
            run.violation("counterexample", "evaluated pairs / report readable", case=c, impl=err, clause=err)
            continue
        sexprs.append(ei[0])
        sidx.append(i)
        sinfo.append(ei[1])
    svals = vlib.coq_eval("C07s", header, sexprs, shard=300) if sexprs else []
    nrep_bad = 0
    for i, ok, info in zip(sidx, svals, sinfo):
        if not ok:
            nrep_bad += 1
            run.violation("counterexample", "C07_report_sound (reportb) on combination_estimation_counts.json", case=stream_cases[i],
                          impl=info, clause="reported per-combination evaluation counts equal the number of batches in which each "
                          "one was actually selected")
    run.oblige("correspondence:reported counts of the ranking task = evaluated pairs per batch", nrep_bad == 0)
    run.cov["ranking_task_reports_checked"] = len(sidx)
    # scale families, judged by the Python mirror of the checker
    nbig = 0
    for c, r in zip(bigs, both.get("big", [])):
        c["kind"] = "big"
        run.count_case(c, True)
        if not r["ok"]:
            run.violation("counterexample", "impl-raises (long candidate list)", case=c, impl=r["error"], clause="call terminates normally")
            continue
        off, L = 0, {}
        for name in sorted(c["lists"]):
            L[name] = list(range(off, off + c["lists"][name]))
            off += c["lists"][name]
        st = {}
        for k, ((name, cap), o) in enumerate(zip(c["ops"], r["obs"])):
            st2 = {i: v for i, v in o["counter"]}
            bad = py_valid_step(st, L[name], cap, o["sel"], st2)
            if bad:
                cc = dict(c)
                cc["ops"] = c["ops"][:k + 1]
                run.violation("counterexample", "valid_step (Python mirror of valid_stepb) on a long candidate list",
                              case=cc, impl={"selected": len(o["sel"]), "distinct_selected": len(set(o["sel"]))},
                              clause="call %d: %s" % (k, bad))
                break
            st = st2
            nbig += 1
    run.cov["long_list_calls_checked"] = nbig
    run.cov["pipeline_histories_checked"] = len(pidx)
    run.oblige("correspondence:valid_step on implementation histories", True)
    ncmp = 0
    ndiff_model = 0
    mirror_disagreements = []
    for i, v in zip(idx, vals):
        steps, lenok, fair, model = v
        c, r = cases[i], res[i]
        ncmp += 1
        bad = None
        if not lenok or not all(steps):
            k = steps.index(False) if False in steps else len(steps)
            bad = "valid_step fails at call %d" % k
            c = {"ops": c["ops"][:k + 1], "stable": c.get("stable", False)}
        elif not fair:
            bad = "evaluation counts differ by more than one after the history"
        if bad:
            run.violation("counterexample", "C07_checker (valid_stepb / fairb) on implementation history",
                          case=c, impl=r["obs"][:len(c["ops"])], model=repr(model)[:2000], clause=bad)
        # the Python mirror of the checker must agree with Coq on every small history
        ids_ = encode(cases[i], r)[2]
        st_ = {}
        py_steps = []
        for (L_, cap_), o_ in zip(cases[i]["ops"], r["obs"]):
            Lk = [ids_[tuple(t_)] for t_ in L_]
            sel_ = [ids_[tuple(t_)] for t_ in o_["sel"]]
            st2_ = {ids_[tuple(k_)]: v_ for k_, v_ in o_["counter"]}
            py_steps.append(py_valid_step(st_, Lk, cap_, sel_, st2_) is None)
            st_ = st2_
        if py_steps != list(steps):
            mirror_disagreements.append(i)
        # informational: same tie-breaking as the stable-sort transcription?
        ids = encode(cases[i], r)[2]
        inv = {v_: k for k, v_ in ids.items()}
        m_sel = [[list(inv[k]) for k in sel] for sel, _ in model]
        if m_sel != [o["sel"] for o in r["obs"]]:
            ndiff_model += 1
    run.oblige("python mirror of valid_stepb agrees with Coq on every small history", not mirror_disagreements,
               "disagreements on cases %s" % mirror_disagreements[:5])
    if mirror_disagreements:
        run.violation("broken-obligation", "py_valid_step != valid_stepb", case=cases[mirror_disagreements[0]], found_input=False)
    if any(v["found_input"] for v in run.violations):
        for j, o in enumerate(run.obligations):
            if o[0].startswith("correspondence:valid_step"):
                run.obligations[j] = (o[0], False, "%d histories rejected" % len(run.violations))
    if getattr(run, "pending_source", None) and not any(v["found_input"] for v in run.violations):
        k, wit = run.pending_source
        run.violation("broken-obligation", "translator:constants of prior_combinations_sample (C07_source_constants)", found_input=False,
                      extra="source constants %r differ from (ascending, 0, 1, 0); model history rejected by the checker with them: %r; "
                      "no implementation history of this run was rejected" % (k, wit))
    run.cov["histories_checked_in_coq"] = ncmp
    run.cov["tie_breaking_differs_from_stable_sort_transcription"] = ndiff_model
    run.cov["input_distribution"] = hist
    run.cov["exhaustive"] = False
    if run.tier == "thorough":
        run.cov["exhaustive_small_scope"] = "all cap sequences, |L|<=4, caps -2..5, length<=4 (18720 histories) included"
    run.samples = [cases[j] for j in range(min(2, len(cases)))]
    run.assumptions += [
        "tuples of names are abstracted to ids by the harness (equality of tuples = equality of ids)",
        "the module-global counter is reset by the harness between histories",
    ]
    run.trusted += ["harness: tools/props/c07.py (generator, id abstraction), tools/impl/impl_c07.py (drives the real code)",
                    "coqparse.py (reads the terms coqc prints)"]
