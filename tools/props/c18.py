"""C18 — feature summary = per-feature median of label scores, sorted, normalised."""
from __future__ import annotations

import json
import math
import os
from fractions import Fraction

import coqparse
import vlib

LEVEL = "proof"
RULE = ("generated pairwise_ranks.tsv files for outrank_task_result_summary: 0..12 features, 8 % of the tables with 21..60 listed "
        "features, args.tldr in {'True','False',True,False,''} (the written file is judged, whatever is printed), 15 % histories of "
        "2-3 successive calls on ONE output folder with different (label_column, heuristic, interaction_order), every call's files "
        "judged against the model for its own arguments; features (plain, transformer-suffixed, "
        "' AND ' interactions of order <= 3), annotated '-(cardinality; coverage)' or plain names, 1..4 label rows per feature in "
        "either orientation, feature-feature rows, label-label rows, label-prefixed look-alikes, names containing AND / and / BRAND / "
        "'AND' alone / a dash / a blank, labels with a dash, negative / tied / decimal / dyadic / nearly equal "
        "scores, heuristic names with and without 'MI', interaction order 1..3; feature_singles.tsv and "
        "feature_singles_aggregated.tsv are compared with the Coq model (rows exactly, order up to ties, scores within the stated "
        "tolerance, NaN cells where the code divides 0/0) and judged by the Coq checkers cells_okb / aggregated_cells_okb; non-trivial = at least 2 features with a label "
        "row and 2 distinct medians; distinct = distinct canonical cases")
THEOREMS = ["C18_once", "C18_median", "C18_nan_table", "C18_nan_cells", "C18_label_scores", "C18_row_order", "C18_sorted_desc",
            "C18_minmax", "C18_minmax_cells", "C18_no_minmax", "C18_aggregated_of_singles", "C18_aggregated",
            "C18_aggregated_wellformed", "C18_label_rule", "C18_constituents", "C18_and_substring_prefix_refuted",
            "C18_dash_label_refuted", "C18_dash_constituent_refuted", "C18_sep_suffix_refuted", "C18_check_sound",
            "C18_check_aggregated_sound", "C18_check_aggregated_cells_sound", "C18_model_ok"]
HEADER = ("From Coq Require Import List QArith ZArith NArith.\nFrom Outrank Require Import Rank.QMedian Summary.Summary.\n"
          "Import ListNotations.\nOpen Scope Q_scope.\n"
          "Definition encq (q : Q) : Z * Z := (Qnum q, Zpos (Qden q)).\n"
          "Definition enct (l : list (name * option Q)) := map (fun r => (fst r, option_map encq (snd r))) l.\n")

HEUR_MI = ["MI", "MI-numba-randomized", "MI-numba", "AMI", "MI-numba-3mr", "surrogate-MI-x"]
HEUR_NO = ["surrogate-SGD", "max-value-coverage", "correlation-Pearson", "Constant", "surrogate-SVM", "mi-lower", "M-I", "IM"]
STEMS = ["f", "user_id", "ctx", "é", "brand", "device", "geo.country", "x", "hour_of_day", "Zip", "and_", "q1", "item", "ad_size",
         "labelx", "label2", "yy", "w"]
TRS = ["", "", "", "_tr_sqrt", "_tr_log(x+1)", "_tr_round(x,1)"]
LABELS = ["label", "y", "click", "Target", "label2"]
U = 2.0 ** -53


# ---------------------------------------------------------------------------
# generation

FIXED_NAMES = ["BRAND", "AND", "and", "ANDROID", "sAND", "x AND", "AND y", "a-b", "my-feat", "ad size", "STAND-IN", "B AND"]
# names that DataFrame.to_csv(sep='\t') has to quote (a double quote, a tab, a line break inside the name): pairwise_ranks.tsv is
# written with csv quoting exactly as the ranking task writes it, the summary must read them back unchanged
QUOTED_NAMES = ['screen 15"', '"brand"', 'a\tb', 'two\nlines', 'x"y"z', '"', 'q"-(1; 2)x']
DASH_LABELS = ["my-label", "y-1"]


TLDRS = ["True", "False", True, False, ""]     # the CLI passes the STRINGS 'True' / 'False' (both truthy)


def calls_of(case):
    """The successive summary calls of a case (single-call cases keep label / heuristic / order at the top, tldr False)."""
    if case.get("calls"):
        return case["calls"]
    return [dict(label=case["label"], heuristic=case["heuristic"], order=case["order"], tldr=case.get("tldr", False))]


def unit_of(case, call):
    return dict(rows=case["rows"], label=call["label"], heuristic=call["heuristic"], order=call["order"], tldr=call.get("tldr", False))


def gen_case(rng, big=False, history=False):
    label = rng.choice(LABELS) if rng.random() < 0.95 else rng.choice(DASH_LABELS)
    annotated = rng.random() < 0.5
    order = rng.choice([1, 1, 2, 2, 3])
    nbase = rng.randint(0, 7) if rng.random() < 0.85 else rng.randint(8, 12)
    if big:                                     # more than 20 listed features: the tldr preview must not touch the file
        nbase = rng.randint(21, 60)
    elif history:
        nbase = rng.randint(3, 9)
    base = []
    seen = {label}
    while len(base) < nbase:
        u = rng.random()
        if u < 0.2:                      # names with the substring AND / and, a dash, a blank ("AND" alone, BRAND, a-b, ...)
            nme = rng.choice(FIXED_NAMES)
        elif u < 0.28:
            nme = rng.choice(QUOTED_NAMES)
        else:
            nme = rng.choice(STEMS) + str(rng.randint(0, 30)) + rng.choice(TRS)
        if nme not in seen:
            seen.add(nme)
            base.append(nme)
    feats = list(base)
    if order > 1 and len(base) >= 2:
        for _ in range(rng.randint(0, 8)):
            k = rng.randint(2, min(order, len(base)))
            cs = rng.sample(base, k)
            nme = " AND ".join(cs)
            if nme not in seen:
                seen.add(nme)
                feats.append(nme)
    rng.shuffle(feats)

    def ann(nme):
        if not annotated:
            return nme
        return "%s-(%d; %d)" % (nme, rng.randint(1, 5000), rng.randint(0, 100))
    full = {f: ann(f) for f in feats}
    lab_full = ann(label)
    smode = rng.choice(["dyadic", "decimal", "ties", "neg", "int", "tiny", "dyadic", "decimal", "neardeg"])

    def score():
        if smode == "dyadic":
            return str(Fraction(rng.randint(-256, 2048), 1024).__float__())
        if smode == "decimal":
            return "%.6f" % rng.uniform(-0.5, 3.0)
        if smode == "ties":
            return rng.choice(["0.25", "0.5", "0.5", "1.0"])
        if smode == "neg":
            return "%.4f" % rng.uniform(-5.0, -0.001)
        if smode == "int":
            return str(rng.randint(-3, 9))
        if smode == "neardeg":           # spread far below 1e-9 * magnitude: excluded from the MI score comparison, counted
            return "1.%012d" % rng.randint(0, 99)
        return "%.9f" % rng.uniform(0.0, 0.001)
    rows = []
    all_equal = rng.random() < 0.06 and not big
    const = score()
    # history cases: one table holding the pairs of several label columns (as after --target_ranking_only False)
    labels = [label]
    if history:
        cand = [f for f in base if "-" not in f]
        rng.shuffle(cand)
        labels += cand[:rng.choice([1, 1, 2])]
    for lab in labels:
        lab_name = lab_full if lab == label else full[lab]
        for f in feats:
            if f == lab:
                continue
            if rng.random() < (0.03 if big else 0.12):
                continue                      # a feature never scored against this label
            for _ in range(rng.choice([1, 1, 2]) if big else rng.choice([1, 1, 2, 2, 3, 4])):
                s = const if all_equal else score()
                if rng.random() < 0.5:
                    rows.append([full[f], lab_name, s])
                else:
                    rows.append([lab_name, full[f], s])
        if rng.random() < 0.4:
            rows.append([lab_name, lab_name, const if all_equal else score()])
    for _ in range(rng.randint(0, 6)):
        if len(feats) >= 1:
            a, b = rng.choice(feats), rng.choice(feats)
            rows.append([full[a], full[b], score()])
    rng.shuffle(rows)

    def heur():
        return rng.choice(HEUR_MI) if rng.random() < 0.55 else rng.choice(HEUR_NO)
    if not history:
        return dict(rows=rows, label=label, heuristic=heur(), order=order, tldr=rng.choice(TLDRS))
    # 2-3 successive calls on the same folder with different (label_column, heuristic, interaction_order)
    calls = []
    for k in range(rng.choice([2, 2, 3])):
        lab = labels[k % len(labels)] if rng.random() < 0.8 else rng.choice(labels)
        calls.append(dict(label=lab, heuristic=heur(), order=rng.choice([1, 2, 2, 3]), tldr=rng.choice(TLDRS)))
    if all((c["label"], c["heuristic"], c["order"]) == (calls[0]["label"], calls[0]["heuristic"], calls[0]["order"]) for c in calls):
        calls[-1]["order"] = calls[0]["order"] % 3 + 1
    return dict(rows=rows, calls=calls)


def load_corpus(pid):
    d = os.path.join(vlib.VERIF, "corpus", pid)
    out = []
    if os.path.isdir(d):
        for f in sorted(os.listdir(d)):
            if f.endswith(".json"):
                out.append(json.load(open(os.path.join(d, f))))
    return out


# ---------------------------------------------------------------------------
# encoding / evaluation

def qlit(fr):
    return coqparse.lit(Fraction(fr))


def cell_coq(v):
    return "None" if v is None else "(Some %s)" % qlit(v)


def table_coq(rows):
    """[(name, float)] -> Coq list (name * option Q); NaN -> None, doubles as exact rationals"""
    return "[" + "; ".join("(%s%%N, %s)" % (vlib.strlit(n), cell_coq(None if math.isnan(v) else Fraction(v))) for n, v in rows) + "]"


def parse_float(txt):
    if txt == "":
        return float("nan")
    return float(txt)


def obs_table(tab):
    """[[name, float]] from the raw table, or None when a row is not (name, score)."""
    if tab is None:
        return None
    rows = []
    for cells in tab["rows"]:
        if len(cells) != 2:
            return None
        try:
            rows.append([cells[0], parse_float(cells[1])])
        except ValueError:
            return None
    if any(math.isinf(v) for _, v in rows):
        return None
    return rows


def tie_groups(rows):
    """rows [(name, key)] in output order -> list of (key, sorted names)"""
    groups = []
    for nme, v in rows:
        if groups and groups[-1][0] == v:
            groups[-1][1].append(nme)
        else:
            groups.append((v, [nme]))
    return [(v, sorted(ns)) for v, ns in groups]


def label_medians(c):
    """Independent of the Coq model only in being Python: used for the TOLERANCE, the exclusion rule and the non-triviality rule,
    never for a verdict."""
    lab = c["label"]
    acc = {}
    for a, b, s in c["rows"]:
        if lab == a.split("-")[0]:
            acc.setdefault(b, []).append(Fraction(s))
        elif lab == b.split("-")[0]:
            acc.setdefault(a, []).append(Fraction(s))
    med = {}
    for k, vs in acc.items():
        vs = sorted(vs)
        n = len(vs)
        med[k] = vs[n // 2] if n % 2 else (vs[n // 2 - 1] + vs[n // 2]) / 2
    return med


ABS = Fraction(1, 10 ** 12)


def tolerance(c):
    """(tol, near_degenerate).  ONE absolute tolerance per case, used identically by the Python comparison and the Coq checkers.
    raw medians (no 'MI'): 1e-12 * max(1, max|median|)  (parse + one halving in doubles);
    'MI': normalised scores lie in [0,1]; (x-lo)/(hi-lo) in doubles has conditioning max|median|/(hi-lo):
          1e-12 + 1e-14 * max|median| / (hi-lo), and cases with (hi-lo) < 1e-9 * max|median| are NOT compared on scores
          (counted as near-degenerate) instead of letting the tolerance grow: the bound is therefore <= 1e-12 + 1e-5."""
    med = label_medians(c)
    if not med:
        return ABS, False
    lo, hi = min(med.values()), max(med.values())
    M = max(abs(lo), abs(hi))
    if "MI" not in c["heuristic"]:
        return ABS * max(1, M), False
    if hi == lo:
        return ABS, False
    if (hi - lo) < Fraction(1, 10 ** 9) * M:
        return ABS, True
    return ABS + Fraction(1, 10 ** 14) * M / (hi - lo), False


def evaluate(cases, pid="C18"):
    """Runs impl and model; returns per case the judgement of its first violating call (else of its first call), plus the
    statuses of all its calls.  Every call of a history is judged against the model for ITS OWN arguments."""
    if not cases:
        return []
    impl = vlib.run_impl("impl_c18.py", {"cases": cases})["results"]
    units = []                                   # (case index, call index, unit dict, impl result of that call)
    for ci, (case, r) in enumerate(zip(cases, impl)):
        calls = calls_of(case)
        rs = r.get("calls") or []
        for k, call in enumerate(calls):
            rk = rs[k] if k < len(rs) else {"ok": False, "error": "no result for this call"}
            units.append((ci, k, unit_of(case, call), rk))
    exprs = []
    applic = []
    Tcache = {}
    for ci, k, c, r in units:
        if ci not in Tcache:
            Tcache = {ci: "[" + "; ".join("(%s%%N, %s%%N, %s)" % (vlib.strlit(a), vlib.strlit(b), qlit(Fraction(s)))
                                          for a, b, s in c["rows"]) + "]"}
        T = Tcache[ci]
        heur, lbl = vlib.strlit(c["heuristic"]) + "%N", vlib.strlit(c["label"]) + "%N"
        so = obs_table(r.get("singles")) if r.get("ok") else None
        ao = obs_table(r.get("aggregated")) if r.get("ok") else None
        tol, near = tolerance(c)
        chk1 = chk2 = "true"          # placeholders when a checker is not applicable (recorded as None)
        a1 = a2 = False
        if so is not None and not near:
            chk1, a1 = "cells_okb tol %s %s T %s" % (heur, lbl, table_coq(so)), True
            if ao is not None and c["order"] > 1:
                chk2, a2 = "aggregated_cells_okb tol %s %s" % (table_coq(so), table_coq(ao)), True
        applic.append((a1, a2))
        exprs.append("let T := %s in let tol := %s in "
                     "(enct (fst (summary %s %s %d T)), match snd (summary %s %s %d T) with Some a => Some (enct a) | None => None end, "
                     "nan_table %s %s T, enct (some_cells (pre %s T)), %s, %s)"
                     % (T, qlit(tol), heur, lbl, c["order"], heur, lbl, c["order"], heur, lbl, lbl, chk1, chk2))
    vals = vlib.coq_eval(pid, HEADER, exprs, shard=40)
    per_case = [[] for _ in cases]
    for (ci, k, c, r), v, (a1, a2) in zip(units, vals, applic):
        j = judge(c, r, v)
        if not a1:
            j["checker"]["cells_okb"] = None
        if not a2:
            j["checker"]["aggregated_cells_okb"] = None
        j["call_index"] = k
        j["call"] = {x: c[x] for x in ("label", "heuristic", "order", "tldr")}
        per_case[ci].append(j)
    out = []
    for js in per_case:
        bad = [j for j in js if j["status"] == "violation"]
        e = dict(bad[0] if bad else js[0])
        if bad and len(js) > 1:
            e["clause"] = "call %d of %d (label_column=%r, heuristic=%r, interaction_order=%d, tldr=%r): %s" % (
                e["call_index"] + 1, len(js), e["call"]["label"], e["call"]["heuristic"], e["call"]["order"], e["call"]["tldr"], e["clause"])
        e["call_statuses"] = [j["status"] for j in js]
        e["max_nfeat"] = max(j["nfeat"] for j in js)
        out.append(e)
    return out


def dec_table(t):
    """parsed [(codes, cell)] -> [(name, Fraction | None)]; a cell is None or ('Some', (num, den))"""
    return [(vlib.from_codes(n), None if cell is None else Fraction(*cell[1])) for n, cell in t]


def show(t):
    return None if t is None else [[n, None if x is None else float(x)] for n, x in t]


def judge(c, r, v):
    m_s, m_a, nan_tab, m_pre, chk1, chk2 = v
    model_s = dec_table(m_s)
    model_a = None if m_a is None else dec_table(m_a[1])
    pre = dec_table(m_pre)                       # medians in output order, before normalisation (exact)
    mi = "MI" in c["heuristic"]
    tol, near = tolerance(c)
    tolf = float(tol)
    res = dict(status="ok", clause=None, impl=None, model={"singles": show(model_s), "aggregated": show(model_a)},
               checker={"cells_okb": chk1, "aggregated_cells_okb": chk2}, degenerate=bool(nan_tab), near_degenerate=near,
               nfeat=len(model_s), distinct_medians=len({x for _, x in pre}), tol=tolf)
    if not r.get("ok"):
        res.update(status="violation", clause="the summary task terminates normally", impl=r.get("error"))
        return res
    so = obs_table(r.get("singles"))
    ao = obs_table(r.get("aggregated"))
    res["impl"] = {"singles": r.get("singles"), "aggregated": r.get("aggregated")}
    if so is None:
        res.update(status="violation", clause="feature_singles.tsv is written as (feature, finite-or-empty score) rows")
        return res

    def fail(clause):
        res.update(status="violation", clause=clause)
        return res
    # --- once / exactly the features with a label row (always determined)
    inames = [n for n, _ in so]
    mnames = [n for n, _ in model_s]
    if len(set(inames)) != len(inames):
        return fail("C18_once: a feature is listed more than once")
    if set(inames) != set(mnames):
        return fail("C18_once: listed features differ from those scored against the label (impl-only %s, missing %s)"
                    % (sorted(set(inames) - set(mnames))[:3], sorted(set(mnames) - set(inames))[:3]))
    # --- order: descending medians, ties (of the exact medians) as multisets (always determined: the sort precedes the division)
    pos = 0
    for val, names in tie_groups(pre):
        seg = sorted(inames[pos:pos + len(names)])
        if seg != names:
            return fail("C18_sorted_desc: rows are not in descending score order (position %d)" % pos)
        pos += len(names)
    agg_expected = c["order"] > 1
    if agg_expected:
        if ao is None:
            return fail("C18_aggregated: feature_singles_aggregated.tsv is written (as (feature, score) rows) for interaction order > 1")
        ma = dict(model_a)
        anames = [n for n, _ in ao]
        if len(anames) != len(set(anames)):
            return fail("C18_aggregated: a constituent is listed more than once")
        if set(anames) != set(ma):
            return fail("C18_aggregated: constituents listed differ (impl-only %s, missing %s)" % (
                sorted(set(anames) - set(ma))[:3], sorted(set(ma) - set(anames))[:3]))
    elif r.get("aggregated") is not None:
        res["note"] = "aggregated table written although interaction order is 1"
    # --- scores
    if nan_tab:
        # 'MI' heuristic over a non-empty table with all medians equal: the code's 0/0.  Determined: every cell is NaN.
        res["status"] = "ok-degenerate"
        # The medians are EXACTLY equal.  The code sees that (max - min == 0.0) for certain only when they are also computed
        # from the same doubles: all label scores of the listed features are one and the same double.  Equal exact medians
        # reached through different scores ((a+b)/2 = (c+d)/2) may differ in the last bit in floating point, and then the
        # code normalises that noise to 1 / 0: nothing about the scores is determined; rows and order (one tie group) were
        # compared above.
        # Certain = the medians of the DOUBLES are equal as rationals and each is itself a double (then any way of computing
        # the median in floating point yields that very double).
        lab = c["label"]
        acc = {}
        for a, b, sc in c["rows"]:
            if lab == a.split("-")[0]:
                acc.setdefault(b, []).append(Fraction(float(Fraction(sc))))
            elif lab == b.split("-")[0]:
                acc.setdefault(a, []).append(Fraction(float(Fraction(sc))))
        fmed = set()
        for vs in acc.values():
            vs = sorted(vs)
            k = len(vs)
            fmed.add(vs[k // 2] if k % 2 else (vs[k // 2 - 1] + vs[k // 2]) / 2)
        certain = len(fmed) == 1 and all(Fraction(float(m)) == m for m in fmed)
        if not certain:
            res["status"] = "ok-degenerate-float-unresolved"
            return res
        if not all(math.isnan(x) for _, x in so):
            return fail("C18_nan_cells: 'MI' heuristic and all medians equal: NaN (empty) cells expected, got %s" % so[:3])
        if agg_expected and not all(math.isnan(x) for _, x in ao):
            return fail("C18_nan_cells: aggregated scores of a NaN table must be NaN, got %s" % ao[:3])
    elif near:
        # spread below 1e-9 of the magnitude under an 'MI' heuristic: scores not compared (the division amplifies parse errors)
        res["status"] = "ok-near-degenerate"
        return res
    else:
        md = dict(model_s)
        for n, x in so:
            if math.isnan(x):
                return fail("C18_median/minmax: score of %r is NaN although the table is not degenerate" % n)
            if abs(x - float(md[n])) > tolf:
                what = "C18_minmax: min-max normalised median" if mi else "C18_median: median of the feature-label scores"
                return fail("%s of %r is %.15g, expected %.15g (tolerance %.3g)" % (what, n, x, float(md[n]), tolf))
        if agg_expected:
            for n, x in ao:
                if math.isnan(x) or abs(x - float(ma[n])) > tolf:
                    return fail("C18_aggregated: combined score of %r is %.15g, expected the median %.15g of the scores of the "
                                "interactions containing it" % (n, x, float(ma[n])))
    if chk1 is False:
        return fail("C18_check: the Coq checker cells_okb rejects feature_singles.tsv")
    if agg_expected and chk2 is False:
        return fail("C18_check: the Coq checker aggregated_cells_okb rejects feature_singles_aggregated.tsv")
    return res


def shrink(case, rounds=10, budget_s=150.0):
    import time
    t0 = time.time()
    cur = case
    for _ in range(rounds):
        if time.time() - t0 > budget_s:
            break
        rows = cur["rows"]
        cands = []
        if cur.get("calls") and len(cur["calls"]) > 1:
            cands += [dict(cur, calls=cur["calls"][:i] + cur["calls"][i + 1:]) for i in range(len(cur["calls"]))]
        if len(rows) > 3:
            h = len(rows) // 2
            cands += [dict(cur, rows=rows[:h]), dict(cur, rows=rows[h:])]
        if 1 < len(rows) <= 30:
            cands += [dict(cur, rows=rows[:i] + rows[i + 1:]) for i in range(len(rows))]
        elif len(rows) > 30:
            step = max(1, len(rows) // 10)
            cands += [dict(cur, rows=rows[:i] + rows[i + step:]) for i in range(0, len(rows), step)]
        if not cands:
            break
        try:
            ev = evaluate(cands, pid="C18s")
        except vlib.Broken:
            break
        failing = [c for c, e in zip(cands, ev) if e["status"] == "violation"]
        if not failing:
            break
        cur = min(failing, key=lambda c: (len(calls_of(c)), len(c["rows"])))
    return cur


def check(run, replay):
    model_ok, log = vlib.build(["Summary/Summary.vo"])
    run.oblige("build:model Summary/Summary.vo", model_ok, "" if model_ok else log[-1500:])
    if not model_ok:
        raise vlib.Broken("build:Summary/Summary.vo", log)
    vlib.standard_proof_phase(run, ["Props/C18.vo"], "Outrank.Props.C18", THEOREMS)

    if replay is not None:
        cases = [replay["case"]]
    else:
        cases = load_corpus("C18")
        n = 400 if run.tier == "quick" else 4000
        for _ in range(n):
            u = run.rng.random()
            # 8 % tables with 21..60 listed features (tldr preview vs written file), 15 % call histories on one output folder
            cases.append(gen_case(run.rng, big=(u < 0.08), history=(0.08 <= u < 0.23)))
    ev = evaluate(cases)
    hist = {"features": {}, "order": {}, "heuristic_MI": 0, "heuristic_other": 0, "annotated": 0, "degenerate_minmax": 0,
            "near_degenerate_minmax": 0, "names_with_AND_substring_not_joiner": 0, "names_with_dash_before_annotation": 0,
            "no_label_rows": 0, "with_aggregated_rows": 0, "rows": {}, "status": {}, "calls_per_case": {}, "tldr": {},
            "names_needing_csv_quoting": 0,
            "more_than_20_listed_features": 0, "more_than_20_listed_and_truthy_tldr": 0, "history_calls_judged": 0}
    worst = None
    for c, e in zip(cases, ev):
        nf = e["nfeat"]
        calls = calls_of(c)
        hist["calls_per_case"][len(calls)] = hist["calls_per_case"].get(len(calls), 0) + 1
        if len(calls) > 1:
            hist["history_calls_judged"] += len(calls)
        for cl in calls:
            hist["tldr"][repr(cl.get("tldr", False))] = hist["tldr"].get(repr(cl.get("tldr", False)), 0) + 1
            hist["order"][cl["order"]] = hist["order"].get(cl["order"], 0) + 1
            hist["heuristic_MI" if "MI" in cl["heuristic"] else "heuristic_other"] += 1
        if e["max_nfeat"] > 20:
            hist["more_than_20_listed_features"] += 1
            if any(cl.get("tldr", False) for cl in calls):
                hist["more_than_20_listed_and_truthy_tldr"] += 1
        fb = nf if nf <= 20 else (nf // 10) * 10
        hist["features"][fb] = hist["features"].get(fb, 0) + 1
        if any("-(" in a for a, _, _ in c["rows"]):
            hist["annotated"] += 1
        if e.get("degenerate"):
            hist["degenerate_minmax"] += 1
        if e["status"] == "ok-near-degenerate":
            hist["near_degenerate_minmax"] += 1
        if e["status"] == "ok-degenerate-float-unresolved":
            hist["degenerate_float_unresolved"] = hist.get("degenerate_float_unresolved", 0) + 1
        allnames = {x for a, b, _ in c["rows"] for x in (a, b)}
        if any(ch in x for x in allnames for ch in '"\t\n'):
            hist["names_needing_csv_quoting"] += 1
        if any("AND" in x.replace(" AND ", "") for x in allnames):
            hist["names_with_AND_substring_not_joiner"] += 1
        if any("-" in (x[:x.rfind("-(")] if "-(" in x else x) for x in allnames):
            hist["names_with_dash_before_annotation"] += 1
        if nf == 0:
            hist["no_label_rows"] += 1
        if e["model"]["aggregated"]:
            hist["with_aggregated_rows"] += 1
        b = len(c["rows"]) // 10 * 10
        hist["rows"][b] = hist["rows"].get(b, 0) + 1
        hist["status"][e["status"]] = hist["status"].get(e["status"], 0) + 1
        run.count_case(c, nf >= 2 and e["distinct_medians"] >= 2)
        if e["status"] == "violation" and (worst is None or len(c["rows"]) < len(worst[0]["rows"])):
            worst = (c, e)
    if worst is not None:
        c, e = worst
        if replay is None:
            small = shrink(c)
            if small is not c:
                e2 = evaluate([small], pid="C18s")[0]
                if e2["status"] == "violation":
                    c, e = small, e2
        nbad = hist["status"].get("violation", 0)
        run.violation("counterexample", "C18 correspondence (model = implementation; cells_okb / aggregated_cells_okb)", case=c,
                      impl=e["impl"], model=e["model"], clause=e["clause"],
                      extra={"checker_verdict": e["checker"], "tolerance": e.get("tol"), "failing_cases_in_run": nbad,
                             "total": len(cases)})
    nbad = hist["status"].get("violation", 0)
    run.oblige("correspondence:feature_singles.tsv / feature_singles_aggregated.tsv = model, accepted by the Coq checkers",
               nbad == 0, "" if nbad == 0 else "%d of %d cases differ" % (nbad, len(cases)))
    run.cov["input_distribution"] = hist
    run.cov["score_comparison"] = {
        "NaN table (MI heuristic, all medians equal incl. a single feature): rows, order and NaN cells compared; C18_minmax's "
        "'best 1, worst 0' cannot hold there": hist["degenerate_minmax"],
        "near-degenerate (MI heuristic, max-min < 1e-9*max|median|): rows and order compared, scores NOT compared": hist["near_degenerate_minmax"]}
    run.cov["exhaustive"] = False
    run.samples = cases[:2]
    run.assumptions += [
        "the model is a transcription for ARBITRARY names (dashes, blanks, AND substrings are generated and compared); only "
        "C18_aggregated_wellformed / C18_label_rule / C18_constituents assume: no '-' in label and constituents, no ' AND ' inside a "
        "constituent or completed by its end, no ' AND ' in the annotation (each shown necessary by a _refuted witness)",
        "generated names are not pandas NA tokens, do not look like numbers, contain no tab / quote / newline",
        "scores are written as decimal text; the model reads the text as an exact rational, the code as the nearest double",
        "ONE absolute tolerance per case for Python and Coq alike: 1e-12*max(1,max|median|) without 'MI'; with 'MI' "
        "1e-12 + 1e-14*max|median|/(max-min), cases with max-min < 1e-9*max|median| excluded from the score comparison and counted",
        "order of rows with equal scores is not fixed by the property (pandas' unstable sort): tie groups are compared as multisets; "
        "the aggregated table is compared as a mapping constituent -> score",
    ]
    run.trusted += ["harness: tools/props/c18.py (generator, decimal text -> Fraction, tolerance, tie-group comparison), "
                    "tools/impl/impl_c18.py (writes the tsv, drives the real code, reads the outputs back)",
                    "coqparse.py (reads the terms coqc prints)"]
