"""C09 — results independent of worker count and scheduling, and reproducible."""
from __future__ import annotations

import json
import os

import vlib
from props import c08

LEVEL = "proof"
RULE = ("(a) generated files run through outrank_task_conduct_ranking under harness pool objects (1..16 workers, random / "
        "reverse / pathos-like chunkings and completion orders, results stored by task index; plus pools that hand results "
        "back in completion order) and compared with the serial run of the same file; (b) the real command line with real "
        "pathos pools of 1,2,4,8(,16) workers and (c) with different PYTHONHASHSEED values, each in a fresh process; "
        "non-trivial = at least 2 batches and at least 6 scored combinations per batch; distinct = distinct (file layout, "
        "arguments, pool specification)")
THEOREMS = ["C09_schedule", "C09_schedule_any", "C09_not_ready", "C09_pool_size", "C09_interleave_perm", "C09_split_assignment",
            "C09_unordered_same", "C09_unordered_same_final", "C09_unordered_collection", "C09_run_ordered", "C09_run_unordered",
            "C09_run_schedule_independent", "C09_schedule_check_sound", "C09_multiset_check_sound"]
TOL = 1e-12

# Configurations that reproduced the hash-seed dependence found while building this check (notes/C09.md, "Findings";
# repaired in /repo by 05a3345 and b8c228d).  They stay in the default fresh-process set so that a revert is caught.
HASHSEED_MATRIX = [[1, 1], [1, 2]]          # thinned in round 6 (was seeds 1, 2, 3); thorough uses HASHSEED_MATRIX_T
HASHSEED_MATRIX_T = [[1, 1], [1, 2], [1, 3]]
SEEDS_POOLS = [[2, 0], [4, 1]]              # PYTHONHASHSEED 0 and 1, two pool sizes
SEEDS_POOLS_T = [[2, 0], [4, 1], [2, 2], [8, 3]]
KNOWN_CANDIDATES = [
    {"B": 600, "s": 1, "cols": ["id", "f1", "f2", "f3", "f4", "label"], "heuristic": "MI-numba-randomized", "target_only": "False",
     "seed": 5, "segments": [[1900, 6, 0]], "entry": "task", "extra_args": ["--feature_set_focus", "f1,f2,f3,f4"], "matrix": HASHSEED_MATRIX},
    {"B": 600, "s": 1, "cols": ["id", "f1", "f2", "f3", "f4", "label"], "heuristic": "MI-numba-randomized", "target_only": "False",
     "seed": 5, "segments": [[1900, 6, 0]], "entry": "task", "cap": 4, "extra_args": ["--explode_multivalue_features", "f2;f3"],
     "matrix": HASHSEED_MATRIX},
]


def gen_base(rng, small=False):
    small = small or rng.random() < 0.4     # few candidate pairs (<= workers of most pools) with a binding cap
    ncols = 3 if small else rng.choice([4, 5, 6])
    cols = ["id"] + ["f%d" % i for i in range(1, ncols - 1)] + ["label"]
    s = rng.choice([1, 1, 2])
    B = rng.choice([300, 450, 600, 800])
    nb = rng.randint(2, 4)
    good = nb * B + rng.choice([0, 5, B // 2])
    lines = c08.layout(rng, B, s, ncols, good, rng.choice([0, 2, 6]), 0)
    io = rng.choice([1, 1, 2])
    cap = rng.choice([1, 2, 2]) if small else rng.choice([2 ** 15, 2 ** 15, rng.randint(3, 9)])
    return {"B": B, "s": s, "cols": cols, "heuristic": rng.choice(["MI-numba-randomized", "max-value-coverage", "MI-numba"]),
            "target_only": rng.choice(["True", "False", "False"]), "seed": rng.randint(0, 10 ** 6), "segments": c08.rle(lines),
            "entry": "task", "interaction_order": io, "cap": cap, "noise": rng.choice(["False", "False", "True"]),
            "trailing_newline": True, "crlf": False, "disable_tqdm": rng.choice(["True", "True", "False"]),
            "extra_args": rng.choice([[], [], ["--mi_stratified_sampling_ratio", rng.choice(["0.5", "0.8", "0.3"])]])}


# Round 6: two more configurations whose column order came from set iteration (repaired by 5ac7e28 and a66d22b).
ROUND6 = [
    # a reference model with several COMBINED features, pairwise mode
    {"B": 300, "s": 1, "cols": ["id", "f1", "f2", "f3", "f4", "label"], "heuristic": "MI-numba-randomized", "target_only": "False",
     "seed": 31, "segments": [[300, 6, 0]], "entry": "task", "reference_features": ["f1", "f1,f2", "f3,f4", "f2,f4", "f1,f3"],
     "matrix": SEEDS_POOLS},
    # ob-csv folder with three Float features, --transformers minimal, pairwise mode, one batch
    {"B": 600, "s": 1, "cols": ["x", "y", "zz", "cat", "label"], "heuristic": "MI-numba-randomized", "target_only": "False",
     "seed": 32, "segments": [[600, 5, 0]], "entry": "task",
     "ob_csv": {"rows": 600, "features": [["x", "Float"], ["y", "Float"], ["zz", "Float"], ["cat", "String"], ["label", "String"]]},
     "extra_args": ["--transformers", "minimal"], "matrix": SEEDS_POOLS},
]


# Round 6b: edge inputs.
EDGE = [
    # very few candidate pairs (no more than a pool has workers) with a binding cap, several batches
    {"B": 100, "s": 1, "cols": ["id", "f1", "label"], "heuristic": "MI-numba-randomized", "target_only": "True", "seed": 44,
     "segments": [[400, 3, 0]], "entry": "task", "cap": 1, "matrix": [[1, 0], [3, 0], [8, 0]], "matrix_t": [[1, 0], [2, 0], [3, 0], [8, 0]]},
    {"B": 100, "s": 1, "cols": ["id", "f1", "label"], "heuristic": "MI-numba-randomized", "target_only": "False", "seed": 45,
     "segments": [[400, 3, 0]], "entry": "task", "cap": 2, "matrix": [[1, 0], [8, 0]], "matrix_t": [[1, 0], [2, 0], [3, 0], [8, 0]]},
    # degenerate columns: constant label, an entirely empty column, a strictly periodic column (batch of 99 = 33 periods);
    # exact repeat + another pool size
    {"B": 99, "s": 1, "cols": ["id", "f", "g", "e", "p", "label"], "heuristic": "MI-numba-randomized", "target_only": "False",
     "seed": 43, "segments": [[198, 6, 0]], "entry": "task", "col_override": {"3": "empty", "4": "periodic:3", "5": "const:0"},
     "matrix": [[2, 0], [2, 0], [8, 0]], "matrix_t": [[2, 0], [2, 0], [8, 0], [1, 1]]},
]


ORDERED = [(1, "reverse"), (2, "random"), (4, "pathos-like"), (8, "last-worker-first"), (16, "random"), (3, "random"),
           (2, "pathos-like"), (5, "reverse")]
UNORDERED = [(4, "random"), (2, "reverse"), (8, "pathos-like")]


def variants(rng, base, n_ord, n_un):
    out = [dict(base, pool={"kind": "serial"})]
    for n, mode in rng.sample(ORDERED, n_ord):
        out.append(dict(base, num_threads=n, pool={"kind": "adversarial", "n": n, "mode": mode, "seed": rng.randint(0, 10 ** 6)}))
    for n, mode in rng.sample(UNORDERED, n_un):
        out.append(dict(base, num_threads=n, pool={"kind": "adversarial", "n": n, "mode": mode, "seed": rng.randint(0, 10 ** 6), "unordered": True}))
    return out


def cli_configs(tier):
    a = {"B": 600, "s": 1, "cols": ["id", "f1", "f2", "f3", "label"], "heuristic": "MI-numba-randomized", "target_only": "False",
         "seed": 11, "segments": [[700, 5, 0], [1, 4, 0], [640, 5, 0]], "interaction_order": 2, "cap": 7, "noise": "False"}
    b = {"B": 1100, "s": 2, "cols": ["id", "f1", "f2", "label"], "heuristic": "MI-numba-randomized", "target_only": "True",
         "seed": 12, "segments": [[4500, 4, 0]], "interaction_order": 1, "cap": 2 ** 15, "noise": "True",
         "extra_args": ["--mi_stratified_sampling_ratio", "0.5"]}       # the stratified sub-sampler is on the path
    # contention: 7 columns, interaction order 2 -> 22 columns -> 253 scored combinations per amap call, pool of 16,
    # and one exact repeat (same threads, same PYTHONHASHSEED) whose table must be bit-identical
    big = {"B": 600, "s": 1, "cols": ["id", "f1", "f2", "f3", "f4", "f5", "label"], "heuristic": "max-value-coverage",
           "target_only": "False", "seed": 15, "segments": [[1300, 7, 0]], "interaction_order": 2, "cap": 2 ** 15, "noise": "False",
           "matrix": [[1, 0], [16, 0], [16, 0], [8, 2]] if tier != "thorough" else
                     [[1, 0], [2, 0], [4, 0], [8, 0], [16, 0], [16, 0], [16, 1], [3, 2]]}
    # round 5: the command-line default --disable_tqdm False (banner + random tip are printed by the parent before ranking)
    # together with the noise controls, which the parent draws from the process-wide numpy generator on every batch:
    # an exact repeat and a second pool size, all with the same hash seed
    tip = {"B": 600, "s": 1, "cols": ["id", "f1", "f2", "label"], "heuristic": "MI-numba-randomized", "target_only": "True",
           "seed": 16, "segments": [[1300, 4, 0]], "interaction_order": 1, "cap": 2 ** 15, "noise": "True", "disable_tqdm": "False",
           "matrix": [[2, 0], [2, 0], [8, 0]] if tier != "thorough" else [[2, 0], [2, 0], [8, 0], [1, 0], [2, 1], [2, 0]]}
    if tier != "thorough":
        a = dict(a, matrix=[[1, 0], [2, 1]])
        b = dict(b, matrix=[[2, 0], [8, 2]])
    cfgs = [big, a, b, tip]
    if tier == "thorough":
        cfgs.append({"B": 500, "s": 1, "cols": ["id", "f1", "f2", "f3", "f4", "label"], "heuristic": "max-value-coverage",
                     "target_only": "False", "seed": 13, "segments": [[1700, 6, 0]], "interaction_order": 2, "cap": 2 ** 15,
                     "noise": "False"})
        cfgs.append({"B": 400, "s": 3, "cols": ["id", "f1", "f2", "label"], "heuristic": "MI-numba", "target_only": "False",
                     "seed": 14, "segments": [[3000, 4, 0], [3, 2, 0], [700, 4, 0]], "interaction_order": 1, "cap": 5,
                     "noise": "True"})
    return cfgs


def cli_matrix(tier):
    if tier == "thorough":
        return [(1, 0), (2, 0), (4, 0), (8, 0), (16, 0), (2, 1), (2, 2), (4, 3)]
    return [(1, 0), (2, 0), (4, 1), (8, 2)]


def canon_text(table):
    return sorted((a, b, s) for a, b, s in table)


def canon_float(table):
    return sorted((a, b, float(s)) for a, b, s in table)


def tables_equal(t1, t2):
    """-> (identical_text, within_tolerance, first difference)"""
    c1, c2 = canon_text(t1), canon_text(t2)
    if c1 == c2:
        return True, True, None
    f1, f2 = canon_float(t1), canon_float(t2)
    if len(f1) != len(f2):
        return False, False, "row counts %d vs %d" % (len(f1), len(f2))
    for x, y in zip(f1, f2):
        if x[:2] != y[:2]:
            return False, False, "pairs %s vs %s" % (x[:2], y[:2])
        if not c08.close(x[2], y[2]):
            return False, False, "pair %s,%s: %r vs %r" % (x[0], x[1], x[2], y[2])
    return False, True, "not bit-identical (differs below 1e-12 relative): %r" % (next(((x, y) for x, y in zip(c1, c2) if x != y), None),)


HEADER = ("From Coq Require Import List NArith ZArith.\n"
          "From Outrank Require Import Pipeline.Aggregate Pipeline.Pool.\n"
          "Import ListNotations.")


class GroupEnc(c08.Enc):
    def __init__(self, results):
        merged = {"batches": [], "pairwise": [], "grouped": []}
        for r in results:
            for b in r.get("batches", []):
                merged["batches"].append({"triplets": b.get("triplets") or []})
        c08.Enc.__init__(self, merged)


def all_rows(r):
    out = []
    for b in r.get("batches", []):
        out.extend(b.get("triplets") or [])
    return out


def sched_lit(sch):
    ws = "[" + "; ".join(vlib.nlist(w) for w in sch["workers"]) + "]"
    return "(%d, %s, %s)" % (sch["ntasks"], ws, vlib.nlist(sch["order"]))


def check(run, replay):
    ok, log = vlib.build(["Pipeline/Pool.vo"])
    run.oblige("build:model Pipeline/Pool.vo, Aggregate.vo", ok, "" if ok else log[-1500:])
    if not ok:
        raise vlib.Broken("build:Pipeline/Pool.vo", log)
    vlib.standard_proof_phase(run, ["Props/C09.vo"], "Outrank.Props.C09", THEOREMS)

    quick = run.tier == "quick"
    cli_specs = []
    groups = []            # list of lists of fake cases (first = serial baseline)
    cfgs = []
    if replay is not None:
        rc = replay["case"]
        if rc.get("kind") == "cli":
            cfgs = [rc["config"]]
            matrix = rc["matrix"]
        else:
            groups = [[dict(rc["base"], num_threads=1, pool={"kind": "serial"}), dict(rc["base"], pool=rc["pool"])]]
            matrix = []
    else:
        for c in c08.load_corpus("C09"):
            if c.get("kind") == "cli":
                cfgs.append(c["config"])
            else:
                groups.append([dict(c["base"], num_threads=1, pool={"kind": "serial"}), dict(c["base"], pool=c["pool"])])
        nb = 5 if quick else 40
        for _ in range(nb):
            groups.append(variants(run.rng, gen_base(run.rng), 4, 2))
        cfgs += cli_configs(run.tier)
        cfgs += [dict(k, matrix=HASHSEED_MATRIX if quick else HASHSEED_MATRIX_T) for k in KNOWN_CANDIDATES]
        cfgs += [dict(k, matrix=SEEDS_POOLS if quick else SEEDS_POOLS_T) for k in ROUND6]
        cfgs += [dict(k, matrix=k["matrix"] if quick else k["matrix_t"]) for k in EDGE]
        matrix = cli_matrix(run.tier)
    cli_groups = []
    for cfg in cfgs:
        idxs = []
        for th, hs in cfg.get("matrix", matrix):
            idxs.append(len(cli_specs))
            cli_specs.append({"case": cfg, "threads": th, "hashseed": hs})
        cli_groups.append((cfg, idxs))
    flat = [c for g in groups for c in g]
    root = os.path.join(vlib.CACHE, "c09", str(os.getpid()))
    res = vlib.run_impl("impl_c09.py", {"fake": flat, "cli": cli_specs, "root": root, "cli_parallel": 27 if quick else 12},
                        timeout=3000)
    fres, cres = res["fake"], res["cli"]

    # ---------------- (a) harness pools
    run.oblige("correspondence(a): same rows and same pairwise_ranks.tsv under every harness pool as under the serial run", True)
    run.oblige("harness pools satisfy the Coq contract (schedule_okb on every recorded amap call)", True)
    hist = {"pools": {}, "batches": {}, "tasks_per_batch_max": 0, "amap_calls_checked": 0, "unordered_runs": 0,
            "unordered_runs_same_table": 0, "bit_identical_pairs": 0, "within_tolerance_only": 0, "cli_runs": 0, "cli_wall_max": 0}
    exprs, meta = [], []
    k = 0
    for g in groups:
        rs = fres[k:k + len(g)]
        k += len(g)
        base_case, base = g[0], rs[0]
        enc = GroupEnc(rs)
        for c, r in zip(g, rs):
            spec = c["pool"]
            key = "%s/%s/%s%s" % (spec.get("kind"), spec.get("n", 1), spec.get("mode", "-"), "/unordered" if spec.get("unordered") else "")
            hist["pools"][key] = hist["pools"].get(key, 0) + 1
            nb = len(r.get("batches", []))
            hist["batches"][str(nb)] = hist["batches"].get(str(nb), 0) + 1
            ntasks = max([len(b.get("triplets") or []) // 2 for b in r.get("batches", [])] or [0])
            hist["tasks_per_batch_max"] = max(hist["tasks_per_batch_max"], ntasks)
            canon = {kk: c.get(kk) for kk in ("B", "s", "cols", "segments", "heuristic", "target_only", "interaction_order", "cap", "noise", "extra_args", "disable_tqdm", "num_threads", "pool")}
            run.count_case(canon, nb >= 2 and ntasks >= 6)
            rcase = {"kind": "pool", "base": {kk: vv for kk, vv in c.items() if kk != "pool"}, "pool": spec}
            if not r.get("ok"):
                run.violation("counterexample", "impl-raises under a harness pool", case=rcase, impl=r.get("error"),
                              model=r.get("traceback"), clause="the ranking task terminates normally for every completion order")
                continue
            if c is base_case or not base.get("ok"):
                continue
            if not enc.finite:
                hist["non_finite_runs_compared_in_python_only"] = hist.get("non_finite_runs_compared_in_python_only", 0) + 1
            unordered = bool(spec.get("unordered"))
            if not unordered:
                # the order-preserving map: identical triplet lists batch by batch (C09_run_ordered)
                # (compared as multisets per batch: the order of the rows inside a batch is not an observable of the property)
                tb = [sorted((x, y, repr(z)) for x, y, z in (b["triplets"] or [])) for b in base["batches"]]
                tv = [sorted((x, y, repr(z)) for x, y, z in (b["triplets"] or [])) for b in r["batches"]]
                if tb != tv:
                    j = next((j for j in range(min(len(tb), len(tv))) if tb[j] != tv[j]), min(len(tb), len(tv)))
                    d = None
                    if j < len(tb) and j < len(tv):
                        d = next(((x, y) for x, y in zip(tb[j], tv[j]) if x != y), None)
                    run.violation("counterexample", "correspondence(a): rows under an adversarial schedule differ from the serial run",
                                  case=rcase, impl={"batch": j, "first_difference": d, "schedule": (r.get("schedules") or [None])[min(j, len(r.get("schedules") or [1]) - 1)]},
                                  clause="pairwise scores identical for every completion order of the workers (batch %d)" % (j + 1))
                    continue
                if base.get("pairwise") is not None or r.get("pairwise") is not None:
                    same, tol, d = tables_equal(base.get("pairwise") or [], r.get("pairwise") or [])
                    hist["bit_identical_pairs" if same else "within_tolerance_only"] += 1
                    if not same:
                        run.violation("counterexample", "correspondence(a): pairwise_ranks.tsv differs from the serial run", case=rcase,
                                      impl=d, clause="pairwise scores identical for every pool size and completion order")
                        continue
            if not enc.finite:
                continue            # rows and tables were compared above (text); the integer encoding for Coq needs finite scores
            calls = (r.get("schedules") or [])[:40]
            hist["amap_calls_checked"] += len(calls)
            exprs.append("(C09_schedules_ok [%s], same_multisetb %s %s, same_final_tableb %s %s)" % (
                "; ".join(sched_lit(s) for s in calls), enc.rows(all_rows(base)), enc.rows(all_rows(r)),
                enc.rows(all_rows(base)), enc.rows(all_rows(r))))
            meta.append((rcase, unordered, base, r))
    vals = vlib.coq_eval("C09", HEADER, exprs, shard=max(1, (len(exprs) + 11) // 12)) if exprs else []
    for (rcase, unordered, base, r), (scheds, same_ms, same_tab) in zip(meta, vals):
        if not all(scheds):
            run.obligations[-1] = (run.obligations[-1][0], False, "a recorded schedule is not an interleaving of an assignment")
            run.violation("broken-obligation", "harness pool produced a schedule outside the Coq contract", found_input=False,
                          extra=json.dumps(rcase)[:1500])
        if unordered:
            hist["unordered_runs"] += 1
            if same_ms and same_tab:
                same, tol, d = tables_equal(base.get("pairwise") or [], r.get("pairwise") or [])
                hist["unordered_runs_same_table"] += 1 if tol else 0
        elif not (same_ms and same_tab):
            run.violation("counterexample", "C09 checker: rows of the two runs are not the same multiset", case=rcase,
                          clause="pairwise scores identical for every completion order")
    if any(v["obligation"].startswith(("correspondence(a)", "impl-raises", "C09 checker")) for v in run.violations):
        run.obligations[-2] = (run.obligations[-2][0], False, "see violations")
    run.notes.append("pools that hand results back in completion order (outside the amap contract): %d runs, %d gave the same "
                     "final table as the serial run (C09_unordered_same explains why: names travel inside each triplet)" % (
                         hist["unordered_runs"], hist["unordered_runs_same_table"]))

    # ---------------- (b)/(c) fresh processes
    run.oblige("correspondence(b,c): identical pairwise_ranks.tsv for real pathos pools of every size and for every PYTHONHASHSEED "
               "(fresh command-line processes)", True)
    for cfg, idxs in cli_groups:
        rs = [cres[i] for i in idxs]
        hist["cli_runs"] += len(rs)
        hist["cli_wall_max"] = max([hist["cli_wall_max"]] + [r.get("wall", 0) for r in rs])
        mat = [[r.get("threads"), r.get("hashseed")] for r in rs]
        rcase = {"kind": "cli", "config": cfg, "matrix": mat,
                 "command_lines": [r.get("command_line") for r in rs]}          # informational; --replay uses config + matrix
        run.count_case({"cli": cfg, "matrix": mat}, True)
        bad = [r for r in rs if r.get("rc") != 0 or r.get("pairwise_text") is None]
        if bad:
            run.violation("counterexample", "command line run fails", case=rcase,
                          impl=[{"threads": r.get("threads"), "hashseed": r.get("hashseed"), "rc": r.get("rc"), "stderr": r.get("stderr")} for r in bad][:3],
                          clause="repeated fresh runs terminate and write pairwise_ranks.tsv")
            continue
        ref = rs[0]
        for r in rs[1:]:
            same, tol, d = tables_equal(ref["pairwise_text"], r["pairwise_text"])
            hist["bit_identical_pairs" if same else "within_tolerance_only"] += 1
            if (r["threads"], r["hashseed"]) == (ref["threads"], ref["hashseed"]) or any(
                    (r["threads"], r["hashseed"]) == (q["threads"], q["hashseed"]) for q in rs[:rs.index(r)]):
                hist["exact_repeats"] = hist.get("exact_repeats", 0) + 1
            if not same:
                what = ("exact repeat (threads %s, PYTHONHASHSEED %s)" % (r["threads"], r["hashseed"])) if (
                    r["threads"], r["hashseed"]) == (ref["threads"], ref["hashseed"]) else (
                    "worker count %s vs %s" % (ref["threads"], r["threads"])) if r["hashseed"] == ref["hashseed"] else (
                    "PYTHONHASHSEED %s vs %s (threads %s vs %s)" % (ref["hashseed"], r["hashseed"], ref["threads"], r["threads"]))
                run.violation("counterexample", "correspondence(b,c): pairwise_ranks.tsv differs between fresh runs", case=rcase,
                              impl={"runs": what, "first_difference": d,
                                    "command_lines": [ref.get("command_line"), r.get("command_line")]},
                              clause="pairwise scores identical for every worker-pool size and across repeated fresh runs")
                break
    if any(v["obligation"].startswith(("correspondence(b,c)", "command line")) for v in run.violations):
        run.obligations[-1] = (run.obligations[-1][0], False, "see violations")

    # the replay file is written for the first violation: prefer a fresh-process one (it carries the command lines)
    run.violations.sort(key=lambda v: 0 if isinstance(v.get("case"), dict) and v["case"].get("kind") == "cli" else 1)
    run.cov["input_distribution"] = hist
    run.cov["exhaustive"] = False
    run.cov["partial"] = ("the OS scheduler, pathos/multiprocess/dill and the purity of the per-pair scorer are not modelled; "
                          "they are exercised by the harness pools and by the real pools in fresh processes")
    run.cov["tolerance"] = "none: tables are compared as text after a canonical sort and must be bit-identical (pool sizes, schedules, hash seeds, exact repeats)"
    run.samples = [groups[0][1]] if groups and len(groups[0]) > 1 else []
    if cli_groups:
        run.samples.append({"cli": cli_groups[0][0], "matrix": cli_matrix(run.tier) if replay is None else None})
    run.assumptions += [
        "the per-combination scorer is a function of (combination, batch data) - assumed by the model, tested by (a)-(c)",
        "harness pools execute all tasks in one process; worker-local state would show as order dependence there, and as "
        "pool-size dependence with the real pools of (b)",
        "within one harness process the module-level seeds (random.seed(123), np.random.seed(123)) and the module globals are "
        "re-initialised before every run to the values a fresh process has",
    ]
    run.trusted += ["harness: tools/props/c09.py, tools/impl/impl_c09.py, tools/impl/impl_c08_lib.py (pool objects, file writer)",
                    "coqparse.py (reads the terms coqc prints)", "pathos / multiprocess / dill / the OS scheduler (not modelled)"]
