"""E2Ecap — the composed model of the whole ranking task WITH A BINDING per-batch combination cap (coq/E2E/CapCompose.v:
Compose.v with C07's sampler in the loop) against the REAL task.  The correspondence is RELATIONAL, as for C06/C07: property C07
leaves the tie-breaking among equally often evaluated candidates free, so the pairs the implementation evaluated in every batch
are an INPUT of the model:
  (c) they must be an admissible selection history: `sels_ok` = C07's checker `valid_runb` on `derived_obs`, evaluated in Coq;
  (a) the whole pairwise_ranks.tsv must be `e2ecap_core_sel` for THOSE selections (median over exactly the batches that evaluated
      the pair);
  (b) combination_estimation_counts.json must be `cap_counts_sel` (= Sampler.sel_count) for THOSE selections.
Whether the selections equal the transcription Sampler.step (stable sort) is only counted (tie_breaking_differs_from_transcription).

Not one of the 20 properties: an extra obligation (like E2E) that ties C07 into the end-to-end composition.
Generators, float-vs-rational decision, table comparison and shrink variants are imported from props/e2e.py."""
from __future__ import annotations

import json
import os
import time
from collections import Counter
from concurrent.futures import ThreadPoolExecutor
from fractions import Fraction

import coqparse
import vlib
from props import e2e as E

LEVEL = "proof"
RULE = ("generated csv-raw files (2-5 columns = 2..15 candidate pairs, label at any position, cells / malformed lines / line "
        "terminators from the E2E generator) with small B and 1..25 batches (mostly 3..12; a few files with a tail batch of 1025 "
        "rows), combination_number_upper_bound chosen to BIND (1 .. #candidates-1; 75 %) or not (#candidates, #candidates+1, 2^15), "
        "both target_ranking_only modes, heuristic max-value-coverage / Constant, run through the real outrank_task_conduct_ranking "
        "(args from the repository's parser, serial pool object); the pairs it evaluated per batch are judged by C07's checker and fed to "
        "e2ecap_core_sel / cap_counts_sel, evaluated by vm_compute on the same text; "
        "non-trivial = the cap binds and at least two batches are processed; distinct = distinct (text, config)")
THEOREMS = ["E2Ecap_spec", "E2Ecap_contributing_def", "E2Ecap_spec_constant", "E2Ecap_fair", "E2Ecap_counts", "E2Ecap_nonbinding",
            "E2Ecap_selections", "E2Ecap_shuffle_independent", "E2Ecap_batch_rows_instance", "E2Ecap_text_run",
            "E2Ecap_wellformed_run", "E2Ecap_sels_ok_def", "E2Ecap_spec_rel", "E2Ecap_spec_constant_rel", "E2Ecap_fair_rel",
            "E2Ecap_counts_rel", "E2Ecap_sel_instance", "E2Ecap_checker_complete", "E2Ecap_examples"]
HEADER = ("From Coq Require Import List NArith ZArith QArith.\nFrom Outrank Require Pipeline.Sampler.\n"
          "From Outrank Require Import E2E.Compose E2E.CapCompose.\nImport ListNotations.\nOpen Scope N_scope.")
H_COV, H_CONST = E.H_COV, E.H_CONST
KEYS = ("text", "B", "s", "label", "tro", "heuristic", "cap")

L_STREAM = "layer streaming loop / line parser (C08, C16): which rows form the batches"
L_SAMPLER = "layer sampler (C07: prior_combinations_sample on the process-global counter, threaded through the batches)"
L_ROWS = "layer rank graph rows (C06: mirror rows / Constant once)"
L_COUNTS = "layer reported counts (C07: combination_estimation_counts.json = per-candidate number of selections)"
L_TABLE = "layer table (C05 batch scores / C08 median over exactly the batches that evaluated the pair, final sort)"


# ---------------------------------------------------------------------------------------------------------------
# generation

def ncands_of(ncols, tro):
    return ncols if tro == "True" else ncols * (ncols + 1) // 2


def pick_cap(rng, ncands):
    r = rng.random()
    if r < 0.75 and ncands > 1:
        return rng.randint(1, ncands - 1)
    if r < 0.83:
        return ncands
    if r < 0.90:
        return ncands + 1
    if r < 0.95:
        return 1
    return 2 ** 15


def gen_case(rng, family):
    """family 'batches': own layout (B, number of batches and sub-sampling chosen first; lines from E's row generators);
    'e2e-small' / 'e2e-tail': a file of props.e2e.gen_case with the cap replaced."""
    if family.startswith("e2e-"):
        c = E.gen_case(rng, family[4:])
        while c["ncols"] > 5:
            c = E.gen_case(rng, family[4:])
        c["family"] = family
        nc = ncands_of(c["ncols"], c["tro"])
        c["cap"] = pick_cap(rng, nc)
        c["ncands"] = nc
        return c
    ncols = rng.choice([2, 3, 3, 4, 4, 5])
    lp = rng.randrange(ncols)
    nm = rng.choice(E.NAMESETS)
    label = rng.choice(E.LABELS)
    names = [label if j == lp else nm(j) for j in range(ncols)]
    s = rng.choice([1, 1, 1, 2, 3])
    B = rng.choice([2, 3, 4, 5, 7, 8, 12, 16, 30])
    nb = rng.choice([1, 2, 3, 3, 4, 4, 5, 5, 6, 7, 8, 9, 10, 11, 12, 12, 17, 25])
    p_bad = rng.choice([0, 0, 0, 0.03])
    p_special = rng.choice([0, 0, 0.02])
    kinds = E.gen_columns(rng, ncols, lp, True)
    G = nb * B + rng.randrange(B)          # selected well-formed lines: nb full batches and a remainder that is dropped
    lines = []
    good_sel = 0
    feats = {"bad_selected": 0, "quoted": 0}
    import csv as _csv
    while good_sel < G:
        pos = len(lines) + 1
        cells = E.gen_good_row(rng, kinds, lp, pos, p_special)
        if rng.random() < p_bad:
            ln = E.gen_bad_line(rng, cells)
            try:
                nf = len(list(_csv.reader([ln + "\n"])).pop())
            except Exception:
                nf = -1
            if pos % s == 0:
                if nf == ncols:
                    good_sel += 1
                else:
                    feats["bad_selected"] += 1
        else:
            ln = E.render_row(cells, 0)
            if pos % s == 0:
                good_sel += 1
        if '"' in ln:
            feats["quoted"] += 1
        lines.append(ln)
    eolk = rng.choice(["lf", "lf", "lf", "crlf", "mixed"])
    text = []
    for ln in [",".join(names)] + lines:
        eol = "\n" if eolk == "lf" else ("\r\n" if eolk == "crlf" else rng.choice(["\n", "\r\n", "\r"]))
        text.append(ln + eol)
    text = "".join(text).encode("utf-8").decode("latin1")
    heuristic = H_CONST if rng.random() < 0.2 else H_COV
    tro = rng.choice(["True", "False"])
    nc = ncands_of(ncols, tro)
    return {"text": text, "B": B, "s": s, "label": label, "tro": tro, "heuristic": heuristic, "cap": pick_cap(rng, nc),
            "family": family, "ncols": ncols, "nlines": len(lines), "good_selected": good_sel, "eol": eolk,
            "final_newline": True, "features": feats, "ncands": nc, "planned_batches": nb}


def grid_cases(rng):
    """Systematic scope (thorough tier): every (ncols 2..5, mode, heuristic, cap 1..#candidates+1) with enough batches of 2 rows
    for every candidate to be evaluated at least twice; cells drawn once per ncols."""
    out = []
    for ncols in (2, 3, 4, 5):
        names = ["label" if j == ncols // 2 else "c%d" % j for j in range(ncols)]
        for tro in ("True", "False"):
            nc = ncands_of(ncols, tro)
            for cap in range(1, nc + 2):
                nb = min(40, -(-2 * nc // cap) + 1)
                rows = [",".join(rng.choice(["a", "b", "c"][:2 + (j % 2)]) for j in range(ncols)) for _ in range(2 * nb + 1)]
                text = ",".join(names) + "\n" + "".join(r + "\n" for r in rows)
                for heur in (H_COV, H_CONST):
                    out.append({"text": text, "B": 2, "s": 1, "label": "label", "tro": tro, "heuristic": heur, "cap": cap,
                                "family": "grid", "ncols": ncols, "nlines": len(rows), "good_selected": len(rows), "eol": "lf",
                                "final_newline": True, "features": {"bad_selected": 0, "quoted": 0}, "ncands": nc,
                                "planned_batches": nb})
    return out


def load_corpus():
    d = os.path.join(vlib.VERIF, "corpus", "E2ECAP")
    out = []
    if os.path.isdir(d):
        for f in sorted(os.listdir(d)):
            if f.endswith(".json"):
                out.append(json.load(open(os.path.join(d, f))))
    return out


# ---------------------------------------------------------------------------------------------------------------
# Coq side (relational: the implementation's per-batch selections are an INPUT of the model)

def impl_psels(case, res):
    """The pairs every batch evaluated, with multiplicity, read off the triplets mixed_rank_graph returned AS A MULTISET (property C06
    leaves the order of a batch's rows free): Constant -> one row per evaluated candidate; otherwise every evaluated candidate
    contributes its row and the mirrored row (a self pair (x, x): two rows (x, x)), so per unordered pair {a, b}
    evaluations = rows / 2, rows(a, b) = rows(b, a), and all rows of the pair carry one score.
    -> (psels, rows_problem): rows_problem names a batch with a row without its mirror / unequal scores (layer C06)."""
    const = case["heuristic"] == H_CONST
    psels, problem = [], None
    for k, b in enumerate(res.get("batches") or []):
        pairs = [tuple(p) for p in (b.get("pairs") or [])]
        scores = b.get("scores") or [None] * len(pairs)
        if b.get("pairs") is None and problem is None:
            problem = "batch %d (0-based): no triplets returned (%s)" % (k, b.get("pairs_error"))
        if const:
            psels.append(pairs)
            continue
        rows = Counter(pairs)
        order, per_pair, sc = [], Counter(), {}
        for pr, s in zip(pairs, scores):
            u = ukey(pr)
            if u not in per_pair:
                order.append(pr)
            per_pair[u] += 1
            sc.setdefault(u, []).append(s)
        sel = []
        for pr in order:
            u = ukey(pr)
            n = per_pair[u]
            a, b2 = pr
            if problem is None:
                if n % 2 == 1 or (a != b2 and rows[(a, b2)] != rows[(b2, a)]):
                    problem = ("batch %d (0-based): a row without its mirror: pair {%s, %s} has %d rows (%d as (%s, %s), %d as (%s, %s))" % (
                        k, a, b2, n, rows[(a, b2)], a, b2, rows[(b2, a)] if a != b2 else rows[(a, b2)], b2, a))
                elif any(x != sc[u][0] for x in sc[u]) and not all(isinstance(x, float) and x != x for x in sc[u]):
                    problem = "batch %d (0-based): the rows of pair {%s, %s} carry different scores %s" % (k, a, b2, sc[u][:4])
            sel.extend([pr] * max(1, (n + 1) // 2))
        psels.append(sel)
    return psels, problem


def psels_lit(psels):
    return "[" + "; ".join("[" + "; ".join("(%s, %s)" % (vlib.strlit(a), vlib.strlit(b)) for a, b in sel) + "]" for sel in psels) + "]"


def coq_expr(case, psels, fn="e2ecap_eval_rel"):
    return "%s %s %s %s" % (fn, E.coq_cfg(case), vlib.strlit(case["text"]), psels_lit(psels))


def coq_eval(tag, exprs, weights, jobs=12, timeout=1500):
    """`Eval vm_compute` of every expression, spread over at most `jobs` coqc processes by weight (as props.e2e.coq_eval,
    with this module's header)."""
    if not exprs:
        return []
    os.makedirs(vlib.CASES, exist_ok=True)
    nsh = max(1, min(jobs, len(exprs)))
    shards = [[] for _ in range(nsh)]
    load = [0] * nsh
    for i in sorted(range(len(exprs)), key=lambda i: -weights[i]):
        k = load.index(min(load))
        shards[k].append(i)
        load[k] += weights[i] + 200
    base = "%s_%d" % (tag, os.getpid())

    def one(k):
        path = os.path.join(vlib.CASES, "cases_%s_%d.v" % (base, k))
        with open(path, "w") as f:
            f.write(HEADER + "\nSet Printing Width 10000000. Set Printing Depth 10000000.\n")
            for i in shards[k]:
                f.write("Eval vm_compute in (%s).\n" % exprs[i])
        rc, out = vlib._run(["bash", "-c", "ulimit -s unlimited 2>/dev/null; ulimit -v %d 2>/dev/null; exec coqc -Q '%s' Outrank '%s'" % (
            E.COQ_MEM_KB, vlib.COQ, path)], timeout, cwd=vlib.CASES)
        vlib._cleanup(path)
        if rc != 0:
            raise vlib.Broken("model-eval:E2Ecap", out[-3000:])
        vals = coqparse.parse_evals(out)
        if len(vals) != len(shards[k]):
            raise vlib.Broken("model-eval:E2Ecap", "expected %d results got %d\n%s" % (len(shards[k]), len(vals), out[-2000:]))
        return vals

    res = [None] * len(exprs)
    with ThreadPoolExecutor(max_workers=nsh) as ex:
        for k, vals in enumerate(ex.map(one, range(nsh))):
            for i, v in zip(shards[k], vals):
                res[i] = v
    return res


dec = E.dec


def model_view(mval):
    """e2ecap_eval_rel -> dict"""
    status, ok, steps, table, counts, same, (ncands, sizes), isels = mval
    return {"status": status, "ok": bool(ok), "steps": [bool(x) for x in steps], "table": table,
            "counts": {str((dec(a), dec(b))): n for a, b, n in counts}, "same": bool(same),
            "ncands": ncands, "sizes": list(sizes), "isels": [list(s) for s in isels]}


def run_cases(cases, root, detail=False):
    return vlib.run_impl("impl_e2ecap.py", {"cases": [{k: c[k] for k in KEYS} for c in cases], "root": root,
                                            "detail": detail})["results"]


def run_both(cases, root, tag, detail=False):
    """implementation first (its selections are the model's input), then the model"""
    results = run_cases(cases, root, detail)
    ps = [impl_psels(c, r) for c, r in zip(cases, results)]
    mvals = coq_eval(tag, [coq_expr(c, p[0]) for c, p in zip(cases, ps)], [len(c["text"]) for c in cases])
    return results, ps, mvals


# ---------------------------------------------------------------------------------------------------------------
# comparison

def ukey(p):
    return tuple(sorted((p[0], p[1])))


def impl_counts_summary(res):
    """what the implementation's own outputs say about fairness / bookkeeping (information for the clause text)"""
    out = []
    cnt = res.get("counts")
    if cnt:
        vals = [v for _, v in cnt]
        out.append("implementation's reported counts: min %s max %s (%s)" % (
            min(vals), max(vals), "fair" if max(vals) - min(vals) <= 1 else "NOT fair: differ by more than one"))
        tally = Counter()
        for b in res.get("batches") or []:
            seen = Counter(ukey(p) for p in (b.get("pairs") or []))
            for k in seen:
                tally[k] += 1
        rep = Counter()
        try:
            import ast
            for k, v in cnt:
                t = ast.literal_eval(k)
                rep[ukey(t)] += v
            bad = [k for k in set(rep) | set(tally) if rep.get(k, 0) != tally.get(k, 0)]
            out.append("reported counts %s the number of batches in which each pair was evaluated" % (
                "EQUAL" if not bad else "DIFFER from (e.g. %s: reported %s, evaluated in %s batches)" % (
                    bad[0], rep.get(bad[0], 0), tally.get(bad[0], 0))))
        except Exception:
            out.append("reported count keys are not str(tuple): %r" % (cnt[0][0],))
    return "; ".join(out)


def explain_rejection(case, psels, mv):
    """sels_ok = false: name the first rejected batch and the clause of C07's relation it breaks (the verdict is Coq's)."""
    steps, isels, nc = mv["steps"], mv["isels"], mv["ncands"]
    if len(isels) != len(mv["sizes"]):
        return ("one selection per processed batch", "%d selections for %d batches" % (len(isels), len(mv["sizes"])))
    k = next((i for i, s in enumerate(steps) if not s), None)
    if k is None:
        return ("every batch's selection is accepted by C07's relation", "valid_runb false, steps %s" % steps[:12])
    sel, names = isels[k], psels[k]
    want = min(nc, case["cap"])
    prior = Counter(i for s in isels[:k] for i in s)
    if any(i >= nc for i in sel):
        bad = [names[j] for j, i in enumerate(sel) if i >= nc]
        return ("every evaluated pair is one of the candidates", "batch %d (0-based) evaluated %s, not a candidate pair" % (k, bad[:3]))
    if len(set(sel)) != len(sel):
        dup = [names[j] for j, i in enumerate(sel) if sel.count(i) > 1]
        return ("each batch evaluates exactly min(cap, #candidates) DISTINCT candidates", "batch %d (0-based) evaluated %s more than once: %s" % (
            k, sorted(set(dup))[:3], names))
    if len(sel) != want:
        return ("each batch evaluates exactly min(cap, #candidates) distinct candidates",
                "batch %d (0-based) evaluated %d pairs, min(cap %d, #candidates %d) = %d: %s" % (k, len(sel), case["cap"], nc, want, names))
    worst = max(sel, key=lambda i: prior[i])
    skipped = [i for i in range(nc) if i not in sel and prior[i] < prior[worst]]
    return ("each batch evaluates the LEAST-evaluated candidates (ties free)",
            "batch %d (0-based) evaluated %s, already evaluated %d times before, while candidate id %s was evaluated only %s times and is "
            "left out; selections so far (candidate ids) %s" % (k, names[sel.index(worst)], prior[worst], skipped[:3],
                                                               [prior[i] for i in skipped[:3]], isels[:k + 1]))


def compare_counts(case, res, mv):
    """(b) combination_estimation_counts.json = the counts the implementation's own selections imply"""
    cnt = res.get("counts")
    if cnt is None:
        return ("combination_estimation_counts.json is written", "no file (%s)" % res.get("counts_error"), L_COUNTS)
    keys = [k for k, _ in cnt]
    if len(set(keys)) != len(keys):
        return ("one entry per candidate", "duplicate keys %s" % [k for k, n in Counter(keys).items() if n > 1][:3], L_COUNTS)
    got = dict((k, v) for k, v in cnt)
    want = mv["counts"]
    if got != want:
        only_i = sorted(set(got) - set(want))[:4]
        only_m = sorted(set(want) - set(got))[:4]
        diff = [(k, got[k], want[k]) for k in sorted(set(got) & set(want)) if got[k] != want[k]][:4]
        return ("the reported count of every candidate = the number of batches that selected it (never-selected candidates: 0)",
                "keys only in the implementation's file %s, only in the model %s, (key, implementation, its own selections) %s" % (only_i, only_m, diff),
                L_COUNTS)
    return None


def compare(case, res, ps, mval):
    """-> None when the run is admissible and agrees with the relational model, else (clause, detail, layer)."""
    psels, rows_problem = ps
    mv = model_view(mval)
    d = E.compare(case, res, (mv["status"], mv["table"]))
    if d is not None and d[0] == "excluded":
        return ("excluded", d[1], "")
    early = mv["status"] != 0 or (not res.get("ok") and not E.known_constant_crash(case, res)) or res.get("pairwise") is None
    if early:
        return None if d is None else (d[0], d[1], "layer task control flow")
    isz = [b.get("n") for b in (res.get("batches") or [])]
    if isz != mv["sizes"]:
        return ("the batches are the full chunks of B accepted rows (+ a tail of more than 1024)", "batch sizes implementation %s, model %s" % (
            isz[:12], mv["sizes"][:12]), L_STREAM)
    if rows_problem is not None:
        return ("every evaluated pair yields its row and the mirrored row (Constant: one row)", rows_problem, L_ROWS)
    if not mv["ok"]:
        clause, detail = explain_rejection(case, psels, mv)
        return (clause, detail + " (C07's checker valid_runb on the implementation's selections = false, per batch %s)" % (
            ["ok" if s else "REJECTED" for s in mv["steps"]][:16],), L_SAMPLER)
    dc = compare_counts(case, res, mv)
    if dc is not None:
        return dc
    if d is not None:
        clause = d[0]
        if clause.startswith("score = median"):
            clause = "score = median over exactly the batches in which the pair was evaluated, of max_(u,v) n_uv / n"
        elif clause.startswith("pairs = "):
            clause = "pairs = the requested ordered pairs evaluated in at least one batch (both orientations), nothing else"
        return (clause, d[1], L_TABLE)
    return None


def diagnose_table(case, res_d, dval):
    """table-only disagreement: per-batch scores (C05) or the aggregation (C08)?"""
    try:
        header, D, cands, batches, invalid = dval
        for k, (b, mb) in enumerate(zip(res_d.get("batches") or [], batches)):
            if b.get("triplets") is None:
                continue
            mt = sorted((dec(a), dec(c), Fraction(n, D)) for a, c, n in mb[1])
            it = sorted((a, c, f) for a, c, f in b["triplets"])
            if [(a, c) for a, c, _ in mt] != [(a, c) for a, c, _ in it]:
                return "batch %d rows differ: implementation %s, model %s" % (k, [(a, c) for a, c, _ in it][:8], [(a, c) for a, c, _ in mt][:8])
            for (a, c, q), (_, _, f) in zip(mt, it):
                if not E.score_close(f, q):
                    return "layer batch score (C05): batch %d pair (%s, %s): implementation %.17g, model %s" % (k, a, c, f, q)
        return ("layer aggregation (C08: median per ordered pair over the batches that evaluated it, final sort): all per-batch rows "
                "and scores agree")
    except Exception as e:
        return "diagnosis failed: %s: %s" % (type(e).__name__, e)


# ---------------------------------------------------------------------------------------------------------------
# shrinking: fewer batches / rows / columns (props.e2e.shrink_variants), judged by this module's compare

def shrink_variants(case):
    out = E.shrink_variants(case)
    ls = E.split_lines(case["text"])
    n = len(ls) - 1
    per = case["B"] * case["s"]
    for keep in (per * 2, per * 3, per * 4, n - per):        # fewer batches
        if 0 < keep < n:
            c2 = dict(case)
            c2["text"] = E.join_lines(ls[:1 + keep])
            c2["nlines"] = keep
            out.append(c2)
    return out


def shrink(case, clause, root, budget_s=60):
    t0 = time.time()
    best = case
    for rnd in range(8):
        if time.time() - t0 > budget_s:
            break
        vs = shrink_variants(best)
        if not vs:
            break
        try:
            rs, pss, ms = run_both(vs, "%s_shr%d" % (root, rnd), "E2Ecaps")
        except vlib.Broken:
            break
        cand = None
        for v, r, p, m in zip(vs, rs, pss, ms):
            d = compare(v, r, p, m)
            if d is not None and d[0] == clause and (cand is None or E.size_of(v) < E.size_of(cand)):
                cand = v
        if cand is None or E.size_of(cand) >= E.size_of(best):
            break
        best = cand
    return best


# ---------------------------------------------------------------------------------------------------------------

def check(run, replay):
    ok, log = vlib.build(["E2E/CapCompose.vo"])
    run.oblige("build:model E2E/CapCompose.vo (imports E2E/Compose.vo and the layer models unchanged)", ok, "" if ok else log[-1500:])
    if not ok:
        raise vlib.Broken("build:E2E/CapCompose.vo", log)
    vlib.standard_proof_phase(run, ["Props/E2Ecap.vo"], "Outrank.Props.E2Ecap", THEOREMS)

    if replay is not None:
        cases = [replay["case"]]
    else:
        cases = load_corpus()
        if run.tier == "quick":
            fams = ["batches"] * 220 + ["e2e-small"] * 40 + ["e2e-tail"] * 3
        else:
            fams = ["batches"] * 2600 + ["e2e-small"] * 500 + ["e2e-tail"] * 60
        for fam in fams:
            cases.append(gen_case(run.rng, fam))
        if run.tier == "thorough":
            g = grid_cases(run.rng)
            cases.extend(g)
            run.cov["systematic_scope"] = ("every (ncols 2..5, mode, heuristic, cap 1..#candidates+1) with enough batches for every "
                                           "candidate to be evaluated at least twice: %d files" % len(g))
    root = os.path.join(vlib.CACHE, "e2ecap", str(os.getpid()))
    results, pss, mvals = run_both(cases, root, "E2Ecap")
    run.oblige("correspondence (relational): the pairs the real ranking task evaluated in every batch are an admissible selection history "
               "(sels_ok: C07's checker valid_runb on derived_obs, evaluated in Coq), and for THOSE selections (a) the whole "
               "pairwise_ranks.tsv = e2ecap_core_sel (pairs exact; scores within 1e-15 relative; ascending), (b) "
               "combination_estimation_counts.json = cap_counts_sel (Sampler.sel_count)", True)

    hist = {"family": {}, "ncols": {}, "B": {}, "s": {}, "batches": {}, "heuristic": {}, "tro": {}, "status": {}, "ncands": {},
            "cap_vs_ncands": {"binding": 0, "equal": 0, "above": 0}, "cap": {}, "never_selected_candidates_files": 0,
            "constant_known_crash_at_os_remove": 0, "excluded": 0, "table_rows_compared": 0, "batch_selections_checked": 0,
            "count_entries_compared": 0, "lines_total": 0, "tie_breaking_differs_from_transcription": 0,
            "selections_equal_transcription": 0}
    failing = []
    for i, (c, r, p, m) in enumerate(zip(cases, results, pss, mvals)):
        mv = model_view(m)
        binding = case_binding(c, mv)
        run.count_case({k: c[k] for k in KEYS}, mv["status"] == 0 and binding and len(mv["sizes"]) >= 2)
        for key, val in (("family", c.get("family", "?")), ("ncols", c.get("ncols", "?")), ("B", c["B"]), ("s", c["s"]),
                         ("batches", len(mv["sizes"])), ("heuristic", c["heuristic"]), ("tro", c["tro"]), ("status", mv["status"]),
                         ("ncands", mv["ncands"]), ("cap", c["cap"] if c["cap"] < 20 else ">=20")):
            hist[key][str(val)] = hist[key].get(str(val), 0) + 1
        hist["cap_vs_ncands"]["binding" if binding else ("equal" if c["cap"] == mv["ncands"] else "above")] += 1
        hist["lines_total"] += c.get("nlines", 0)
        if mv["status"] == 0 and any(v == 0 for v in mv["counts"].values()):
            hist["never_selected_candidates_files"] += 1
        if E.known_constant_crash(c, r):
            hist["constant_known_crash_at_os_remove"] += 1
        d = compare(c, r, p, m)
        if d is not None and d[0] == "excluded":
            hist["excluded"] += 1
            continue
        if d is None:
            hist["table_rows_compared"] += len(r.get("pairwise") or [])
            hist["batch_selections_checked"] += len(mv["isels"])
            hist["count_entries_compared"] += len(mv["counts"])
            if mv["status"] == 0:
                # informational only: admissible, but not the selections of the transcription Sampler.step (sorted() is stable)
                hist["selections_equal_transcription" if mv["same"] else "tie_breaking_differs_from_transcription"] += 1
        else:
            failing.append((i, d))

    reported = {}
    t_shrink = 0.0
    for i, d in failing:
        if d[0] in reported:          # one (shrunk) representative per failing clause
            reported[d[0]]["count"] += 1
            continue
        case = cases[i]
        if replay is None and t_shrink < 90:          # keep a failing run near the quick-tier budget
            t1 = time.time()
            case = shrink(case, d[0], root)
            t_shrink += time.time() - t1
        r2, p2, m2, d2, extra = results[i], pss[i], mvals[i], d, ""
        try:
            rs, ps2, ms = run_both([case], root + "_d", "E2Ecapd", detail=True)
            r2, p2, m2 = rs[0], ps2[0], ms[0]
            d2 = compare(case, r2, p2, m2) or d
            if d2[2] == L_TABLE:
                dv = coq_eval("E2Ecapd", [coq_expr(case, p2[0], "e2ecap_detail_rel")], [1])[0]
                extra = diagnose_table(case, r2, dv)
        except vlib.Broken as b:
            extra = "diagnosis unavailable: %s" % b.obligation
        mv2 = model_view(m2)
        reported[d[0]] = {"count": 1}
        impl = {"pairwise": r2.get("pairwise"), "counts": r2.get("counts"), "exit": r2.get("exit"), "error": r2.get("error"),
                "nbatches": r2.get("nbatches"), "batch_sizes": [b.get("n") for b in (r2.get("batches") or [])],
                "batch_pairs": [b.get("pairs") for b in (r2.get("batches") or [])], "traceback": r2.get("traceback")}
        model = {"status": mv2["status"], "ncands": mv2["ncands"], "batch_sizes": mv2["sizes"],
                 "implementation_selections_as_candidate_ids": mv2["isels"], "sels_ok": mv2["ok"], "steps_ok": mv2["steps"],
                 "selections_equal_transcription": mv2["same"], "counts_for_these_selections": mv2["counts"],
                 "table_for_these_selections": [(dec(a), dec(b), "%s/%s" % (Fraction(n, dd).numerator, Fraction(n, dd).denominator), n / dd)
                                                for a, b, n, dd in mv2["table"]]}
        run.violation("counterexample", "E2Ecap correspondence (E2Ecap_spec_rel / _fair_rel / _counts_rel): real ranking task vs the relational composed model",
                      case=case, impl=impl, model=model,
                      clause="%s: %s || %s || %s || %s" % (d2[0], d2[1], d2[2], impl_counts_summary(r2), extra))
    if failing:
        run.obligations[-1] = (run.obligations[-1][0], False, "%d files disagree (%s)" % (
            len(failing), "; ".join("%s x%d" % (k, v["count"]) for k, v in reported.items())))
    run.cov["input_distribution"] = hist
    run.cov["exhaustive"] = False
    run.cov["tolerance"] = ("selections: admissibility decided by C07's Coq checker (ties free); pairs exact; score: the float written to "
                            "pairwise_ranks.tsv equals the correctly rounded double of the model's rational or lies within 1e-15 relative of it "
                            "(as E2E); order: non-decreasing floats (ties in any order); Constant: 0.0 exactly, unordered pairs each once; "
                            "counts: dictionaries equal (key = str(tuple), order free)")
    run.samples = [{k: (v if k != "text" else v[:300]) for k, v in c.items()} for c in cases[:3]]
    run.assumptions += [
        "heuristic in {max-value-coverage, Constant}; --data_source csv-raw; interaction_order 1, no transformers / noise / "
        "multivalue / subfeature / focus options; --include_cardinality_in_feature_names False; reference_model_JSON empty "
        "(so the candidate list of a batch depends on header / heuristic / mode / label only and is the same in every batch)",
        "combination_number_upper_bound >= 1 (0 evaluates nothing: the task exits without a table; negative = Python slice; both outside "
        "the fragment, the model answers status 1)",
        "one ranking task per process: the process-global counter GLOBAL_PRIOR_COMB_COUNTS starts empty (the harness clears the module "
        "globals between files); the order of evaluation inside a batch is free (E2Ecap_shuffle_independent)",
        "header line ASCII, names distinct, without commas / quotes / surrounding blanks; label among them; B >= 1, s >= 1",
        "the file is read as latin-1: text = list of byte values; no NUL, no field longer than csv.field_size_limit()",
        "a run that ends in an exception is reported (props.e2e.known_constant_crash: the former Constant crash at "
        "os.remove('ranking_checkpoint_tmp.tsv') was repaired in /repo 4add6a4 and is no longer accepted)",
        "tie-breaking among equally often evaluated candidates is FREE (property C07): any selection history accepted by C07's relation "
        "is admissible; histories that differ from the transcription Sampler.step are only counted (tie_breaking_differs_from_transcription)",
    ]
    run.trusted += ["harness: tools/props/e2ecap.py (generator, reading the evaluated pairs off the recorded triplets, comparison, diagnosis, "
                    "shrinker), the parts of tools/props/e2e.py it imports (row generators, float-vs-rational decision, table comparison, "
                    "shrink variants), tools/impl/impl_e2ecap.py (file writer, serial pool object, recording wrapper around "
                    "compute_batch_ranking) and the parts of tools/impl/impl_c08_lib.py it imports",
                    "CapCompose.id_of_pair (names -> candidate id, either orientation; harness glue evaluated inside Coq)",
                    "coqparse.py (reads the terms coqc prints)",
                    "pandas / numpy / csv.reader / json as in E2E; str(tuple) of ASCII names is the same in the harness interpreter and "
                    "the repository's",
                    "the layer models are imported unchanged; their own ties to the code are the checks C16, C08, C06, C07, C05 and E2E"]


def case_binding(case, mv):
    return 1 <= case["cap"] < mv["ncands"]
