"""C20 — derived synthetic structure (correlation, duplicates, combinations, labels, noise, down-sampling, self-description)
is as declared.  Anchored in outrank/algorithms/synthetic_data_generators/cc_generator.py."""
from __future__ import annotations

import json
import math
import os
from fractions import Fraction

import vlib

LEVEL = "proof"
RULE = ("seven generated families against the real CategoricalClassification methods: pipe (duplicates / linear, sin, xor, and, or "
        "combinations chained, exact cells + self-description), corr (|pearson - r| <= 1e-9 per added column, first columns kept, "
        "self-description), labels (linear / harness-defined dyadic / recorded nonlinear decision values; scalar, list and ndarray "
        "class distributions; tie-free and tied; np.percentile modelled exactly in Q), noise_cat and noise_missing (RNG answer "
        "stream replayed by the Coq model, output must be reproduced exactly; Coq validators as fallback), down (resample / "
        "shuffle answers replayed), session (random call sequences, dataset_info compared exactly), history and corr_history "
        "(several calls on ONE generator object, each on its own input - fresh literal, generate_data() of the same object, or "
        "an earlier input / output with permuted rows / columns - EVERY call judged against its own clause on the matrix it was "
        "given and the self-description compared after every call; corr_history repeats generate_correlated with the same "
        "feature index and row count after the data changed), scale (legal int32 values up to 2^31-1, literal or declared through "
        "generate_data structure value lists; sums of 2..4 columns leave the int32 range, the model sums in Z), labels_reuse (the same "
        "class-distribution list / ndarray object passed to 2-3 generate_labels calls on different data, each judged against the "
        "distribution as first requested); non-trivial = the case "
        "exercises its clause (adds a column / has a binding cut point / flips at least one cell / drops at least one row); "
        "distinct = distinct canonical cases")
THEOREMS = ["C20_corr",
            "C20_corr_tan",
            "C20_corr_construction",
            "C20_dup",
            "C20_dup_info",
            "C20_dup_prefix_refuted",
            "C20_combo",
            "C20_corr_info",
            "C20_info_exact",
            "C20_info_call",
            "C20_info_old_refuted",
            "C20_labels_mono",
            "C20_labels_count",
            "C20_labels_prop",
            "C20_labels_class_sizes_partial",
            "C20_labels_cumulative_partial",
            "C20_labels_proportion",
            "C20_labels_proportion_partial",
            "C20_labels_cumulative",
            "C20_labels_ndarray_note", "C20_labels_valid_sound",
            "C20_noise_cat",
            "C20_noise_cat_check_sound",
            "C20_noise_cat_progress", "C20_noise_slices_prefix_refuted",
            "C20_noise_missing",
            "C20_noise_missing_check_sound",
            "C20_noise_count",
            "C20_noise_cat_needs_standard_labels",
            "C20_downsample",
            "C20_downsample_check_sound"]
REAL_THEOREMS = {"C20_corr", "C20_corr_tan", "C20_corr_construction"}

HEADER = ("From Coq Require Import List ZArith QArith.\nFrom Outrank Require Import Synth.Derived.\n"
          "Import ListNotations.\nOpen Scope Z_scope.")
CFUN = {"linear": "CLinear", "nonlinear": "CNonlinear", "_xor": "CXor", "_and": "CAnd", "_or": "COr"}
CFUN_INV = {v: k for k, v in CFUN.items()}
DECISIONS = ("quarter_sum", "first_col", "neg_weighted")
TOL_CORR = 1e-9
# which reading of the two places modelled in two variants the repository implements (None would mean: decided per run by what
# reproduces the cases, see choose_modes).  Pinned: the per-label slices of categorical noise are the repaired ones (cumulative
# offsets, /repo 501d3c0) - the old reading is no longer accepted; a scalar p with n > 2 is ignored by generate_labels (the
# proposed repair was not taken; the accumulated percents come from the np.percentile oracle).
PINNED_VARIANTS = {"cum": True, "honour": False}


# ---------------------------------------------------------------------------------------------------------------
# literals

def z(i):
    return vlib.zlit(i)


def zl(xs):
    return vlib.zlist(xs)


def zll(xss):
    return vlib.zlistlist(xss)


def ql(fr):
    fr = Fraction(fr)
    return "(Qmake %s %d)" % (z(fr.numerator), fr.denominator)


def qll(frs):
    return "[" + "; ".join(ql(f) for f in frs) + "]"


def fr_of(cell):
    """impl cell -> Fraction | '-inf' | 'inf' | 'nan'"""
    if isinstance(cell, str):
        return cell
    if isinstance(cell, list):
        return Fraction(cell[0], cell[1])
    return Fraction(cell)


def frac(pair):
    return Fraction(pair[0], pair[1])


def transpose(rows, ncols=None):
    if not rows:
        return [[] for _ in range(ncols or 0)]
    return [list(c) for c in zip(*rows)] if rows[0] else []


def idx_values(spec):
    v = spec["v"]
    return list(v) if isinstance(v, list) else [v]


# ---------------------------------------------------------------------------------------------------------------
# generators

def gen_matrix(rng, nr, nc, style=None):
    style = style or rng.choice(["small", "small", "domains", "wide", "neg"])
    X = []
    for _ in range(nr):
        row = []
        for j in range(nc):
            if style == "small":
                row.append(rng.randint(0, 5))
            elif style == "domains":
                row.append(100 * j + rng.randint(0, 4))
            elif style == "wide":
                row.append(rng.randint(0, 1000))
            else:
                row.append(rng.randint(-60, 60))
        X.append(row)
    return X


def gen_idx(rng, nc, kmin=1, kmax=3, allow_scalar=True, allow_neg=True):
    k = rng.randint(kmin, kmax)
    vals = [rng.randint(-nc if allow_neg and rng.random() < 0.25 else 0, nc - 1) for _ in range(k)]
    how = rng.choice(["list", "list", "array"] + (["scalar", "npscalar"] if allow_scalar and k == 1 else []))
    if how in ("scalar", "npscalar"):
        return {"v": vals[0], "as": how}
    return {"v": vals, "as": how}


def gen_pipe(rng, big):
    nr, nc = rng.randint(1, 12 if not big else 40), rng.randint(1, 5)
    X = gen_matrix(rng, nr, nc)
    ops = []
    cur = nc
    nops = rng.randint(1, 5)
    for t in range(nops):
        if rng.random() < 0.5:
            op = {"op": "dup", "idx": gen_idx(rng, cur, kmin=0 if rng.random() < 0.1 else 1, kmax=3)}
            cur += len(idx_values(op["idx"]))
        else:
            fn = rng.choice(["linear", "linear", "_xor", "_and", "_or"] + (["nonlinear"] * 2 if t == nops - 1 else []))
            kmin = 2 if fn in ("_xor", "_and", "_or") else (0 if rng.random() < 0.1 else 1)
            op = {"op": "combo", "fn": fn, "idx": gen_idx(rng, cur, kmin=kmin, kmax=4, allow_scalar=False)}
            cur += 1
        ops.append(op)
    return {"kind": "pipe", "X": X, "dtype": rng.choice(["int32", "int64"]), "ops": ops}


R_GRID = [-0.99, -0.9, -0.5, -0.3, -0.1, 0.0, 0.1, 0.3, 0.5, 0.8, 0.9, 0.99, 0.999, 0.9995, -0.9999, 1 - 1e-9]
# edge inputs: r close to +-1 (1 - 1e-3 .. 1 - 1e-12), tiny |r|, exactly 0
R_EDGE = [s_ * (1 - 10.0 ** -k_) for k_ in range(3, 13) for s_ in (1, -1)] + [0.9995, -0.9999, 0.999999, 1e-12, -1e-12, 1e-6, -1e-9, 0.0]


def nonconstant_matrix(rng, nr, nc):
    while True:
        X = gen_matrix(rng, nr, nc, style=rng.choice(["small", "wide", "neg", "domains"]))
        if all(len({row[j] for row in X}) > 1 for j in range(nc)):
            return X


def gen_corr(rng, big):
    nr = rng.choice([3, 4, 5, 6, 7, 10, 20, 50]) if not big else rng.choice([3, 5, 50, 200, 500])
    if rng.random() < 0.08:
        nr = rng.choice([200, 500])
    edge = rng.random() < 0.35
    if edge and rng.random() < 0.4:
        nr = rng.randint(250, 300)
    nc = rng.randint(1, 4)
    X = nonconstant_matrix(rng, nr, nc)
    if edge:
        r = rng.choice(R_EDGE)
    else:
        r = rng.choice(R_GRID) if rng.random() < 0.7 else round(rng.uniform(-0.99, 0.99), 3)
    num, den = float(r).as_integer_ratio()
    case = {"kind": "corr", "X": X, "dtype": rng.choice(["int32", "int64"]), "idx": gen_idx(rng, nc, 1, 3, allow_neg=False),
            "r": [num, den], "seed": rng.randint(0, 10 ** 6)}
    if rng.random() < 0.03:
        # two rows: any two non-constant 2-vectors correlate at +-1, so "correlation r" with |r| < 1 cannot hold; observed only
        case["X"] = nonconstant_matrix(rng, 2, nc)
        case["probe"] = "two_rows"
    return case


def dyadic_dist(rng, n, denom=16):
    """n non-negative multiples of 1/denom, sum <= 1, mostly positive"""
    while True:
        parts = [rng.randint(0 if rng.random() < 0.15 else 1, max(1, denom // max(2, n - 1))) for _ in range(n)]
        if sum(parts) <= denom:
            if rng.random() < 0.6:
                parts[-1] = denom - sum(parts[:-1])
            return [[p, denom] for p in parts]


def gen_labels(rng, big):
    nr = rng.randint(1, 30 if not big else 120)
    nc = rng.randint(1, 4)
    relation = rng.choice(["linear"] * 4 + list(DECISIONS) + ["nonlinear"] * 2)
    tied = rng.random() < 0.4
    X = gen_matrix(rng, nr, nc, style="small" if tied else "wide")
    n = rng.choice([2, 2, 3, 3, 4, 5, 6, 8, 1])
    mode = rng.random()
    if n > 2:
        if mode < 0.35:
            p = {"v": [rng.randint(0, 16), 16], "as": "scalar"}
        else:
            p = {"v": dyadic_dist(rng, n, rng.choice([8, 16, 32])), "as": rng.choice(["list", "array", "array"])}
    else:
        if mode < 0.6:
            p = {"v": [rng.randint(0, 16), 16], "as": "scalar"}
        else:
            p = {"v": dyadic_dist(rng, max(n, 1) if rng.random() < 0.7 else 1, 16)[:max(1, n)], "as": rng.choice(["list", "array"])}
    return {"kind": "labels", "X": X, "dtype": rng.choice(["int32", "int64"]), "n": n, "p": p, "relation": relation,
            "k": rng.choice([2, 1, 3])}


P_CHOICES = [Fraction(0), Fraction(1, 16), Fraction(1, 8), Fraction(3, 16), Fraction(1, 4), Fraction(5, 16), Fraction(1, 2),
             Fraction(3, 4), Fraction(1), Fraction(1, 5), Fraction(1, 10), Fraction(3, 10), Fraction(1, 3), Fraction(7, 10),
             Fraction(29, 100)]


def gen_p(rng):
    f = float(rng.choice(P_CHOICES))
    return list(f.as_integer_ratio())


def gen_class_labels(rng, nr, k, min_count):
    y = []
    for lab in range(k):
        y += [lab] * min_count
    while len(y) < nr:
        y.append(rng.randint(0, k - 1))
    y = y[:max(nr, len(y))]
    rng.shuffle(y)
    return y


def gen_noise_cat(rng, big):
    k = rng.randint(2, 4)
    fragile = rng.random() < 0.12                      # a class with a single member: the code's slices may be empty
    nr = rng.randint(2 * k, 24 if not big else 80)
    y = gen_class_labels(rng, nr, k, 1 if fragile else 2)
    nc = rng.randint(1, 4)
    X = gen_matrix(rng, len(y), nc, style=rng.choice(["domains", "domains", "small", "wide"]))
    return {"kind": "noise_cat", "X": X, "dtype": rng.choice(["int32", "int64"]), "y": y, "p": gen_p(rng),
            "seed": rng.randint(0, 10 ** 6)}


def gen_noise_missing(rng, big):
    nr = rng.randint(1, 24 if not big else 80)
    nc = rng.randint(1, 4)
    X = gen_matrix(rng, nr, nc, style=rng.choice(["domains", "small", "wide", "neg"]))
    mode = rng.random()
    case = {"kind": "noise_missing", "X": X, "y": [0] * nr, "p": gen_p(rng), "seed": rng.randint(0, 10 ** 6)}
    if mode < 0.45:
        case["dtype"] = rng.choice(["int32", "int64"])
        case["marker"] = rng.choice([-1, -999, -7])
    elif mode < 0.6:
        case["dtype"] = "int64"
        case["marker"] = X[rng.randrange(nr)][rng.randrange(nc)]      # marker already present: count clause not claimed
    elif mode < 0.95:
        case["dtype"] = "float64"                                     # default marker -inf
    else:
        case["dtype"] = "int64"                                       # default -inf on an int array: stated precondition
        case["probe"] = "int-array-default-marker"
    return case


def gen_down(rng, big):
    k = rng.randint(1, 4)
    labs = rng.sample([-3, 0, 1, 2, 5, 7, 10], k)
    nr = rng.randint(k, 20 if not big else 80)
    y = [labs[i] for i in gen_class_labels(rng, nr, k, 1)]
    nc = rng.randint(1, 4)
    # rows tagged by their class in column 0 half of the time, so a row of another class can never pass for one of this class
    X = gen_matrix(rng, len(y), nc, style=rng.choice(["small", "wide", "domains"]))
    if rng.random() < 0.5:
        for i, row in enumerate(X):
            row[0] = 1000 + y[i]
    counts = {}
    for v in y:
        counts[v] = counts.get(v, 0) + 1
    mn = min(counts.values())
    mode = rng.random()
    if mode < 0.35:
        n = None
    elif mode < 0.9:
        n = rng.randint(1, mn)
    else:
        n = mn + rng.randint(1, 2)                                    # raises ValueError
    return {"kind": "down", "X": X, "dtype": rng.choice(["int32", "int64"]), "y": y, "n": n, "rs": rng.randint(0, 1000),
            "reshuffle": rng.random() < 0.5, "seed": rng.randint(0, 10 ** 6)}


def gen_session(rng, big):
    nr, nc = rng.randint(6, 14), rng.randint(2, 4)
    X = nonconstant_matrix(rng, nr, nc)
    ops = []
    cur_r, cur_c = nr, nc
    for _ in range(rng.randint(1, 7)):
        kind = rng.choice(["dup", "dup", "combo", "combo", "corr", "corr", "labels", "noise", "down"])
        if kind == "dup":
            op = {"op": "dup", "idx": gen_idx(rng, cur_c, 0 if rng.random() < 0.1 else 1, 3)}
            cur_c += len(idx_values(op["idx"]))
        elif kind == "combo":
            fn = rng.choice(["linear", "nonlinear", "_xor", "_and", "_or"])
            op = {"op": "combo", "fn": fn, "idx": gen_idx(rng, cur_c, 2, 3, allow_scalar=False)}
            cur_c += 1
        elif kind == "corr":
            if cur_r < 5:
                continue
            r = rng.choice(R_GRID)
            op = {"op": "corr", "idx": gen_idx(rng, nc, 1, 3, allow_neg=False), "r": list(float(r).as_integer_ratio())}
            cur_c += len(idx_values(op["idx"]))
        elif kind == "labels":
            n = rng.choice([2, 3, 4])
            op = {"op": "labels", "relation": rng.choice(["linear", "nonlinear", "quarter_sum"]), "n": n,
                  "p": {"v": [1, 4], "as": "scalar"} if rng.random() < 0.5 else {"v": dyadic_dist(rng, n, 16), "as": "array"}}
        elif kind == "noise":
            op = {"op": "noise", "type": "missing", "marker": -1, "p": gen_p(rng), "y": [0] * cur_r}
        else:
            k = rng.randint(1, 3)
            y = gen_class_labels(rng, cur_r, k, 2)[:cur_r]
            if len(set(y)) < k or len(y) != cur_r:
                continue
            cnt = min(y.count(v) for v in set(y))
            n = rng.randint(2, cnt) if cnt >= 2 else cnt
            op = {"op": "down", "y": y, "n": n, "seed": rng.randint(0, 99), "reshuffle": rng.random() < 0.5}
            cur_r = n * len(set(y))
        ops.append(op)
    return {"kind": "session", "X": X, "dtype": "int64", "ops": ops, "seed": rng.randint(0, 10 ** 6)}


# ---- histories: several calls on ONE generator object, every call judged against its own clause ----------------

def _hist_noise_step(rng, nr, src, cat):
    st = {"kind": "noise_cat" if cat else "noise_missing", "X_from": src, "p": list(float(rng.choice([Fraction(1, 4), Fraction(5, 16), Fraction(1, 2), Fraction(3, 4)])).as_integer_ratio())}
    if cat:
        k = rng.randint(2, min(3, max(2, nr // 2)))
        st["y"] = gen_class_labels(rng, nr, k, 2)[:nr]
    else:
        st["y"] = [0] * nr
        st["marker"] = rng.choice([-1, -999])
    return st


def _literal(step, X, rng):
    step = dict(step)
    step.pop("X_from", None)
    step["X"] = X
    step["dtype"] = rng.choice(["int32", "int64"])
    return step


def gen_corr_history(rng, big):
    """generate_correlated, then the data changes (noise / fresh matrix / permuted rows or columns / generate_data on the same
    object), then generate_correlated again with the same feature index and row count on the same object"""
    nr = rng.choice([6, 8, 10, 12, 20, 30]) if not big else rng.choice([6, 12, 40, 120])
    nc = rng.randint(2, 4)
    X0 = nonconstant_matrix(rng, nr, nc)
    j = rng.randrange(nc)

    def corr_step(src):
        others = [c for c in range(nc) if c != j]
        idx = [j] + rng.sample(others, rng.randint(0, min(2, len(others))))
        rng.shuffle(idx)
        spec = {"v": idx, "as": rng.choice(["list", "array"])} if len(idx) > 1 or rng.random() < 0.5 else {"v": j, "as": "scalar"}
        r = rng.choice(R_GRID) if rng.random() < 0.7 else round(rng.uniform(-0.95, 0.95), 3)
        st = {"kind": "corr", "idx": spec, "r": list(float(r).as_integer_ratio())}
        if isinstance(src, list):
            return _literal(st, src, rng)
        st["X_from"] = src
        return st

    steps = [corr_step(X0)]
    cur = {"step": 0, "what": "in"}          # where the current matrix lives
    for _ in range(rng.randint(1, 3)):
        mode = rng.choice(["noise_cat", "noise_cat", "noise_missing", "fresh", "rowperm", "colperm", "gen", "same"])
        if mode in ("noise_cat", "noise_missing"):
            steps.append(_hist_noise_step(rng, nr, cur, mode == "noise_cat"))
            cur = {"step": len(steps) - 1, "what": "out"}
            steps.append(corr_step(cur))
        elif mode == "fresh":
            steps.append(corr_step(nonconstant_matrix(rng, nr, nc)))
            cur = {"step": len(steps) - 1, "what": "in"}
        elif mode == "rowperm":
            perm = list(range(nr))
            rng.shuffle(perm)
            steps.append(corr_step(dict(cur, rowperm=perm)))
            cur = {"step": len(steps) - 1, "what": "in"}
        elif mode == "colperm":
            perm = list(range(nc))
            rng.shuffle(perm)
            steps.append(corr_step(dict(cur, colperm=perm)))
            cur = {"step": len(steps) - 1, "what": "in"}
        elif mode == "gen":
            steps.append(corr_step({"gen": {"n_features": nc, "n_samples": nr, "cardinality": rng.randint(3, 9), "seed": rng.randint(0, 999)}}))
            cur = {"step": len(steps) - 1, "what": "in"}
        else:
            steps.append(corr_step(cur))       # sweeping r on unchanged data
    return {"kind": "history", "steps": steps, "seed": rng.randint(0, 10 ** 6)}


def gen_history(rng, big):
    """random calls of every kind on one object; inputs are fresh literals (often of a shape used before), generate_data()
    results, or earlier inputs / integer outputs, possibly with permuted rows or columns"""
    steps, shapes_in, shapes_out = [], [], []
    base_nr, base_nc = rng.choice([6, 8, 10, 12, 16]), rng.randint(2, 4)
    if rng.random() < 0.25:
        # the generator's own output with a large value domain goes straight into the linear labelling (decision = sum(2x+3))
        n = rng.choice([2, 3])
        steps.append({"kind": "labels", "n": n, "relation": "linear", "k": 2,
                      "p": {"v": [8, 16], "as": "scalar"} if n == 2 else {"v": dyadic_dist(rng, n, 16), "as": rng.choice(["list", "array"])},
                      "X_from": {"gen": {"n_features": base_nc, "n_samples": base_nr + 8, "cardinality": rng.choice([130, 200, 250]),
                                         "seed": rng.randint(0, 999)}}})
        shapes_in.append((base_nr + 8, base_nc))
        shapes_out.append(None)
    for _ in range(rng.randint(3, 7)):
        # ---- choose the input
        cands = [(i, "in", shapes_in[i]) for i in range(len(steps))] + [(i, "out", shapes_out[i]) for i in range(len(steps)) if shapes_out[i]]
        mode = rng.random()
        if not cands or mode < 0.35:
            nr, nc = (base_nr, base_nc) if rng.random() < 0.7 else (rng.randint(5, 14), rng.randint(2, 4))
            if rng.random() < 0.25:
                src, lit = {"gen": {"n_features": nc, "n_samples": nr, "cardinality": rng.choice([4, 6, 9, 60, 130, 250]),
                                    "seed": rng.randint(0, 999)}}, None
            else:
                src, lit = None, nonconstant_matrix(rng, nr, nc)
        else:
            i, what, (nr, nc) = rng.choice(cands)
            src, lit = {"step": i, "what": what}, None
            if rng.random() < 0.3:
                perm = list(range(nr))
                rng.shuffle(perm)
                src["rowperm"] = perm
            if rng.random() < 0.2:
                perm = list(range(nc))
                rng.shuffle(perm)
                src["colperm"] = perm
        # ---- choose the call
        kind = rng.choice(["corr", "corr", "dup", "combo", "labels", "labels", "noise_cat", "noise_missing", "down"])
        out_shape = None
        if kind == "corr":
            if nr < 5:
                continue
            r = rng.choice(R_GRID)
            st = {"kind": "corr", "idx": gen_idx(rng, min(nc, base_nc), 1, 2, allow_neg=False), "r": list(float(r).as_integer_ratio())}
        elif kind in ("dup", "combo"):
            if kind == "dup":
                op = {"op": "dup", "idx": gen_idx(rng, nc, 1, 3)}
                add = len(idx_values(op["idx"]))
            else:
                op = {"op": "combo", "fn": rng.choice(["linear", "_xor", "_and", "_or"]), "idx": gen_idx(rng, nc, 2, 3, allow_scalar=False)}
                add = 1
            st = {"kind": "pipe", "ops": [op]}
            out_shape = (nr, nc + add)
        elif kind == "labels":
            n = rng.choice([2, 3, 4])
            st = {"kind": "labels", "n": n, "relation": rng.choice(["linear", "linear", "quarter_sum", "first_col", "nonlinear"]), "k": rng.choice([1, 2, 3]),
                  "p": {"v": [rng.randint(1, 15), 16], "as": "scalar"} if n == 2 or rng.random() < 0.3 else {"v": dyadic_dist(rng, n, 16), "as": rng.choice(["list", "array"])}}
        elif kind in ("noise_cat", "noise_missing"):
            if kind == "noise_cat" and nr < 4:
                continue
            st = _hist_noise_step(rng, nr, None, kind == "noise_cat")
            st.pop("X_from")
            out_shape = (nr, nc)
        else:
            k = rng.randint(1, min(3, nr // 2)) if nr >= 2 else 1
            y = gen_class_labels(rng, nr, k, 2 if nr >= 2 * k else 1)[:nr]
            cnt = min(y.count(v) for v in set(y))
            n = rng.randint(1, cnt)
            st = {"kind": "down", "y": y, "n": n if rng.random() < 0.7 or True else None, "rs": rng.randint(0, 99), "reshuffle": rng.random() < 0.5}
            out_shape = (n * len(set(y)), nc)
        if lit is not None:
            st = _literal(st, lit, rng)
        else:
            st["X_from"] = src
        steps.append(st)
        shapes_in.append((nr, nc))
        shapes_out.append(out_shape)
        # the same call again (same arguments) on DIFFERENT data of the same shape: nothing may be remembered between calls
        while rng.random() < 0.45 and len(steps) < 9:
            me = len(steps) - 1
            again = {k: v for k, v in steps[me].items() if k not in ("X", "X_from", "dtype")}
            how = rng.random()
            if how < 0.4:
                again = _literal(again, nonconstant_matrix(rng, nr, nc), rng)
            elif how < 0.75:
                perm = list(range(nr))
                rng.shuffle(perm)
                again["X_from"] = {"step": me, "what": "in", "rowperm": perm}
                if "y" in again and again["kind"] != "noise_missing":
                    again["y"] = [again["y"][t] for t in perm]
            else:
                perm = list(range(nc))
                rng.shuffle(perm)
                again["X_from"] = {"step": me, "what": "in", "colperm": perm}
            steps.append(again)
            shapes_in.append((nr, nc))
            shapes_out.append(out_shape)
    if not steps:
        return gen_history(rng, big)
    return {"kind": "history", "steps": steps, "seed": rng.randint(0, 10 ** 6)}


def big_value(rng):
    m = rng.random()
    if m < 0.55:
        return rng.randint(2 ** 30, 2 ** 31 - 1)
    if m < 0.7:
        return rng.choice([2 ** 31 - 1, 2 ** 30, 1200000011, 1900000009, 2 ** 31 - 2])
    if m < 0.85:
        return -rng.randint(2 ** 30, 2 ** 31)
    return rng.randint(0, 9)


def gen_scale(rng, big):
    """large declared value domains (legal int32 values up to 2^31 - 1): sums of 2..4 columns leave the int32 range; the model's
    sum is an unbounded Z.  Half of the cases are literal int32 / int64 matrices, half come from generate_data(structure=value
    lists) of the same object (a history)."""
    nr, nc = rng.randint(1, 10), rng.randint(2, 5)
    ops = []
    cur = nc
    for t in range(rng.randint(1, 3)):
        r = rng.random()
        if r < 0.7:
            k = rng.randint(2, min(4, cur))
            idx = [rng.randrange(cur) for _ in range(k)] if rng.random() < 0.3 else rng.sample(range(cur), k)
            ops.append({"op": "combo", "fn": "linear", "idx": {"v": idx, "as": rng.choice(["list", "array"])}})
            cur += 1
        elif r < 0.85:
            ops.append({"op": "combo", "fn": rng.choice(["_xor", "_and", "_or"]), "idx": gen_idx(rng, cur, 2, 3, allow_scalar=False)})
            cur += 1
        else:
            ops.append({"op": "dup", "idx": gen_idx(rng, cur, 1, 2)})
            cur += len(idx_values(ops[-1]["idx"]))
    if rng.random() < 0.5:
        X = [[big_value(rng) for _ in range(nc)] for _ in range(nr)]
        return {"kind": "pipe", "X": X, "dtype": rng.choice(["int32", "int32", "int64"]), "ops": ops}
    structure = []
    for j in range(nc):
        dom = sorted({abs(big_value(rng)) for _ in range(rng.randint(2, 4))})
        if len(dom) < 2:
            dom = [dom[0], 2 ** 31 - 1 - j]
        w = [rng.randint(1, 4) for _ in dom]
        structure.append([j, [dom, [[v, sum(w)] for v in w]]])
    steps = []
    src = {"gen": {"n_features": nc, "n_samples": max(nr, 2), "structure": structure, "seed": rng.randint(0, 999)}}
    for t, op in enumerate(ops):
        steps.append({"kind": "pipe", "ops": [op], "X_from": src if t == 0 else {"step": t - 1, "what": "out"}})
    return {"kind": "history", "steps": steps, "seed": rng.randint(0, 10 ** 6)}


def gen_labels_reuse(rng, big):
    """the SAME class-distribution object (list or ndarray) passed to 2-3 generate_labels calls on different data (train / test);
    every call is judged against the distribution as originally requested"""
    n = rng.choice([3, 3, 4, 5, 2])
    spec = {"v": dyadic_dist(rng, max(n, 2), rng.choice([8, 16])), "as": rng.choice(["list", "list", "array"]), "ref": "shared"}
    steps = []
    for _ in range(rng.randint(2, 3)):
        nr = rng.randint(4, 40 if not big else 150)
        st = {"kind": "labels", "n": n, "p": spec, "relation": rng.choice(["linear", "linear", "first_col", "quarter_sum", "nonlinear"]),
              "k": rng.choice([1, 2])}
        steps.append(_literal(st, gen_matrix(rng, nr, rng.randint(1, 3), style=rng.choice(["wide", "wide", "small"])), rng))
    return {"kind": "history", "steps": steps, "seed": rng.randint(0, 10 ** 6)}


GENS = {"pipe": gen_pipe, "corr": gen_corr, "labels": gen_labels, "noise_cat": gen_noise_cat, "noise_missing": gen_noise_missing,
        "down": gen_down, "session": gen_session, "history": gen_history, "corr_history": gen_corr_history,
        "scale": gen_scale, "labels_reuse": gen_labels_reuse}
QUICK = {"pipe": 130, "corr": 70, "labels": 260, "noise_cat": 120, "noise_missing": 70, "down": 110, "session": 60, "history": 70,
         "corr_history": 50, "scale": 60, "labels_reuse": 40}
THOROUGH = {"pipe": 900, "corr": 500, "labels": 2000, "noise_cat": 900, "noise_missing": 500, "down": 800, "session": 400,
            "history": 500, "corr_history": 400, "scale": 400, "labels_reuse": 300}


def exhaustive_labels():
    """thorough tier: every cut position on small tie-free and tied columns, two and three classes"""
    out = []
    for N in range(1, 8):
        for tied in (False, True):
            col = [[10 * (i // 2 if tied else i) + 3] for i in range(N)]
            for k in range(0, 17):
                out.append({"kind": "labels", "X": col, "dtype": "int64", "n": 2, "p": {"v": [k, 16], "as": "scalar"},
                            "relation": "first_col", "k": 2})
            for a in range(0, 9):
                for b in range(0, 9 - a):
                    out.append({"kind": "labels", "X": col, "dtype": "int64", "n": 3,
                                "p": {"v": [[a, 8], [b, 8], [8 - a - b, 8]], "as": "array" if (a + b) % 2 else "list"},
                                "relation": "linear", "k": 2})
    return out


def load_corpus(pid):
    d = os.path.join(vlib.VERIF, "corpus", pid)
    out = []
    if os.path.isdir(d):
        for f in sorted(os.listdir(d)):
            if f.endswith(".json"):
                c = json.load(open(os.path.join(d, f)))
                out.append(c.get("case", c))
    return out


# ---------------------------------------------------------------------------------------------------------------
# Coq expressions per case

def op_coq(op):
    k = op["op"]
    if k == "dup":
        return "ODup %s" % zl(idx_values(op["idx"]))
    if k == "combo":
        return "OCombo %s %s" % (CFUN[op["fn"]], zl(idx_values(op["idx"])))
    if k == "corr":
        return "OCorr %s %s" % (zl(idx_values(op["idx"])), ql(frac(op["r"])))
    if k == "labels":
        return "OLabels %s %s" % (rel_coq(op["relation"]), z(op["n"]))
    if k == "noise":
        return "ONoise %s %s" % (vlib.blit(op["type"] == "missing"), ql(frac(op["p"])))
    if k == "down":
        y = op["y"]
        cnt = min(y.count(v) for v in set(y))
        n = cnt if op.get("n") is None else op["n"]
        return "ODown %s %s" % (z(len(set(y))), z(n))
    raise ValueError(k)


def rel_coq(rel):
    return {"linear": "RLinear", "nonlinear": "RNonlinear", "cluster": "RCluster"}.get(rel) or "(RCustom %s%%N)" % vlib.strlit(rel)


def pspec_coq(p):
    if p.get("as", "scalar") == "scalar":
        return "(PScalar %s)" % ql(frac(p["v"]))
    return "(PList %s)" % qll([frac(v) for v in p["v"]])


def stream_coq(stream):
    out = []
    for e in stream:
        t = e[0]
        if t == "idx" and e[2] is not None and e[3] is False:
            out.append("AIdx %s %s" % (z(e[1]), zl(e[4])))
        elif t == "val" and e[2] is None and len(e[3]) == 1:
            out.append("AVal %s" % z(e[3][0]))
        elif t == "int" and e[2] is None and len(e[3]) == 1:
            out.append("AInt %s %s" % (z(e[1]), z(e[3][0])))
        elif t == "perm":
            out.append("APerm %s" % zl(e[1]))
        elif t == "sample":
            out.append("ASample %s %s" % (z(e[1]), zl(e[2])))
        else:
            out.append("APerm [(-1)]")        # a call the model does not know: rejected as BadOracle by every model
    return "[" + "; ".join(out) + "]"


def int_cells(M, sentinel=None):
    """impl matrix -> list of int rows (None when a cell is not an integer)"""
    out = []
    for row in M:
        r = []
        for c in row:
            v = fr_of(c)
            if v == "-inf" and sentinel is not None:
                r.append(sentinel)
            elif isinstance(v, Fraction) and v.denominator == 1:
                r.append(int(v))
            else:
                return None
        out.append(r)
    return out


def labels_decision(case, res):
    """exact decision values as Fractions: (values, how) — linear / harness-defined from X, nonlinear from the recording"""
    X = case["X"]
    rel = case["relation"]
    if rel == "linear":
        return [Fraction(sum(2 * x + 3 for x in row)) for row in X], "model"
    if rel == "quarter_sum":
        return [Fraction(sum(row), 4) for row in X], "harness"
    if rel == "first_col":
        return [Fraction(row[0]) for row in X], "harness"
    if rel == "neg_weighted":
        return [Fraction(-sum((j + 1) * x for j, x in enumerate(row)), 8) for row in X], "harness"
    pct = res.get("pct") or []
    if len(pct) != 1 or "d" not in pct[0] or any(isinstance(v, str) for v in pct[0]["d"]):
        return None, "unrecorded"
    return [frac(v) for v in pct[0]["d"]], "recorded"


def label_percents(n, p):
    """mirror of Derived.label_percents, only used for the robustness filter (which cases sit on a float rounding tie)"""
    if p.get("as", "scalar") == "scalar":
        q = frac(p["v"])
        if q > 1:
            return None
        if n > 2:
            return [Fraction(100 * (i + 1), n) for i in range(n - 1)]
        return [q * 100]
    ps = [frac(v) for v in p["v"]]
    if sum(ps) > 1 or len(ps) > n:
        return None
    if n > 2:
        if len(ps) != n:
            return None
        out, acc = [], Fraction(0)
        for v in ps[:n - 1]:
            acc += v * 100
            out.append(acc)
        return out
    return [ps[0] * 100] if ps else None


def is_dyadic(fr):
    d = Fraction(fr).denominator
    return d & (d - 1) == 0


def labels_robust(d, n, p):
    """True when float evaluation of np.percentile + comparison provably agrees with exact rational evaluation:
    every cut point is exactly representable (dyadic percent/100, exact lerp) or sits robustly strictly between two
    separated neighbours."""
    pcs = label_percents(n, p)
    if pcs is None:
        return False
    # scalar p with n > 2: the code accumulates the float 100/n; exact only when n is a power of two
    inexact = p.get("as", "scalar") == "scalar" and n > 2 and (n & (n - 1)) != 0
    s = sorted(d)
    N = len(s)
    for pc in pcs:
        if pc < 0 or pc > 100:
            return False
        q = pc / 100
        vi = (N - 1) * q
        j = math.floor(vi)
        g = vi - j
        a, b = s[j], s[min(j + 1, N - 1)]
        exact_q = is_dyadic(q) and q.denominator <= 2 ** 20 and not inexact
        eps = Fraction(1, 10 ** 6)
        if not exact_q and not (eps < g < 1 - eps):
            return False                                  # the float virtual index may fall on the other side of an integer
        if a == b:
            continue
        small = all(is_dyadic(v) and v.denominator <= 2 ** 10 and abs(v) < 2 ** 30 for v in (a, b))
        if exact_q and small:
            continue
        sep = (b - a) > Fraction(1, 10 ** 9) * max(1, abs(a), abs(b))
        if exact_q and g == 0 and sep:
            continue                                      # cut = a exactly, also in floats
        if Fraction(1, 10 ** 6) < g < 1 - Fraction(1, 10 ** 6) and sep:
            continue
        return False
    return True


def scale_ints(d):
    L = 1
    for v in d:
        L = L * v.denominator // math.gcd(L, v.denominator)
    return [int(v * L) for v in d]


def nflip_exact(n, p):
    return math.floor(n * frac(p))


def nflip_float(n, p):
    return int(n * (p[0] / p[1]))


def build_expr(case, res):
    """-> (coq expression | None, ctx) ; ctx carries what judge needs"""
    kind = case["kind"]
    X = case["X"]
    nr = len(X)
    nc = len(X[0]) if X else 0
    ctx = {}
    if not res.get("ok"):
        return None, ctx
    if kind == "pipe":
        pops = []
        for op in case["ops"]:
            if op["op"] == "dup":
                pops.append("PDup %s" % zl(idx_values(op["idx"])))
            else:
                pops.append("PCombo %s %s" % (CFUN[op["fn"]], zl(idx_values(op["idx"]))))
        pl = "[" + "; ".join(pops) + "]"
        return "(pipe %s %s, enc_state (session %s %s (map pop_op %s)))" % (zll(X), pl, z(nr), z(nc), pl), ctx
    if kind == "session":
        return "(enc_state (session %s %s [%s]))" % (z(nr), z(nc), "; ".join(op_coq(o) for o in case["ops"])), ctx
    if kind == "corr":
        return "(enc_state (session %s %s [OCorr %s %s]))" % (z(nr), z(nc), zl(idx_values(case["idx"])), ql(frac(case["r"]))), ctx
    if kind == "labels":
        d, how = labels_decision(case, res)
        ctx["how"] = how
        ctx["d"] = d
        if d is None:
            return None, ctx
        ctx["robust"] = labels_robust(d, case["n"], case["p"])
        L = 1
        for v in d:
            L = L * v.denominator // math.gcd(L, v.denominator)
        dz = zl([int(v * L) for v in d]) if how != "model" else "(decision_linear %s)" % zll(X)
        sess = "enc_state (session %s %s [OLabels %s %s])" % (z(nr), z(nc), rel_coq(case["relation"]), z(case["n"]))
        # np.percentile as an oracle: the recorded percent list and cut points (exact rationals of the doubles; cuts rescaled
        # like the decision values)
        pct = res.get("pct") or []
        rec = None
        if len(pct) == 1 and "q" in pct[0] and not any(isinstance(v, str) for v in pct[0]["q"] + pct[0]["cuts"]):
            rec = ([frac(v) for v in pct[0]["q"]], [frac(v) * L for v in pct[0]["cuts"]])
        ctx["recorded"] = rec is not None
        if rec is None:
            # np.percentile / np.quantile not observed: the property-level Coq validator judges the labels
            yy = int_cells([res["y"]]) if "y" in res else None
            reqp = label_percents(case["n"], case["p"])
            if yy is not None and reqp is not None:
                orac = "(labels_valid %s %s %s, true)" % (dz, qll(reqp), zl(yy[0]))
            else:
                orac = "(false, true)"
        else:
            oargs = "%s %s %s %s %s" % (dz, z(case["n"]), pspec_coq(case["p"]), qll(rec[0]), qll(rec[1]))
            orac = "(%s, %s)" % ("gen_labels_o false " + oargs if PINNED_VARIANTS["honour"] is not True else "(@BadOracle (list Z))",
                                 "gen_labels_o true " + oargs if PINNED_VARIANTS["honour"] is not False else "(@BadOracle (list Z))")
        return "(%s, gen_labels %s %s %s, %s, %s)" % (dz, dz, z(case["n"]), pspec_coq(case["p"]), orac, sess), ctx
    if kind in ("noise_cat", "noise_missing"):
        cols = transpose(X, nc)
        p = ql(frac(case["p"]))
        # the code's int(n * p) in doubles is an oracle answer: the size it asked np.random.choice for (if it got that far)
        stream = res.get("stream", [])
        kk = next((e[2] for e in stream if e and e[0] == "idx" and e[2] is not None), None)
        ctx["k_recorded"] = kk is not None
        if kk is None:
            kk = nflip_float(nr, case["p"])         # same IEEE product as the code's; only used for the validator / raise cases
        ctx["k"] = kk
        sentinel = None
        marker = case.get("marker")
        if kind == "noise_missing" and marker is None:
            sentinel = min(min(r) for r in X) - 1000 if X and X[0] else -1000
            marker = sentinel
        ctx["sentinel"] = sentinel
        out = int_cells(res["X"], sentinel) if "X" in res else None
        ctx["out"] = out
        outc = zll(transpose(out, nc)) if out is not None else "[]"
        st = stream_coq(stream)
        sess = "enc_state (session %s %s [ONoise %s %s])" % (z(nr), z(nc), vlib.blit(kind == "noise_missing"), p)
        if kind == "noise_cat":
            args = "%s %s %s %s %s %s" % (zll(cols), zl(case["y"]), p, z(kk), zl(res.get("inds", [])), st)
            # a pinned variant is the only one evaluated (the other slot is a placeholder)
            old = "noise_cat false %s" % args if PINNED_VARIANTS["cum"] is not True else "(@BadOracle mat)"
            new = "noise_cat true %s" % args if PINNED_VARIANTS["cum"] is not False else "(@BadOracle mat)"
            return "(%s, %s, noise_cat_check %s %s %s %s %s, %s)" % (old, new, zll(cols), z(nr), p, z(kk), outc, sess), ctx
        return "(noise_missing %s %s %s %s %s %s, noise_missing_check %s %s %s %s %s %s, %s)" % (
            zll(cols), z(nr), p, z(kk), z(marker), st, zll(cols), z(nr), p, z(kk), z(marker), outc, sess), ctx
    if kind == "down":
        n = "None" if case.get("n") is None else "(Some %s)" % z(case["n"])
        Xd = int_cells(res["X"]) if "X" in res else None
        yd = int_cells([res["y"]])[0] if "y" in res and int_cells([res["y"]]) is not None else None
        ctx["out"] = (Xd, yd)
        st = stream_coq(res.get("stream", []))
        chk = "downsample_check %s %s %s %s %s" % (zll(X), zl(case["y"]), n, zll(Xd), zl(yd)) if Xd is not None and yd is not None else "false"
        sess = ("(let k := match down_n %s %s with Some k => k | None => 0 end in enc_state (session %s %s [ODown (lenZ (uniq %s)) k]))"
                % (zl(case["y"]), n, z(nr), z(nc), zl(case["y"])))
        return "(downsample %s %s %s %s %s, %s, %s)" % (zll(X), zl(case["y"]), n, vlib.blit(case.get("reshuffle", False)), st, chk, sess), ctx
    raise ValueError(kind)


# ---------------------------------------------------------------------------------------------------------------
# canonical self-description

def info_of_model(t):
    cb, cr, du, lb, no, dn = t

    def name(r):
        if r[0] == "RCustom":
            return vlib.from_codes(r[1])
        return {"RLinear": "linear", "RNonlinear": "nonlinear", "RCluster": "cluster"}[r[0]]
    return {
        "combinations": [{"feature_indices": list(e[0]), "combination_type": CFUN_INV[e[1][0]], "combination_ix": e[2]} for e in cb],
        "correlations": [{"feature_indices": list(e[0]), "correlated_indices": list(e[1]), "correlation_factor": Fraction(e[2][0], e[2][1])} for e in cr],
        "duplicates": [{"feature_indices": list(e[0]), "duplicate_indices": list(e[1])} for e in du],
        "labels": None if lb is None else {"class_relation": name(lb[1][0]), "n_class": lb[1][1]},
        "noise": [{"type": "missing" if e[0] else "categorical", "amount": Fraction(e[1][0], e[1][1])} for e in no],
        "downsampling": None if dn is None else {"original_shape": [dn[1][0], dn[1][1]], "downsampled_shape": list(dn[1][2])},
    }


def info_of_impl(j):
    return {
        "combinations": j["combinations"],
        "correlations": [dict(e, correlation_factor=None if e["correlation_factor"] is None else fr_of(e["correlation_factor"])) for e in j["correlations"]],
        "duplicates": j["duplicates"],
        "labels": j["labels"],
        "noise": [dict(e, amount=None if e["amount"] is None else fr_of(e["amount"])) for e in j["noise"]],
        "downsampling": j["downsampling"],
    }


def info_diff(model_t, impl_j, general=True):
    a, b = info_of_model(model_t), info_of_impl(impl_j)
    bad = [k for k in a if a[k] != b[k]]
    if general and impl_j.get("general") != {}:
        bad.append("general")
    return bad, a, b


INFO0 = {"keys": ["combinations", "correlations", "duplicates", "general", "labels", "noise"], "general": {}, "combinations": [],
         "correlations": [], "duplicates": [], "labels": None, "noise": [], "downsampling": None}


# ---------------------------------------------------------------------------------------------------------------
# judging one case: returns list of (obligation, clause, impl, model)

def pearson(xs, ys):
    n = len(xs)
    mx, my = math.fsum(xs) / n, math.fsum(ys) / n
    sxy = math.fsum((x - mx) * (y - my) for x, y in zip(xs, ys))
    sxx = math.fsum((x - mx) ** 2 for x in xs)
    syy = math.fsum((y - my) ** 2 for y in ys)
    if sxx <= 0 or syy <= 0:
        return float("nan")
    return sxy / math.sqrt(sxx * syy)


def pearson_gap_exact(ys, xs):
    """(1 - rho^2, sign of the covariance) in exact rational arithmetic"""
    Y = [Fraction(v) for v in ys]
    Xs = [Fraction(v) for v in xs]
    n = len(Y)
    my, mx = sum(Y) / n, sum(Xs) / n
    sxy = sum((a - mx) * (b - my) for a, b in zip(Xs, Y))
    sxx = sum((a - mx) ** 2 for a in Xs)
    syy = sum((b - my) ** 2 for b in Y)
    return 1 - sxy * sxy / (sxx * syy), (1 if sxy > 0 else -1)


def judge(case, res, val, ctx, stats):
    kind = case["kind"]
    out = []
    X = case["X"]
    nr = len(X)
    nc = len(X[0]) if X else 0

    def bad(obl, clause, impl=None, model=None):
        out.append((obl, clause, impl, model))

    if not res.get("ok"):
        bad("impl-raises", "the call terminates normally on an input inside the stated preconditions", res.get("error"))
        return out
    in_hist = bool(case.get("_in_history"))
    if not in_hist and res.get("info0") != INFO0:
        bad("C20 self-description (initial)", "a fresh generator describes nothing", res.get("info0"), INFO0)
    if not res.get("x_untouched", True) or res.get("y_untouched") is False:
        bad("input untouched", "the input array is not modified by the call", {"x_untouched": res.get("x_untouched"), "y_untouched": res.get("y_untouched")})
    if val is None:
        return out

    def check_info(model_state):
        if in_hist:
            return                            # histories compare the self-description after every call (judge_history)
        diff, a, b = info_diff(model_state[2], res["info"])
        if diff:
            bad("C20_info_exact / dataset_info correspondence", "self-description lists exactly what was added: " + ",".join(diff),
                {k: b.get(k) for k in diff if k in b}, {k: a.get(k) for k in diff if k in a})

    if kind == "pipe":
        mX, sess = val
        check_info(sess)
        if mX is None:
            bad("pipe correspondence", "model rejects a call the implementation accepted", res.get("shapes"))
            return out
        mX = mX[1]
        iX = [[fr_of(c) for c in row] for row in res["X"]]
        last_sin = case["ops"] and case["ops"][-1]["op"] == "combo" and case["ops"][-1]["fn"] == "nonlinear"
        if [len(r) for r in iX] != [len(r) for r in mX]:
            bad("C20_dup / C20_combo correspondence", "shape of the derived data set", [len(r) for r in iX], [len(r) for r in mX])
            return out
        for i, (ri, rm) in enumerate(zip(iX, mX)):
            for j, (ci, cm) in enumerate(zip(ri, rm)):
                if last_sin and j == len(rm) - 1:
                    okc = isinstance(ci, Fraction) and abs(float(ci) - math.sin(cm)) <= 1e-12
                else:
                    okc = ci == cm
                if not okc:
                    bad("C20_dup / C20_combo correspondence", "added columns are exact copies / the stated function of their sources "
                        "(row %d, column %d)" % (i, j), str(ci), cm if not (last_sin and j == len(rm) - 1) else "sin(%d)" % cm)
                    return out
        return out
    if kind == "session":
        check_info(val)
        if res.get("shapes") and list(res["shapes"][-1]) != [val[0], val[1]]:
            bad("session correspondence", "shape after the calls", res["shapes"][-1], [val[0], val[1]])
        return out
    if kind == "corr":
        check_info(val)
        idx = idx_values(case["idx"])
        Y = [[fr_of(c) for c in row] for row in res["X"]]
        if any(len(row) != nc + len(idx) for row in Y) or len(Y) != nr:
            bad("C20_corr correspondence", "one column is added per selected feature", res.get("shape"), [nr, nc + len(idx)])
            return out
        if any(Y[i][j] != X[i][j] for i in range(nr) for j in range(nc)):
            bad("C20_corr correspondence", "existing columns are kept")
        r = case["r"][0] / case["r"][1]
        worst = 0.0
        for t, j in enumerate(idx):
            col = [Y[i][nc + t] for i in range(nr)]
            if len({X[i][j] for i in range(nr)}) < 2:      # constant source: outside the property (only met inside histories)
                stats["corr_constant_source_skipped"] = stats.get("corr_constant_source_skipped", 0) + 1
                continue
            if any(isinstance(c, str) for c in col):
                if case.get("probe") == "two_rows" or nr < 3:
                    # two rows: any two non-constant 2-vectors correlate at +-1, so "correlation r with |r| < 1" cannot hold and
                    # nothing is claimed there (observation only); a construction that returns nan on two rows (e.g. a
                    # regression on [1, source] with zero residual degrees of freedom) is as good as one returning +-1
                    stats.setdefault("probe", {})["corr_two_rows_nonfinite"] = stats.get("probe", {}).get("corr_two_rows_nonfinite", 0) + 1
                    continue
                bad("C20_corr correspondence", "correlated feature is finite", [str(c) for c in col][:5])
                continue
            rho = pearson([float(c) for c in col], [float(X[i][j]) for i in range(nr)])
            if case.get("probe") == "two_rows":
                stats.setdefault("probe", {})["corr_two_rows_rho"] = rho
                continue
            dev = abs(rho - r) if rho == rho else float("inf")
            worst = max(worst, dev)
            if not dev <= TOL_CORR:
                bad("C20_corr correspondence", "pearson(correlated feature, source) = r within 1e-9 (added column %d, source %d)" % (t, j),
                    rho, r)
            elif abs(r) >= 0.99:
                # close to +-1 the absolute tolerance says little: compare 1 - rho^2 with 1 - r^2, both computed EXACTLY in
                # rationals from the doubles, relative tolerance 1e-6 (the unchanged code achieves <= 5e-10 at 1-1e-3 .. 1-1e-12)
                gap, sgn = pearson_gap_exact(col, [X[i][j] for i in range(nr)])
                want = 1 - frac(case["r"]) ** 2
                rel = abs(gap - want) / want
                stats["corr_worst_rel_gap_near_1"] = max(stats.get("corr_worst_rel_gap_near_1", 0.0), float(rel))
                if rel > Fraction(1, 10 ** 6) or (sgn > 0) != (r > 0):
                    bad("C20_corr correspondence", "1 - pearson^2 = 1 - r^2 within 1e-6 relative for |r| >= 0.99 (added column %d, source %d): "
                        "the feature has the REQUESTED correlation also close to +-1" % (t, j), {"1-rho^2": float(gap), "rho": rho},
                        {"1-r^2": float(want), "r": r})
        stats["corr_worst"] = max(stats.get("corr_worst", 0.0), worst)
        return out
    modes = stats.get("_modes") or {"cum": False, "honour": False}
    if kind == "labels":
        dm, ym, orac, sess = val
        check_info(sess)
        d = ctx["d"]
        pct = res.get("pct") or []
        if len(pct) == 1 and "d" in pct[0]:
            rec = [fr_of(v) for v in pct[0]["d"]]
            if ctx["how"] in ("model", "harness"):
                exp = d
                if ctx["how"] == "model":
                    exp = [Fraction(v) for v in dm]
                if rec != exp:
                    bad("C20 labels: decision function", "decision value = the declared function of the row (linear: sum(2x+3))",
                        [str(v) for v in rec][:8], [str(v) for v in exp][:8])
            elif ctx["how"] == "recorded":
                k = case.get("k", 2)
                for row, v in zip(X, rec):
                    ref = math.fsum(k * math.sin(x) + k * math.cos(x) for x in row)
                    if abs(float(v) - ref) > 1e-9 * max(1.0, abs(ref)):
                        bad("C20 labels: decision function", "nonlinear decision value = sum(k sin x + k cos x)", float(v), ref)
                        break
        if res.get("p_unchanged") is False:
            stats["labels_p_argument_mutated_by_the_call"] = stats.get("labels_p_argument_mutated_by_the_call", 0) + 1
        iy = int_cells([res["y"]])
        iy = iy[0] if iy else None
        scalar_gt2 = case["p"].get("as", "scalar") == "scalar" and case["n"] > 2 and frac(case["p"]["v"]) != Fraction(1, 2)
        # (a) np.percentile as an oracle: never skipped when the call was recorded
        if ctx.get("recorded"):
            o = orac[1] if modes["honour"] else orac[0]
            stats["labels_oracle_checked"] = stats.get("labels_oracle_checked", 0) + 1
            if o[0] == "Ok":
                if iy != list(o[1]):
                    bad("C20_labels_count correspondence", "y_i = #{recorded cut points < d_i} (strict comparison)", iy, list(o[1]))
            elif o[0] == "BadOracle":
                req = label_percents(case["n"], case["p"])
                bad("C20_labels_class_sizes_partial: requested distribution / np.percentile contract",
                    "the percents passed to np.percentile are the requested cumulative class proportions (within 1e-9) and every cut "
                    "point lies in the bracket [s_a, s_a+1) of its virtual index",
                    {"percents": [float(frac(v)) for v in pct[0]["q"]], "cuts": [float(frac(v)) for v in pct[0]["cuts"]], "labels": iy},
                    {"requested_percents": None if req is None else [str(v) for v in req]})
            else:
                bad("labels correspondence", "model rejects a call the implementation accepted", res.get("y"))
        else:
            stats["labels_percentile_not_observed_validator"] = stats.get("labels_percentile_not_observed_validator", 0) + 1
            if orac[0] is not True:
                bad("C20_labels_valid (Coq validator on the implementation's labels)",
                    "labels are a monotone step function of the decision value with the requested class proportions (give or take one "
                    "element on tie-free data)", iy, {"requested_percents": [str(v) for v in (label_percents(case["n"], case["p"]) or [])]})
        # (b) exact rational model of np.percentile: whenever the double computation is provably exact
        if ctx.get("robust") and not (scalar_gt2 and modes["honour"]):
            stats["labels_exact_model_checked"] = stats.get("labels_exact_model_checked", 0) + 1
            if ym is None:
                bad("labels correspondence", "model rejects a call the implementation accepted", res.get("y"))
            elif iy != list(ym[1]):
                bad("C20_labels_mono / C20_labels_prop correspondence",
                    "labels are the monotone step function y_i = #{cut points < d_i} with linear-interpolated percentile cut points",
                    iy, list(ym[1]))
        else:
            stats["labels_float_tie_oracle_only"] = stats.get("labels_float_tie_oracle_only", 0) + 1
        return out
    if kind in ("noise_cat", "noise_missing"):
        if kind == "noise_cat":
            m_old, m_new, chk, sess = val
            model = m_new if modes["cum"] else m_old
        else:
            model, chk, sess = val
        check_info(sess)
        if case.get("probe"):
            stats.setdefault("probe", {})[case["probe"]] = "raises: " + res["raised"][:60] if "raised" in res else "accepted"
            return out
        thm = "C20_noise_cat" if kind == "noise_cat" else "C20_noise_missing"
        if "raised" in res:
            if model[0] != "Raises":
                bad(thm + " correspondence", "the call raises although the model (given the recorded answers) does not", res["raised"], repr(model)[:300])
            else:
                stats["noise_modelled_crash"] = stats.get("noise_modelled_crash", 0) + 1
            return out
        stats.setdefault("_judged", {})[kind] = stats.setdefault("_judged", {}).get(kind, 0) + 1
        if nflip_exact(nr, case["p"]) != ctx["k"]:
            stats["noise_double_rounding_k_differs_from_floor"] = stats.get("noise_double_rounding_k_differs_from_floor", 0) + 1
        io = ctx["out"]
        if io is None:
            bad(thm + " correspondence", "output cells are integers / the marker", res.get("X"))
            return out
        ioc = transpose(io, nc)
        if model[0] == "Ok" and [list(c) for c in model[1]] == ioc:
            stats[kind + "_replayed_exactly"] = stats.get(kind + "_replayed_exactly", 0) + 1
            return out
        # replay differs: the Coq validator decides on the implementation's output (its soundness theorem gives the
        # property's clauses for this very output)
        if chk is not True:
            clause = ("changed cells per feature <= k = int(n p) (checked against floor(p n)) and every value is one of that feature's own values"
                      if kind == "noise_cat" else
                      "exactly k = int(n p) (checked against floor(p n)) markers per feature (marker not already present) and every other cell unchanged")
            bad(thm + " (Coq validator on the implementation's output)", clause, {"out": io, "k": ctx["k"]}, repr(model)[:1500])
        elif model[0] == "Raises":
            bad(thm + " correspondence", "the model (transcription of the code) predicts that the call raises, the implementation returned",
                io, "Raises")
        else:
            stream = res.get("stream", [])
            first = not stream or not (stream[0][0] == "idx" and stream[0][1] == nr and stream[0][3] is False)
            stats.setdefault("_fallback", []).append((kind, {k_: v_ for k_, v_ in case.items() if not k_.startswith("_")}, first))
        return out
    if kind == "down":
        model, chk, sess = val
        if "raised" in res:
            if model[0] != "Raises":
                bad("C20_downsample correspondence", "the call raises although the model does not", res["raised"], repr(model)[:300])
            else:
                stats["down_modelled_raise"] = stats.get("down_modelled_raise", 0) + 1
            return out
        check_info(sess)
        stats.setdefault("_judged", {})["down"] = stats.setdefault("_judged", {}).get("down", 0) + 1
        Xd, yd = ctx["out"]
        if model[0] == "Ok" and [list(r) for r in model[1][0]] == Xd and list(model[1][1]) == yd:
            stats["down_replayed_exactly"] = stats.get("down_replayed_exactly", 0) + 1
            return out
        if chk is not True:
            bad("C20_downsample (Coq validator on the implementation's output)",
                "exactly n rows of each class, each a row of that class", {"X": Xd, "y": yd}, repr(model)[:1500])
        elif model[0] == "Raises":
            bad("C20_downsample correspondence", "the model predicts that the call raises, the implementation returned", {"X": Xd, "y": yd}, "Raises")
        else:
            stream = res.get("stream", [])
            first = not stream or stream[0][0] != "sample"
            stats.setdefault("_fallback", []).append(("down", {k_: v_ for k_, v_ in case.items() if not k_.startswith("_")}, first))
        return out
    raise ValueError(kind)


def nontrivial(case, res):
    k = case["kind"]
    if k == "history":
        return len(case["steps"]) >= 2
    if k in ("pipe", "session"):
        return len(case["ops"]) > 0
    if k == "corr":
        return True
    if k == "labels":
        return len(case["X"]) >= 3
    if k in ("noise_cat", "noise_missing"):
        return nflip_exact(len(case["X"]), case["p"]) > 0
    if k == "down":
        return len(set(case["y"])) > 1 or (case.get("n") or 0) < len(case["y"])
    return True


def case_rows(c):
    if c["kind"] == "history":
        return max([len(st["X"]) for st in c["steps"] if "X" in st] + [0])
    return len(c["X"])


def effective_step(step, sres):
    """a call of a history as a self-contained single-call case: literal X = the input the driver reports"""
    if not sres.get("ok"):
        return None
    X = int_cells(sres["input"]) if sres.get("input") and sres["input"][0] else None
    if X is None:
        return None
    eff = {k: v for k, v in step.items() if k != "X_from"}
    eff["X"] = X
    eff["dtype"] = sres.get("input_dtype", "int64")
    eff["_in_history"] = True
    return eff


def step_ops(eff, sres):
    """the bookkeeping operations (with the shape they were applied to) of one call of a history"""
    nr, nc = len(eff["X"]), len(eff["X"][0])
    k = eff["kind"]
    if k == "pipe":
        out = []
        for op in eff["ops"]:
            out.append((nr, nc, op_coq(op)))
            nc += len(idx_values(op["idx"])) if op["op"] == "dup" else 1
        return out
    if k == "corr":
        return [(nr, nc, op_coq(dict(eff, op="corr")))]
    if k == "labels":
        return [(nr, nc, op_coq(dict(eff, op="labels")))]
    if k in ("noise_cat", "noise_missing"):
        return [(nr, nc, op_coq({"op": "noise", "type": "missing" if k == "noise_missing" else "categorical", "p": eff["p"]}))]
    if k == "down":
        if "raised" in sres:
            return []
        return [(nr, nc, op_coq(dict(eff, op="down")))]
    raise ValueError(k)


def evaluate(cases, stats):
    """-> list (per case) of lists of findings"""
    res = vlib.run_impl("impl_c20.py", {"cases": cases})["results"]
    exprs, slots, ctxs, effs = [], [], {}, {}
    for i, (c, r) in enumerate(zip(cases, res)):
        if c["kind"] == "history":
            if not r.get("ok"):
                continue
            calls = []
            marks = []                                  # (step index, number of bookkeeping ops so far)
            for k, (st, sr) in enumerate(zip(c["steps"], r["steps"])):
                eff = effective_step(st, sr)
                effs[(i, k)] = eff
                if eff is None:
                    break
                e, ctx = build_expr(eff, sr)
                ctxs[(i, k)] = ctx
                if e is not None:
                    exprs.append(e)
                    slots.append((i, k))
                calls += step_ops(eff, sr)
                marks.append((k, len(calls)))
            ctxs[(i, "marks")] = marks
            exprs.append("(map enc_info (history_trace info0 [%s]))" % "; ".join("(%s, %s, %s)" % (z(a), z(b), o) for a, b, o in calls))
            slots.append((i, "trace"))
            continue
        e, ctx = build_expr(c, r)
        ctxs[(i, None)] = ctx
        if e is not None:
            exprs.append(e)
            slots.append((i, None))
    vals = vlib.coq_eval("C20", HEADER, exprs, shard=40) if exprs else []
    vmap = dict(zip(slots, vals))
    stats["_modes"] = choose_modes(cases, res, vmap, effs, stats)
    out = []
    for i, (c, r) in enumerate(zip(cases, res)):
        if c["kind"] == "history":
            out.append(judge_history(i, c, r, vmap, ctxs, effs, stats))
        else:
            out.append(judge(c, r, vmap.get((i, None)), ctxs.get((i, None)), stats))
    return out, res


def choose_modes(cases, res, vmap, effs, stats):
    """Two places of the code exist in two readings (Derived.v): the per-label slices of categorical noise (as first read /
    cumulative offsets) and a scalar p with n > 2 in generate_labels (ignored / honoured).  ONE reading must explain the whole
    run: the variant that reproduces more cases is taken (ties: the code as first read) and every case is judged under it."""
    votes = {"cum": [0, 0], "honour": [0, 0]}

    def vote(c, r, v):
        if v is None or not r.get("ok"):
            return
        if c["kind"] == "noise_cat" and not c.get("probe"):
            nc = len(c["X"][0]) if c["X"] else 0
            for b in (0, 1):
                m = v[b]
                if "raised" in r:
                    okb = m[0] == "Raises"
                else:
                    io = int_cells(r["X"]) if "X" in r else None
                    okb = io is not None and m[0] == "Ok" and [list(col) for col in m[1]] == transpose(io, nc)
                votes["cum"][b] += 1 if okb else 0
        if c["kind"] == "labels" and c["p"].get("as", "scalar") == "scalar" and c["n"] > 2 and frac(c["p"]["v"]) != Fraction(1, 2):
            iy = int_cells([r["y"]])
            iy = iy[0] if iy else None
            for b in (0, 1):
                o = v[2][b]
                votes["honour"][b] += 1 if (isinstance(o, tuple) and o[0] == "Ok" and list(o[1]) == iy) else 0

    for i, (c, r) in enumerate(zip(cases, res)):
        if c["kind"] == "history":
            if r.get("ok"):
                for k, sr in enumerate(r["steps"]):
                    eff = effs.get((i, k))
                    if eff is not None:
                        vote(eff, sr, vmap.get((i, k)))
        else:
            vote(c, r, vmap.get((i, None)))
    pinned = PINNED_VARIANTS
    modes = {d: (pinned[d] if pinned.get(d) is not None else votes[d][1] > votes[d][0]) for d in votes}
    stats["code_variant"] = {"noise_slices": "cumulative offsets" if modes["cum"] else "as first read (previous count, last row dropped)",
                             "labels_scalar_p_n_gt_2": "honoured" if modes["honour"] else "ignored (uniform)", "pinned": dict(pinned),
                             "cases_reproduced_per_variant": votes}
    return modes


def judge_history(i, case, res, vmap, ctxs, effs, stats):
    out = []
    if not res.get("ok"):
        return [("impl-raises", "the history runs", res.get("error"), None)]
    if res.get("info0") != INFO0:
        out.append(("C20 self-description (initial)", "a fresh generator describes nothing", res.get("info0"), INFO0))
    trace = vmap.get((i, "trace")) or []
    marks = dict(ctxs.get((i, "marks")) or [])
    for k, (st, sr) in enumerate(zip(case["steps"], res["steps"])):
        tag = "call #%d (%s) of a history on one generator object: " % (k, st["kind"])
        if not sr.get("ok"):
            out.append(("impl-raises", tag + "the call terminates normally on an input inside the stated preconditions", sr.get("error"), None))
            break
        eff = effs.get((i, k))
        if eff is None:
            stats["history_non_integer_input"] = stats.get("history_non_integer_input", 0) + 1
            break
        for f in judge(eff, sr, vmap.get((i, k)), ctxs.get((i, k)), stats):
            out.append((f[0], tag + f[1], f[2], f[3]))
        # the self-description after this call
        npos = marks.get(k)
        if npos is not None and 0 < npos <= len(trace):
            diff, a, b = info_diff(trace[npos - 1], sr["info"], general=False)   # 'general' belongs to generate_data (C19)
            if diff:
                out.append(("C20_info_call / dataset_info correspondence", tag + "self-description lists exactly what this call added: " + ",".join(diff),
                            {kk: b.get(kk) for kk in diff if kk in b}, {kk: a.get(kk) for kk in diff if kk in a}))
        elif npos == 0 and sr["info"] != dict(INFO0, keys=sr["info"]["keys"]):
            pass
    return out


def drop_step(case, t):
    """the history without call t (None when a later call reads its matrices)"""
    steps = []
    for k, st in enumerate(case["steps"]):
        if k == t:
            continue
        src = st.get("X_from")
        if src is not None and "step" in src:
            if src["step"] == t:
                return None
            if src["step"] > t:
                st = dict(st, X_from=dict(src, step=src["step"] - 1))
        steps.append(st)
    return dict(case, steps=steps)


def shrink_candidates(case):
    out = []
    if case["kind"] == "history":
        n = len(case["steps"])
        for m in range(1, n):
            out.append(dict(case, steps=case["steps"][:m]))
        for t in range(n):
            c = drop_step(case, t)
            if c is not None and c["steps"]:
                out.append(c)
        return out[:40]
    X = case["X"]
    n = len(X)
    if case["kind"] in ("pipe", "session") and len(case["ops"]) > 1:
        for t in range(len(case["ops"])):
            if case["kind"] == "pipe":
                # dropping an op changes column counts; only drop from the end
                continue
        out.append(dict(case, ops=case["ops"][:-1]))
    rowsets = []
    if n > 2:
        rowsets.append(list(range(n // 2)))
        rowsets.append(list(range(n // 2, n)))
    if 2 < n <= 16:
        for t in range(n):
            rowsets.append([i for i in range(n) if i != t])
    for rows in rowsets:
        c = dict(case, X=[X[i] for i in rows])
        if "y" in case:
            c["y"] = [case["y"][i] for i in rows]
        if case["kind"] == "session":
            continue
        if case["kind"] == "noise_cat":
            ys = c["y"]
            if sorted(set(ys)) != list(range(len(set(ys)))) or len(set(ys)) < 2:
                continue
        if case["kind"] == "corr" and (len(rows) < 5 or any(len({r[j] for r in c["X"]}) < 2 for j in range(len(X[0])))):
            continue
        out.append(c)
    return out[:40]


def shrink(case, first, stats):
    cur, cur_f = case, first
    for _ in range(4):
        cands = shrink_candidates(cur)
        if not cands:
            break
        try:
            fs, _ = evaluate(cands, {})
        except Exception:
            break
        hits = [(c, f) for c, f in zip(cands, fs) if f and any(x[0] == cur_f[0][0] for x in f)]
        if not hits:
            break
        cur, cur_f = min(hits, key=lambda cf: (len(cf[0].get("steps", [])), case_rows(cf[0]), len(json.dumps(cf[0]))))
    return cur, cur_f


def check(run, replay):
    model_ok, log = vlib.build(["Synth/Derived.vo"])
    run.oblige("build:model Synth/Derived.vo", model_ok, "" if model_ok else log[-1500:])
    if not model_ok:
        raise vlib.Broken("build:Synth/Derived.vo", log)
    vlib.standard_proof_phase(run, ["Props/C20.vo"], "Outrank.Props.C20", THEOREMS, allowed=vlib.STD_REAL_AXIOMS)
    ax = run.cov.get("axioms_per_theorem") or {}
    leaked = [t for t, a in ax.items() if a and t not in REAL_THEOREMS]
    run.oblige("axiom-free combinatorial theorems", not leaked, ", ".join(leaked))
    if leaked:
        run.violation("broken-obligation", "axioms:" + ",".join(leaked), found_input=False,
                      extra="only the theorems over R may depend on the standard-library real-number axioms")

    if replay is not None and not replay.get("case"):
        replay = None                       # a broken-obligation replay carries no input: re-run the whole check
    if replay is not None:
        cases = [replay["case"]]
    else:
        cases = load_corpus("C20")
        plan = QUICK if run.tier == "quick" else THOROUGH
        for kind, cnt in plan.items():
            for _ in range(cnt):
                c = GENS[kind](run.rng, run.tier == "thorough")
                c["family"] = kind
                cases.append(c)
        if run.tier == "thorough":
            cases.extend(exhaustive_labels())
    stats = {}
    findings, res = evaluate(cases, stats)
    hist = {}
    fams = {}
    for c, r, f in zip(cases, res, findings):
        k = c.get("family", c["kind"])
        hist[k] = hist.get(k, 0) + 1
        run.count_case(c, nontrivial(c, r))
        if f:
            fams.setdefault(k, []).append((c, f))
    for k in GENS:
        run.oblige("correspondence:" + k, k not in fams, "" if k not in fams else "%d cases disagree" % len(fams[k]))
    for k, lst in fams.items():
        c, f = lst[0]
        if replay is None:
            c, f = shrink(c, f, stats)
        for x in f[:3]:
            run.violation("counterexample", x[0], case=c, impl=x[2], model=x[3], clause=x[1])
    # replay mismatches that the Coq validators accepted: quiet ONLY for a global change of the library call pattern (every
    # judged case of the family mismatches at its first RNG call); otherwise the correspondence is broken without a failing input
    fb = {}
    for kind, c, first in stats.get("_fallback", []):
        fb.setdefault(kind, []).append((c, first))
    judged = stats.get("_judged", {})
    quiet, loud = {}, {}
    for kind, lst in fb.items():
        # the expected oracle call did not occur (first RNG / resample call absent or of another kind): the property-level Coq
        # validator has judged the output and accepted it -> quiet.  A replay that starts as expected and then differs -> loud.
        q = [c for c, first in lst if first]
        l = [(c, first) for c, first in lst if not first]
        if q:
            quiet[kind] = "%d of %d" % (len(q), judged.get(kind, 0))
        if l:
            loud[kind] = l
    run.oblige("trace replay reproduces every noise / down-sampling output (or the call pattern changed globally and the Coq validators accept all)",
               not loud, "" if not loud else "; ".join("%s: %d of %d cases not reproduced" % (k, len(v), judged.get(k, 0)) for k, v in loud.items()))
    for kind, lst in loud.items():
        run.violation("broken-obligation", "C20 trace-replay correspondence (%s): %d of %d cases are not reproduced by the model although the "
                      "Coq validator accepts their outputs" % (kind, len(lst), judged.get(kind, 0)),
                      case=lst[0][0], clause="model = implementation on the recorded answers (first cases: %s)" %
                      json.dumps([c for c, _ in lst[:3]])[:1500], found_input=False)
    if quiet:
        run.notes.append("expected oracle calls did not occur for %s (library call pattern changed); those cases were decided by the "
                         "property-level Coq validators (C20_*_check_sound), all accepted" % quiet)
    stats["validator_fallback"] = {"quiet": quiet, "loud": {k: len(v) for k, v in loud.items()}}
    for k in ("_fallback", "_judged", "_modes"):
        stats.pop(k, None)
    sizes = {}
    for c in cases:
        nrow = case_rows(c)
        b = "rows<=5" if nrow <= 5 else "rows<=20" if nrow <= 20 else "rows<=100" if nrow <= 100 else "rows>100"
        sizes[b] = sizes.get(b, 0) + 1
    hcalls = {}
    for c in cases:
        if c["kind"] == "history":
            hcalls[len(c["steps"])] = hcalls.get(len(c["steps"]), 0) + 1
    run.cov["input_distribution"] = {"families": hist, "sizes": sizes, "calls_per_history": hcalls, "stats": stats}
    run.cov["exhaustive"] = False
    if run.tier == "thorough" and replay is None:
        run.cov["exhaustive_small_scope"] = ("labels: every cut position k/16 (2 classes) and every (a/8, b/8, rest) distribution (3 classes, list "
                                             "and ndarray) on tie-free and tied columns of 1..7 rows (%d cases) included" % len(exhaustive_labels()))
    run.samples = [c for c in cases[:400:60]][:6]
    run.assumptions += [
        "np.percentile is an ORACLE in the model of generate_labels: the recorded percent list and cut points (exact rationals of the "
        "doubles) are checked against its contract (percents within 1e-9 of the requested cumulative proportions; cut point in the "
        "bracket of its virtual index, a neighbouring bracket only when that index is within 1e-9 of an integer) and EVERY recorded "
        "case is judged with them; in addition the exact rational model of np.percentile must reproduce the labels whenever the double "
        "computation is provably exact (integer / dyadic decision values and proportions)",
        "int(n*p) of the noise code is an oracle answer k (size of the recorded np.random.choice request), checked: k = floor(n p), or "
        "one off only when n p is within 1e-9 of an integer and p has more than 20 fractional bits; no case is skipped",
        "two places of the code are modelled in two readings (per-label slices of categorical noise: as first read / cumulative; scalar p "
        "with n > 2: ignored / honoured); one reading must reproduce the whole run (coverage.input_distribution.stats.code_variant); "
        "PINNED_VARIANTS in tools/props/c20.py pins it once the proposed repairs are committed or rejected",
        "decision values are scaled by a common power of two before they reach the model (percentile and comparisons are scale-equivariant)",
        "numpy RNG (choice, randint, shuffle), y.argsort() and sklearn.utils.resample are oracles: their recorded answers are "
        "checked by the model (range, distinctness, length, sortedness, rows of the population)",
        "categorical noise: labels are 0..k-1 (the code indexes its per-label dictionary by position); missing-type noise: the "
        "marker is representable in the array's dtype (default -inf only on float arrays)",
        "correlation: non-constant integer sources, at least 5 rows, |r| < 1; compared numerically with tolerance 1e-9",
    ]
    run.trusted += [
        "harness: tools/props/c20.py (generators, exact Fraction <-> Q / Z encoding, Pearson in float with fsum, math.sin reference), "
        "tools/impl/impl_c20.py (drives the real code, records RNG / resample / percentile calls)",
        "coqparse.py (reads the terms coqc prints)",
        "modelled, held to the code only by correspondence: np.percentile (linear method), np.unique, numpy fancy indexing with "
        "negative indices, np.column_stack, np.bitwise_*, int64 arithmetic without overflow (|cells| < 2^31)",
        "float arithmetic of the orthogonal-projection construction (QR, 1e-10 regularisers): the theorem is over R; the "
        "implementation is compared numerically",
    ]
