"""C08 — streaming equals reference batch semantics with median aggregation."""
from __future__ import annotations

import json
import math
import os
import sys

import vlib

sys.path.insert(0, os.path.dirname(os.path.dirname(os.path.abspath(__file__))))
import translate_c08  # noqa: E402

LEVEL = "proof"
RULE = ("generated CSV files driven through the real outrank_task_conduct_ranking / estimate_importances_minibatches with a "
        "serial pool object; families: tail (k*B + {1023,1024,1025,1026} accepted rows), line-count boundary (k*B*s + {-1,0,1} "
        "lines), many small batches, random; malformed rows (short, long, blank, quoted-comma) at random positions; "
        "non-trivial = at least one batch boundary or tail decision within 2 rows of the accepted-row count, or a malformed "
        "selected row; distinct = distinct (B, s, ncols, line layout, heuristic, mode)")
THEOREMS = ["C08_batches", "C08_chunks", "C08_chunks_unique", "C08_selected", "C08_invalid_count", "C08_median",
            "C08_median_rows", "C08_median_one_row_per_pair", "C08_scores_of", "C08_median2_meaning", "C08_median_rank", "C08_sorted",
            "C08_checkpoint_prefix", "C08_grouped", "C08_model_spec", "C08_check_sound"]
TAIL_MIN = 1024          # the property's constant; coq/Pipeline/Stream.v tail_min
HEURISTICS = ["MI-numba-randomized", "max-value-coverage", "MI-numba"]
TOL = 1e-12


# ---------------------------------------------------------------------------------------------------------------
# generation

def layout(rng, B, s, ncols, G, n_bad, extra_tail, exact_lines=None):
    """Per-line (nfields, flavor) list such that exactly G well-formed lines are selected (1-based positions that are
    multiples of s), with about n_bad malformed lines sprinkled in, then `extra_tail` unselected lines."""
    out = []
    got = 0
    expected_len = max(1, G * s)
    p_bad = min(0.2, n_bad / expected_len)
    bad_kinds = [(ncols - 1, 0), (ncols + 1, 0), (0, 0), (1, 0), (ncols + 3, 0), (ncols - 1, 1), (ncols + 1, 2)]
    pos = 0
    while got < G or (exact_lines is not None and pos < exact_lines):
        if exact_lines is not None and pos >= exact_lines:
            break
        pos += 1
        if rng.random() < p_bad:
            nf, fl = rng.choice(bad_kinds)
            if nf == ncols:
                nf = ncols + 1
            out.append((max(0, nf), fl))
        else:
            fl = 0
            r = rng.random()
            if r < 0.01:
                fl = 1
            elif r < 0.02:
                fl = 2
            out.append((ncols, fl))
            if pos % s == 0:
                got += 1
    if exact_lines is None:
        for _ in range(extra_tail):
            if (pos + 1) % s == 0:
                break
            pos += 1
            out.append((ncols, 0))
    return out


def rle(lines):
    segs = []
    for nf, fl in lines:
        if segs and segs[-1][1] == nf and segs[-1][2] == fl:
            segs[-1][0] += 1
        else:
            segs.append([1, nf, fl])
    return segs


def gen_case(rng, family=None):
    ncols = rng.choice([3, 4, 4, 5])
    cols = ["id"] + ["f%d" % i for i in range(1, ncols - 1)] + ["label"]
    s = rng.choice([1, 1, 2, 3, 5])
    family = family or rng.choice(["tail", "tail", "lines", "small", "random"])
    exact_lines = None
    if family == "tail":
        B = rng.choice([1026, 1027, 1100, 1300, 1500, 2048])
        rest = rng.choice([1023, 1024, 1025, 1026, 1024, 1025])
        rest = min(rest, B - 1)
        kmax = max(0, (6400 // s - rest) // B)
        k = rng.randint(0, min(3, kmax))
        G = k * B + rest
        if G * s > 6600:
            s = 1
        n_bad = rng.choice([0, 0, 1, 3, 8])
    elif family == "lines":
        B = rng.choice([500, 700, 1024, 1025, 1100, 1500])
        kmax = max(1, 6400 // (B * s))
        k = rng.randint(1, min(4, kmax))
        exact_lines = k * B * s + rng.choice([-1, 0, 1])
        G = 0
        n_bad = rng.choice([0, 0, 0, 1, 2])
    elif family == "small":
        B = rng.choice([1, 2, 7, 50, 128, 333])
        G = rng.randint(0, 12) * B + rng.choice([0, 1, B - 1, rng.randint(0, B)])
        G = max(0, min(G, 2200 // s if B > 7 else 40))
        n_bad = rng.choice([0, 2, 5, 12])
    else:
        B = rng.choice([900, 1024, 1025, 1026, 1200, 1999, 3000])
        G = rng.randint(0, 6200 // s)
        n_bad = rng.choice([0, 1, 4, 10, 30])
    lines = layout(rng, B, s, ncols, G, n_bad, rng.randint(0, s), exact_lines)
    case = {"B": B, "s": s, "cols": cols, "heuristic": rng.choice(HEURISTICS),
            "target_only": rng.choice(["True", "True", "False"]), "seed": rng.randint(0, 10 ** 6),
            "segments": rle(lines), "entry": rng.choice(["task", "task", "task", "direct"]),
            "trailing_newline": rng.random() < 0.8, "crlf": rng.random() < 0.15, "family": family}
    return case


def boundary_grid():
    """Deterministic part of the thorough tier: every tail size around the constant for a grid of (B, s)."""
    out = []
    for B in (1026, 1500):
        for s in (1, 2, 3):
            for k in (0, 1):
                for rest in (1023, 1024, 1025):
                    G = k * B + rest
                    n = G * s
                    cols = ["id", "f1", "f2", "label"]
                    out.append({"B": B, "s": s, "cols": cols, "heuristic": "MI-numba-randomized", "target_only": "True",
                                "seed": 7, "segments": [[n, 4, 0]], "entry": "task", "trailing_newline": True,
                                "crlf": False, "family": "grid"})
    return out


def small_scope():
    """Exhaustive small scope (thorough tier): every good/malformed layout of up to 5 lines for B in 1..3, s in 1..2.
    (The tail rule cannot fire here; the loop logic - selection, skipping, trigger, reset, checkpoints - can.)"""
    import itertools
    out = []
    for B in (1, 2, 3):
        for s in (1, 2):
            for n in range(0, 6):
                for bits in itertools.product((0, 1), repeat=n):
                    lines = [(3, 0) if b else (2, 0) for b in bits]
                    out.append({"B": B, "s": s, "cols": ["id", "f1", "label"], "heuristic": "max-value-coverage",
                                "target_only": "True", "seed": 3, "segments": rle(lines), "entry": "task",
                                "trailing_newline": True, "crlf": False, "family": "small-scope"})
    return out


def boundary_core():
    """Tail-boundary files that are always run when the translator cannot read the tail rule (both tiers)."""
    out = []
    for B, s, ks in ((1026, 1, (0, 1)), (1500, 2, (0,)), (2048, 1, (1,))):
        for k in ks:
            for rest in (1023, 1024, 1025, 1026):
                if rest >= B:
                    continue
                n = (k * B + rest) * s
                out.append({"B": B, "s": s, "cols": ["id", "f1", "label"], "heuristic": "max-value-coverage", "target_only": "True",
                            "seed": 9, "segments": [[n, 3, 0]], "entry": "task" if k else "direct", "trailing_newline": True,
                            "crlf": False, "family": "tail-boundary"})
    return out


def load_corpus(pid):
    d = os.path.join(vlib.VERIF, "corpus", pid)
    out = []
    if os.path.isdir(d):
        for f in sorted(os.listdir(d)):
            if f.endswith(".json"):
                out.append(json.load(open(os.path.join(d, f))))
    return out


# ---------------------------------------------------------------------------------------------------------------
# reference computed in Python, only for coverage statistics (never for the verdict)

def py_reference(case):
    B, s, ncols = case["B"], case["s"], len(case["cols"])
    pos = 0
    good = []
    bad = 0
    for cnt, nf, fl in case["segments"]:
        for _ in range(cnt):
            pos += 1
            if pos % s == 0:
                if nf == ncols:
                    good.append(pos)
                else:
                    bad += 1
    full = len(good) // B
    rest = len(good) - full * B
    used = full * B + (rest if rest > TAIL_MIN else 0)
    return {"nlines": pos, "good": len(good), "full": full, "rest": rest, "bad_selected": bad,
            "tail_used": rest > TAIL_MIN, "consumed_ids": good[:used]}


def nontrivial(case, ref):
    B = case["B"]
    near_batch = ref["good"] >= B - 2 and (ref["rest"] <= 2 or ref["rest"] >= B - 2)
    near_tail = abs(ref["rest"] - TAIL_MIN) <= 2
    return near_batch or near_tail or ref["bad_selected"] > 0 or ref["full"] >= 2


# ---------------------------------------------------------------------------------------------------------------
# encoding for Coq

def parse_id(x):
    if isinstance(x, str) and len(x) > 1 and x[0] == "r" and x[1:].isdigit():
        return int(x[1:])
    return 0          # no line has id 0: any foreign row shows up as a mismatch


def all_floats(res):
    for b in res["batches"]:
        for t in (b.get("triplets") or []):
            yield t[2]
        for t in (b.get("ckpt_before") or []):
            yield t[2]
    for key in ("ckpt_after", "pairwise", "grouped"):
        for t in (res.get(key) or []):
            yield t[2]


class Enc:
    """names -> ranks among the sorted names; floats -> integers by one power-of-two scale."""

    def __init__(self, res):
        names = set()
        for b in res["batches"]:
            for t in (b.get("triplets") or []) + (b.get("ckpt_before") or []):
                names.update(t[:2])
        for key in ("ckpt_after", "pairwise", "grouped"):
            for t in (res.get(key) or []):
                names.update(t[:2])
        self.names = sorted(names)
        self.ids = {n: i for i, n in enumerate(self.names)}
        den = 1
        self.finite = True
        for f in all_floats(res):
            if not isinstance(f, (int, float)) or not math.isfinite(f):
                self.finite = False
                continue
            den = max(den, float(f).as_integer_ratio()[1])
        self.den = den

    def z(self, f, mult=1):
        n, d = float(f).as_integer_ratio()
        return n * (self.den // d) * mult

    def rows(self, trip, mult=1):
        return "[" + "; ".join("((%d, %d)%%N, %s%%Z)" % (self.ids[a], self.ids[b], vlib.zlit(self.z(sc, mult)))
                               for a, b, sc in trip) + "]"

    def back(self, enc_table, div=2):
        """(a, b, z) rows printed by Coq -> [(nameA, nameB, float)] with z/div/scale."""
        out = []
        for a, b, zv in enc_table:
            out.append((self.names[a], self.names[b], zv / div / self.den))
        return out


def coq_case(case, res, enc):
    ncols = len(case["cols"])
    segs = "[" + "; ".join("(%d%%N, %d%%nat)" % (c, nf) for c, nf, _ in case["segments"]) + "]"
    krows = []
    for b in res["batches"]:
        if b["ids"] and b.get("triplets") is not None:
            krows.append("(%d%%N, %s)" % (parse_id(b["ids"][0]), enc.rows(b["triplets"])))
    k = "(mkcase (mkcfg %d %d%%N %d tail_min) %s [%s])" % (case["B"], case["s"], ncols, segs, "; ".join(krows))
    ob = "[" + "; ".join("[" + "; ".join("%d" % parse_id(i) for i in b["ids"]) + "]%N" for b in res["batches"]) + "]"
    inv = res.get("invalid_logged") or []
    oi = inv[0] if len(inv) == 1 and inv[0] >= 0 else (0 if not inv else 10 ** 6)
    ck = impl_checkpoints(res)
    oc = "[" + "; ".join(enc.rows(t or [], 2) for t in ck) + "]"
    final = res.get("pairwise") if case.get("entry", "task") == "task" else sorted(res.get("grouped") or [], key=lambda t: t[2])
    of = enc.rows(final or [], 2)
    return "C08_eval %s (%s, %d%%nat, %s, %s)" % (k, ob, oi, oc, of)


def impl_checkpoints(res):
    """checkpoint after batch j = what the wrapper read before batch j+1; the last one is read when the function returns."""
    bs = res["batches"]
    ck = []
    for j in range(len(bs)):
        if j + 1 < len(bs):
            ck.append(bs[j + 1].get("ckpt_before"))
        else:
            ck.append(res.get("ckpt_after"))
    return ck


def close(a, b):
    return a == b or abs(a - b) <= TOL * max(abs(a), abs(b))


def table_diff(model_rows, impl_rows):
    """both [(A, B, float)]; compares as maps pair -> score, each pair once."""
    if impl_rows is None:
        impl_rows = []
    m = {}
    for a, b, sc in model_rows:
        m[(a, b)] = sc
    seen = set()
    for a, b, sc in impl_rows:
        if (a, b) in seen:
            return "pair %s,%s appears twice" % (a, b)
        seen.add((a, b))
        if (a, b) not in m:
            return "unexpected pair %s,%s" % (a, b)
        if not close(m[(a, b)], sc):
            return "pair %s,%s: median of the per-batch scores is %r, implementation has %r" % (a, b, m[(a, b)], sc)
    if len(seen) != len(m):
        return "pairs missing: %s" % sorted(set(m) - seen)[:3]
    return None


HEADER = ("From Coq Require Import List NArith ZArith.\n"
          "From Outrank Require Import Pipeline.Stream Pipeline.Aggregate Pipeline.C08Model.\n"
          "Import ListNotations.")


def evaluate(run, cases, results):
    """Returns a list of (case index, verdict dict or None, detail)."""
    exprs, idx, encs = [], [], {}
    out = {}
    for i, (c, r) in enumerate(zip(cases, results)):
        if not r.get("ok"):
            out[i] = ("impl-error", r.get("error"), None)
            continue
        enc = Enc(r)
        if not enc.finite:
            out[i] = ("non-finite", None, None)
            continue
        encs[i] = enc
        exprs.append(coq_case(c, r, enc))
        idx.append(i)
    vals = vlib.coq_eval("C08", HEADER, exprs, shard=max(1, (len(exprs) + 11) // 12))
    for i, v in zip(idx, vals):
        out[i] = ("evaluated", v, encs[i])
    return out


def judge(case, res, val, enc):
    """-> list of (clause, detail) that fail for this case."""
    same_batches, m_inv, m_ckpts, m_final, verdict = val
    v_batches, v_invalid, v_nckpt, v_ckpts, v_sorted, v_final = verdict
    fails = []
    ref = py_reference(case)
    sizes = [len(b["ids"]) for b in res["batches"]]
    if not v_batches:
        fails.append(("consumed rows / mini-batch boundaries / tail rule",
                      "implementation scored batches of sizes %s (first ids %s); reference semantics: %d accepted rows -> %d full "
                      "batches of %d and a remainder of %d (%s)" % (
                          sizes, [b["ids"][:1] for b in res["batches"]], ref["good"], ref["full"], case["B"], ref["rest"],
                          "used" if ref["tail_used"] else "not used")))
    if not v_invalid:
        fails.append(("skipped rows are counted", "implementation logged %s invalid lines, reference %d" % (
            res.get("invalid_logged"), m_inv)))
    if v_batches:
        if not v_nckpt or not all(v_ckpts):
            ck = impl_checkpoints(res)
            j = v_ckpts.index(False) if False in v_ckpts else len(ck)
            d = table_diff(enc.back(m_ckpts[j]), ck[j]) if j < len(ck) and j < len(m_ckpts) else "checkpoint missing"
            fails.append(("checkpoint after batch %d = median aggregation of the batches so far" % (j + 1), d))
        if case.get("entry", "task") == "task":
            if not v_sorted:
                fails.append(("pairwise_ranks.tsv ascending in score", "scores: %s" % [t[2] for t in (res.get("pairwise") or [])][:12]))
            if not v_final:
                fails.append(("final score of a pair = median of its per-batch scores",
                              table_diff(enc.back(m_final), res.get("pairwise")) or "rows differ as multisets"))
        elif not v_final:
            fails.append(("returned grouped frame = median of per-batch scores", table_diff(enc.back(m_final), res.get("grouped"))))
        # the returned frame is an observable of its own
        g = table_diff(enc.back(m_final), res.get("grouped"))
        if g and res.get("grouped") is not None or (res.get("grouped") is None and m_final):
            fails.append(("grouped frame returned by estimate_importances_minibatches", g or "no frame returned"))
    return fails


def shrink_variants(case):
    out = []
    segs = case["segments"]
    ncols = len(case["cols"])
    for j, (cnt, nf, fl) in enumerate(segs):
        if nf != ncols or fl != 0:       # make a malformed / quoted segment ordinary
            c2 = json.loads(json.dumps(case))
            c2["segments"][j] = [cnt, ncols, 0]
            c2["segments"] = rle([(s[1], s[2]) for s in c2["segments"] for _ in range(s[0])])
            out.append(c2)
    for key, val in (("target_only", "True"), ("heuristic", "max-value-coverage"), ("crlf", False), ("trailing_newline", True)):
        if case.get(key) != val:
            c2 = json.loads(json.dumps(case))
            c2[key] = val
            out.append(c2)
    return out[:10]


def size_of(case):
    return (len(case["segments"]), sum(s[0] for s in case["segments"]), case["target_only"] != "True")


def check(run, replay):
    ok, log = vlib.build(["Pipeline/C08Model.vo"])
    run.oblige("build:model Pipeline/Stream.vo, Aggregate.vo, C08Model.vo", ok, "" if ok else log[-1500:])
    if not ok:
        raise vlib.Broken("build:Pipeline/C08Model.vo", log)
    vlib.standard_proof_phase(run, ["Props/C08.vo"], "Outrank.Props.C08", THEOREMS)

    # translator: the tail rule of the source against the property's / the model's constant
    coq_tail = vlib.coq_eval("C08t", "From Outrank Require Import Pipeline.Stream.", ["tail_min"])[0]
    if coq_tail != TAIL_MIN:
        run.oblige("model constant tail_min = %d" % TAIL_MIN, False, "Pipeline/Stream.v has %r" % (coq_tail,))
        run.violation("broken-obligation", "model:tail_min", found_input=False, extra="tail_min = %r" % (coq_tail,))
    fallback = False
    try:
        info = translate_c08.extract(vlib.REPO)
        good = info["tail_min_used"] == TAIL_MIN + 1
        run.oblige("translator:tail rule (`%s` at core_ranking.py:%d) = more than %d rows" % (
            info["tail_text"], info["tail_lineno"], TAIL_MIN), good,
            "" if good else "source processes a final partial batch from %d rows on; the property says from %d on" % (
                info["tail_min_used"], TAIL_MIN + 1))
        run.cov["translated"] = info
        run.cov["tail_constant_held_by"] = "translator (ast) and correspondence"
        if not good:
            run.violation("broken-obligation", "translator:tail-rule", found_input=False,
                          clause="a final partial batch is used only if it has more than 1024 rows", extra=info)
    except translate_c08.TranslateError as e:
        # The tail rule could not be located in the source (a rewrite the reader does not recognise).  That alone is
        # not a violation: the model keeps the last accepted rule (strictly more than tail_min = 1024 rows) and the
        # correspondence decides - the tail-boundary files (1023/1024/1025/1026 accepted rows left) are forced into the run.
        fallback = True
        msg = "tail constant held by correspondence only (translator could not locate it: %s)" % e
        run.oblige("tail rule held by the correspondence (boundary files 1023/1024/1025/1026 always run); translator not applicable",
                   True, msg)
        run.notes.append(msg)
        run.assumptions.append(msg)
        run.cov["tail_constant_held_by"] = "correspondence only"
        run.cov["translator_error"] = str(e)

    if replay is not None:
        cases = [replay["case"]]
    else:
        cases = load_corpus("C08")
        n = 72 if run.tier == "quick" else 1200
        fams = ["tail", "tail", "lines", "small", "random", "tail"]
        for i in range(n):
            cases.append(gen_case(run.rng, fams[i % len(fams)] if i < 18 else None))
        if fallback:
            cases.extend(boundary_core())
        if run.tier == "thorough":
            cases.extend(boundary_grid())
            cases.extend(small_scope())
            run.cov["exhaustive_small_scope"] = "all good/malformed layouts of <= 5 lines, B in 1..3, s in 1..2 (378 files) included"
    root = os.path.join(vlib.CACHE, "c08", str(os.getpid()))
    results = vlib.run_impl("impl_c08.py", {"cases": cases, "root": root})["results"]
    ev = evaluate(run, cases, results)
    run.oblige("correspondence:batches/invalid/checkpoints/final table vs reference semantics (C08_check in Coq)", True)

    hist = {"family": {}, "B": {}, "s": {}, "batches": {}, "rest_near_tail": {}, "bad_selected": 0, "entry": {},
            "heuristic": {}, "nlines_max": 0, "impl_errors": 0, "model_loop_differs_from_impl_batches": 0, "non_finite": 0}
    failing = []
    for i, (c, r) in enumerate(zip(cases, results)):
        ref = py_reference(c)
        run.count_case({k: c[k] for k in ("B", "s", "cols", "segments", "heuristic", "target_only", "entry")}, nontrivial(c, ref))
        for key, val in (("family", c.get("family", "?")), ("B", c["B"]), ("s", c["s"]), ("batches", len(r.get("batches", []))),
                         ("entry", c.get("entry", "task")), ("heuristic", c["heuristic"])):
            hist[key][str(val)] = hist[key].get(str(val), 0) + 1
        if abs(ref["rest"] - TAIL_MIN) <= 2:
            hist["rest_near_tail"][str(ref["rest"])] = hist["rest_near_tail"].get(str(ref["rest"]), 0) + 1
        hist["bad_selected"] += 1 if ref["bad_selected"] else 0
        hist["nlines_max"] = max(hist["nlines_max"], ref["nlines"])
        kind, val, enc = ev[i]
        if kind == "impl-error":
            hist["impl_errors"] += 1
            failing.append((i, [("the ranking task terminates normally", val)]))
            continue
        if kind == "non-finite":
            hist["non_finite"] += 1
            continue
        if not val[0]:
            hist["model_loop_differs_from_impl_batches"] += 1
        fails = judge(c, r, val, enc)
        # independent observable: the bounded counter of the id column = consumed rows (if the wrapper point vanished)
        cons = r.get("consumed")
        if cons is not None and not fails and len(ref["consumed_ids"]) < 30000:
            want = {"r%d" % j for j in ref["consumed_ids"]}
            if set(cons) != want or any(v != 1 for v in cons.values()):
                d = sorted(set(cons) ^ want, key=lambda x: (len(x), x))[:6]
                fails.append(("consumed rows (value counter of the id column)",
                              "%d distinct ids counted, reference %d; differing ids %s" % (len(cons), len(want), d)))
        if r.get("wrapper_missing"):
            run.violation("broken-obligation", "correspondence:observation point core_ranking.compute_batch_ranking not found",
                          found_input=False, extra="batches could not be recorded; only the consumed-id counter, the checkpoint "
                          "left behind and the final table were compared")
        if fails:
            failing.append((i, fails))

    if failing and replay is None:
        # one round of shrinking on the first failing case
        i0, f0 = failing[0]
        vs = shrink_variants(cases[i0])
        if vs:
            try:
                r2 = vlib.run_impl("impl_c08.py", {"cases": vs, "root": root + "_s"})["results"]
                ev2 = evaluate(run, vs, r2)
                best = None
                for j, (c2, rr) in enumerate(zip(vs, r2)):
                    kind, val, enc = ev2[j]
                    fl = [("the ranking task terminates normally", val)] if kind == "impl-error" else (
                        judge(c2, rr, val, enc) if kind == "evaluated" else [])
                    if fl and fl[0][0] == f0[0][0] and (best is None or size_of(c2) < size_of(best[0])):
                        best = (c2, rr, fl)
                if best and size_of(best[0]) < size_of(cases[i0]):
                    cases[i0], results[i0] = best[0], best[1]
                    failing[0] = (i0, best[2])
            except vlib.Broken:
                pass
    for i, fails in failing:
        r = results[i]
        summary = {"batch_sizes": [len(b["ids"]) for b in r.get("batches", [])], "invalid_logged": r.get("invalid_logged"),
                   "pairwise": r.get("pairwise"), "exit": r.get("exit"), "error": r.get("error"),
                   "traceback": r.get("traceback")}
        run.violation("counterexample", "C08_check on implementation outputs", case=cases[i], impl=summary,
                      model={"reference": {k: v for k, v in py_reference(cases[i]).items() if k != "consumed_ids"}}, clause="; ".join("%s: %s" % f for f in fails)[:3000])
    if failing:
        run.obligations[-1] = (run.obligations[-1][0], False, "%d files rejected" % len(failing))
    run.cov["input_distribution"] = hist
    run.cov["exhaustive"] = False
    run.cov["tolerance"] = "scores: |model - impl| <= 1e-12 * max(|.|) (pandas averages the two middle floats in binary64); everything else exact"
    run.samples = [{k: v for k, v in c.items()} for c in cases[:3]]
    run.assumptions += [
        "heuristic <> 'Constant' (the loop checkpoints only then); B >= 1, s >= 1",
        "a data line is abstracted to (1-based position, number of csv fields); the field count of each generated line is "
        "known by construction (plain cells, quoted cells with an embedded comma or doubled quote, blank lines)",
        "per-batch triplets are taken from the implementation (their values are C05's subject); feature names are abstracted to "
        "their rank among the sorted names, scores to integers by one power-of-two scale per file (exact)",
        "module globals of outrank.core_ranking are reset by the harness between files",
    ]
    run.trusted += ["harness: tools/props/c08.py (generator, encodings), tools/impl/impl_c08.py (file writer, wrapper around "
                    "compute_batch_ranking, logger object, serial pool object), tools/translate_c08.py (ast reader of the tail rule)",
                    "coqparse.py (reads the terms coqc prints)",
                    "pandas groupby/median/sort_values, csv.reader: transcribed, held to the code by this correspondence only"]
