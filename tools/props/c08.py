"""C08 — streaming equals reference batch semantics with median aggregation."""
from __future__ import annotations

import json
import math
import os
import sys

import vlib

sys.path.insert(0, os.path.dirname(os.path.dirname(os.path.abspath(__file__))))
import translate_c08  # noqa: E402

LEVEL = "proof"
RULE = ("generated CSV files driven through the real outrank_task_conduct_ranking / estimate_importances_minibatches with a "
        "serial pool object; families: tail (k*B + {1023,1024,1025,1026} accepted rows), line-count boundary (k*B*s + {-1,0,1} "
        "lines), many small batches, random; malformed rows (short, long, blank, quoted-comma) at random positions; "
        "non-trivial = at least one batch boundary or tail decision within 2 rows of the accepted-row count, or a malformed "
        "selected row; distinct = distinct (B, s, ncols, line layout, heuristic, mode)")
THEOREMS = ["C08_batches", "C08_chunks", "C08_chunks_unique", "C08_selected", "C08_invalid_count", "C08_median",
            "C08_median_rows", "C08_median_one_row_per_pair", "C08_scores_of", "C08_median2_meaning", "C08_median_per_batch", "C08_median_replicate", "C08_weighted_median_differs",
            "C08_per_batch_table", "C08_median_rank", "C08_sorted",
            "C08_checkpoint_prefix", "C08_grouped", "C08_model_spec", "C08_check_sound"]
TAIL_MIN = 1024          # the property's constant; coq/Pipeline/Stream.v tail_min
HEURISTICS = ["MI-numba-randomized", "max-value-coverage", "MI-numba"]
TOL = 2.0 ** -52      # one unit in the last place: the only rounding is fl(x + y) of the two middle scores


# ---------------------------------------------------------------------------------------------------------------
# generation

def layout(rng, B, s, ncols, G, n_bad, extra_tail, exact_lines=None):
    """Per-line (nfields, flavor) list such that exactly G well-formed lines are selected (1-based positions that are
    multiples of s), with about n_bad malformed lines sprinkled in, then `extra_tail` unselected lines."""
    out = []
    got = 0
    expected_len = max(1, G * s)
    p_bad = min(0.2, n_bad / expected_len)
    bad_kinds = [(ncols - 1, 0), (ncols + 1, 0), (0, 0), (1, 0), (ncols + 3, 0), (ncols - 1, 1), (ncols + 1, 2)]
    pos = 0
    while got < G or (exact_lines is not None and pos < exact_lines):
        if exact_lines is not None and pos >= exact_lines:
            break
        pos += 1
        if rng.random() < p_bad:
            nf, fl = rng.choice(bad_kinds)
            if nf == ncols:
                nf = ncols + 1
            out.append((max(0, nf), fl))
        else:
            fl = 0
            r = rng.random()
            if r < 0.01:
                fl = 1
            elif r < 0.02:
                fl = 2
            out.append((ncols, fl))
            if pos % s == 0:
                got += 1
    if exact_lines is None:
        for _ in range(extra_tail):
            if (pos + 1) % s == 0:
                break
            pos += 1
            out.append((ncols, 0))
    return out


def rle(lines):
    segs = []
    for nf, fl in lines:
        if segs and segs[-1][1] == nf and segs[-1][2] == fl:
            segs[-1][0] += 1
        else:
            segs.append([1, nf, fl])
    return segs


def gen_case(rng, family=None):
    ncols = rng.choice([3, 4, 4, 5])
    cols = ["id"] + ["f%d" % i for i in range(1, ncols - 1)] + ["label"]
    s = rng.choice([1, 1, 2, 3, 5])
    family = family or rng.choice(["tail", "tail", "lines", "small", "random", "cap"])
    exact_lines = None
    if family == "tail":
        B = rng.choice([1026, 1027, 1100, 1300, 1500, 2048])
        rest = rng.choice([1023, 1024, 1025, 1026, 1024, 1025])
        rest = min(rest, B - 1)
        kmax = max(0, (6400 // s - rest) // B)
        k = rng.randint(0, min(3, kmax))
        G = k * B + rest
        if G * s > 6600:
            s = 1
        n_bad = rng.choice([0, 0, 1, 3, 8])
    elif family == "lines":
        B = rng.choice([500, 700, 1024, 1025, 1100, 1500])
        kmax = max(1, 6400 // (B * s))
        k = rng.randint(1, min(4, kmax))
        exact_lines = k * B * s + rng.choice([-1, 0, 1])
        G = 0
        n_bad = rng.choice([0, 0, 0, 1, 2])
    elif family == "small":
        B = rng.choice([1, 2, 7, 50, 128, 333])
        G = rng.randint(0, 12) * B + rng.choice([0, 1, B - 1, rng.randint(0, B)])
        G = max(0, min(G, 2200 // s if B > 7 else 40))
        n_bad = rng.choice([0, 2, 5, 12])
    elif family == "cap":
        B, G, n_bad = 64, 0, 0        # set below
    else:
        B = rng.choice([900, 1024, 1025, 1026, 1200, 1999, 3000])
        G = rng.randint(0, 6200 // s)
        n_bad = rng.choice([0, 1, 4, 10, 30])
    lines = layout(rng, B, s, ncols, G, n_bad, rng.randint(0, s), exact_lines)
    if family == "cap":
        B = rng.choice([40, 64, 100])
        G = rng.randint(5, 12) * B + rng.choice([0, 3])
        n_bad = rng.choice([0, 2])
        ncols = rng.choice([3, 3, 4])
        cols = ["id"] + ["f%d" % i for i in range(1, ncols - 1)] + ["label"]
        lines = layout(rng, B, s, ncols, G, n_bad, 0, None)
    tro = rng.choice(["True", "True", "False"]) if family != "cap" else "False"
    ncand = ncols if tro == "True" else ncols * (ncols + 1) // 2
    cap = 2 ** 15
    if family == "cap":
        cap = rng.choice([ncand - 1, ncand - 1, ncand - 2, rng.randint(1, ncand - 1)])
    elif rng.random() < 0.3 and ncand > 1:
        cap = rng.randint(1, ncand - 1)
    case = {"B": B, "s": s, "cols": cols, "heuristic": rng.choice(HEURISTICS), "cap": max(1, cap),
            "target_only": tro, "seed": rng.randint(0, 10 ** 6),
            "segments": rle(lines), "entry": rng.choice(["task", "task", "task", "direct"]),
            "trailing_newline": rng.random() < 0.8, "crlf": rng.random() < 0.15, "family": family}
    return case


def boundary_grid():
    """Deterministic part of the thorough tier: every tail size around the constant for a grid of (B, s)."""
    out = []
    for B in (1026, 1500):
        for s in (1, 2, 3):
            for k in (0, 1):
                for rest in (1023, 1024, 1025):
                    G = k * B + rest
                    n = G * s
                    cols = ["id", "f1", "f2", "label"]
                    out.append({"B": B, "s": s, "cols": cols, "heuristic": "MI-numba-randomized", "target_only": "True",
                                "seed": 7, "segments": [[n, 4, 0]], "entry": "task", "trailing_newline": True,
                                "crlf": False, "family": "grid"})
    return out


def small_scope():
    """Exhaustive small scope (thorough tier): every good/malformed layout of up to 5 lines for B in 1..3, s in 1..2.
    (The tail rule cannot fire here; the loop logic - selection, skipping, trigger, reset, checkpoints - can.)"""
    import itertools
    out = []
    for B in (1, 2, 3):
        for s in (1, 2):
            for n in range(0, 6):
                for bits in itertools.product((0, 1), repeat=n):
                    lines = [(3, 0) if b else (2, 0) for b in bits]
                    out.append({"B": B, "s": s, "cols": ["id", "f1", "label"], "heuristic": "max-value-coverage",
                                "target_only": "True", "seed": 3, "segments": rle(lines), "entry": "task",
                                "trailing_newline": True, "crlf": False, "family": "small-scope"})
    return out


def boundary_core():
    """Tail-boundary files that are always run when the translator cannot read the tail rule (both tiers)."""
    out = []
    for B, s, ks in ((1026, 1, (0, 1)), (1500, 2, (0,)), (2048, 1, (1,))):
        for k in ks:
            for rest in (1023, 1024, 1025, 1026):
                if rest >= B:
                    continue
                n = (k * B + rest) * s
                out.append({"B": B, "s": s, "cols": ["id", "f1", "label"], "heuristic": "max-value-coverage", "target_only": "True",
                            "seed": 9, "segments": [[n, 3, 0]], "entry": "task" if k else "direct", "trailing_newline": True,
                            "crlf": False, "family": "tail-boundary"})
    return out


def scale_cases(rng, tier):
    """SCALE families (judged by the cross-checked Python transcription).
    scale-stream: files of several MiB (beyond any I/O block size) with subsampling > 1 - the row ids of every batch are
    compared; scale-history: one run whose accumulated triplet history crosses 2**16 rows, with even and odd batch counts
    on both sides - every checkpoint and the final table against the exact median of the recorded per-batch scores.
    The quick-tier files are fixed (independent of VERIF_SEED); thorough adds varied ones, gzip and CRLF."""
    c4 = ["id", "f1", "f2", "label"]
    out = [
        {"B": 4000, "s": 3, "cols": c4, "heuristic": "max-value-coverage", "target_only": "True", "seed": 21,
         "segments": [[36000, 4, 0]], "entry": "direct", "pad": 60, "trailing_newline": True, "crlf": False,
         "family": "scale-stream"},
        {"B": 3000, "s": 5, "cols": ["id", "f1", "label"], "heuristic": "max-value-coverage", "target_only": "True", "seed": 22,
         "segments": [[9000, 3, 0], [2, 2, 0], [14000, 3, 0], [1, 0, 0], [1, 5, 0], [17000, 3, 0]], "entry": "task", "pad": 52,
         "trailing_newline": True, "crlf": False, "family": "scale-stream"},
        {"B": 150, "s": 2, "cols": ["id"] + ["f%d" % i for i in range(1, 39)] + ["label"], "heuristic": "max-value-coverage",
         "target_only": "False", "seed": 23, "segments": [[13200, 40, 0]], "entry": "task", "trailing_newline": True, "crlf": False,
         "family": "scale-history"},
    ]
    if tier == "thorough":
        for k in range(6):
            s = [2, 3, 5, 7, 2, 3][k]
            n = rng.randint(30000, 60000)
            segs = [[n // 2, 4, 0], [rng.randint(1, 3), 3, 0], [n - n // 2, 4, 0]]
            out.append({"B": rng.choice([2500, 4000, 7000]), "s": s, "cols": c4, "heuristic": "max-value-coverage",
                        "target_only": "True", "seed": rng.randint(0, 10 ** 6), "segments": segs, "entry": "direct",
                        "pad": rng.randint(40, 90), "trailing_newline": k % 2 == 0, "crlf": k in (1, 4), "gzip": k in (2, 4),
                        "family": "scale-stream"})
        out.append({"B": 8, "s": 1, "cols": ["id"] + ["f%d" % i for i in range(1, 15)] + ["label"],
                    "heuristic": "max-value-coverage", "target_only": "False", "seed": rng.randint(0, 10 ** 6),
                    "segments": [[8 * 260 + 3, 16, 0]], "entry": "task", "trailing_newline": True, "crlf": False,
                    "family": "scale-history"})
        out.append({"B": 150, "s": 1, "cols": ["id"] + ["f%d" % i for i in range(1, 39)] + ["label"],
                    "heuristic": "MI-numba-randomized", "target_only": "False", "seed": rng.randint(0, 10 ** 6),
                    "segments": [[150 * 43, 40, 0]], "entry": "direct", "trailing_newline": True, "crlf": False,
                    "family": "scale-history"})
    return out


def load_corpus(pid):
    d = os.path.join(vlib.VERIF, "corpus", pid)
    out = []
    if os.path.isdir(d):
        for f in sorted(os.listdir(d)):
            if f.endswith(".json"):
                out.append(json.load(open(os.path.join(d, f))))
    return out


# ---------------------------------------------------------------------------------------------------------------
# reference computed in Python, only for coverage statistics (never for the verdict)

def py_reference(case):
    B, s, ncols = case["B"], case["s"], len(case["cols"])
    pos = 0
    good = []
    bad = 0
    for cnt, nf, fl in case["segments"]:
        for _ in range(cnt):
            pos += 1
            if pos % s == 0:
                if nf == ncols:
                    good.append(pos)
                else:
                    bad += 1
    full = len(good) // B
    rest = len(good) - full * B
    used = full * B + (rest if rest > TAIL_MIN else 0)
    return {"nlines": pos, "good": len(good), "full": full, "rest": rest, "bad_selected": bad,
            "tail_used": rest > TAIL_MIN, "consumed_ids": good[:used]}


def nontrivial(case, ref):
    B = case["B"]
    near_batch = ref["good"] >= B - 2 and (ref["rest"] <= 2 or ref["rest"] >= B - 2)
    near_tail = abs(ref["rest"] - TAIL_MIN) <= 2
    return near_batch or near_tail or ref["bad_selected"] > 0 or ref["full"] >= 2


# ---------------------------------------------------------------------------------------------------------------
# encoding for Coq

def parse_id(x):
    if isinstance(x, str) and len(x) > 1 and x[0] == "r" and x[1:].isdigit():
        return int(x[1:])
    return 0          # no line has id 0: any foreign row shows up as a mismatch


def all_floats(res):
    for b in res["batches"]:
        for t in (b.get("triplets") or []):
            yield t[2]
        for t in (b.get("ckpt_before") or []):
            yield t[2]
    for key in ("ckpt_after", "pairwise", "grouped"):
        for t in (res.get(key) or []):
            yield t[2]


class Enc:
    """names -> ranks among the sorted names; floats -> integers by one power-of-two scale."""

    def __init__(self, res):
        names = set()
        for b in res["batches"]:
            for t in (b.get("triplets") or []) + (b.get("ckpt_before") or []):
                names.update(t[:2])
        for key in ("ckpt_after", "pairwise", "grouped"):
            for t in (res.get(key) or []):
                names.update(t[:2])
        self.names = sorted(names)
        self.ids = {n: i for i, n in enumerate(self.names)}
        den = 1
        self.finite = True
        for f in all_floats(res):
            if not isinstance(f, (int, float)) or not math.isfinite(f):
                self.finite = False
                continue
            den = max(den, float(f).as_integer_ratio()[1])
        self.den = den

    def z(self, f, mult=1):
        n, d = float(f).as_integer_ratio()
        return n * (self.den // d) * mult

    def rows(self, trip, mult=1):
        return "[" + "; ".join("((%d, %d)%%N, %s%%Z)" % (self.ids[a], self.ids[b], vlib.zlit(self.z(sc, mult)))
                               for a, b, sc in trip) + "]"

    def back(self, enc_table, div=2):
        """(a, b, z) rows printed by Coq -> [(nameA, nameB, float)] with z/div/scale."""
        out = []
        for a, b, zv in enc_table:
            out.append((self.names[a], self.names[b], zv / div / self.den))
        return out


def encode_case(case, res, enc):
    """The data both evaluators receive (all integers): configuration, run-length coded lines, recorded triplets per batch
    keyed by the batch's first id, and the implementation's observables (tables doubled, as the model computes median2)."""
    def rows(trip, mult=1):
        return [((enc.ids[a], enc.ids[b]), enc.z(sc, mult)) for a, b, sc in trip]
    krows = []
    for b in res["batches"]:
        if b["ids"] and b.get("triplets") is not None:
            krows.append((parse_id(b["ids"][0]), rows(b["triplets"])))
    inv = res.get("invalid_logged") or []
    oi = inv[0] if len(inv) == 1 and inv[0] >= 0 else (0 if not inv else 10 ** 6)
    # entry=direct: no pairwise_ranks.tsv is written; the returned frame stands in for the content clauses and the
    # "ascending" clause is not judged there (the harness does not sort anything itself)
    final = res.get("pairwise") if case.get("entry", "task") == "task" else (res.get("grouped") or [])
    return {"B": case["B"], "s": case["s"], "ncols": len(case["cols"]), "tail": TAIL_MIN,
            "segs": [(c, nf) for c, nf, _ in case["segments"]], "krows": krows,
            "ob": [[parse_id(i) for i in b["ids"]] for b in res["batches"]], "oi": oi,
            "oc": [rows(tb or [], 2) for tb in impl_checkpoints(res)], "of": rows(final or [], 2)}


def coq_rows(rows):
    return "[" + "; ".join("((%d, %d)%%N, %s%%Z)" % (k[0], k[1], vlib.zlit(z)) for k, z in rows) + "]"


def coq_case(e):
    segs = "[" + "; ".join("(%d%%N, %d%%nat)" % (c, nf) for c, nf in e["segs"]) + "]"
    krows = "; ".join("(%d%%N, %s)" % (fid, coq_rows(r)) for fid, r in e["krows"])
    k = "(mkcase (mkcfg %d %d%%N %d tail_min) %s [%s])" % (e["B"], e["s"], e["ncols"], segs, krows)
    ob = "[" + "; ".join("[" + "; ".join("%d" % i for i in b) + "]%N" for b in e["ob"]) + "]"
    oc = "[" + "; ".join(coq_rows(tb) for tb in e["oc"]) + "]"
    return "C08_eval %s (%s, %d%%nat, %s, %s)" % (k, ob, e["oi"], oc, coq_rows(e["of"]))


# ---------------------------------------------------------------------------------------------------------------
# Python transcription of coq/Pipeline/Stream.v, Aggregate.v, C08Model.v.  It judges the SCALE families (files and
# triplet histories too large for vm_compute in the quick tier); on every small file of the same run its complete
# output is compared with what `C08_eval` prints in Coq (obligation "transcription = C08_eval").

def py_decode_lines(segs):                                   # decode_lines
    out = []
    k = 1
    for cnt, nf in segs:
        for _ in range(cnt):
            out.append((k, nf))
            k += 1
    return out


def py_median2(l):                                           # Common/Median.v median2
    s = sorted(l)
    n = len(s)
    if n == 0:
        return 0
    return s[n // 2 - 1] + s[n // 2] if n % 2 == 0 else 2 * s[n // 2]


def py_aggregate(rows):                                      # aggregate: distinct keys in key order, median2 of their scores
    groups = {}
    for k, z in rows:
        groups.setdefault(k, []).append(z)
    return [(k, py_median2(groups[k])) for k in sorted(groups)]


def py_final_sort(table):                                    # stable, ascending in score
    return sorted(table, key=lambda r: r[1])


def py_stream(B, s, ncols, tail, lines, score, agg):         # sstep / run / finish
    counter, buf, emitted, invalid, acc, ckpts = 0, [], [], 0, [], []

    def flush(b):
        nonlocal buf, acc
        acc = acc + score(b)
        buf = []
        emitted.append(b)
        ckpts.append(agg(acc))
    for l in lines:
        counter += 1
        if counter % s != 0:
            continue
        if l[1] == ncols:
            buf.append(l)
        else:
            invalid += 1
        if B <= len(buf):
            flush(buf)
    if tail < len(buf):
        flush(buf[:B])
    return emitted, invalid, acc, ckpts


def py_reference_batches(B, s, ncols, tail, lines):          # selected / good / chunks / reference_batches
    selected = [l for pos, l in enumerate(lines, start=1) if pos % s == 0]
    good = [l for l in selected if l[1] == ncols]
    full = []
    rest = good
    while B <= len(rest):
        full.append(rest[:B])
        rest = rest[B:]
    return full + ([rest] if tail < len(rest) else []), len(selected) - len(good)


def py_close2(a, b):
    return abs(a - b) * 2 ** 52 <= max(abs(a), abs(b))


def py_table_close(t1, t2):
    c1 = sorted(t1, key=lambda r: (r[0], r[1]))
    c2 = sorted(t2, key=lambda r: (r[0], r[1]))
    return len(c1) == len(c2) and all(x[0] == y[0] and py_close2(x[1], y[1]) for x, y in zip(c1, c2))


def py_eval(e, light=False):
    """Same shape as the term `C08_eval` prints: (loop model batches = impl batches, model invalid count, model checkpoints,
    model final table, (v_batches, v_invalid, v_nckpt, v_ckpts, v_sorted, v_final, v_uniform, v_per_batch)).  light=True skips the aggregation
    inside the loop model (the model checkpoints/final are then taken from the reference side, which C08_model_spec
    proves equal)."""
    tbl = {}
    for fid, r in e["krows"]:
        tbl.setdefault(fid, r)

    def score(b):
        return list(tbl.get(b[0][0], [])) if b else []
    lines = py_decode_lines(e["segs"])
    emitted, m_inv, acc, ckpts = py_stream(e["B"], e["s"], e["ncols"], e["tail"], lines, score,
                                           (lambda rows: None) if light else py_aggregate)
    ref, ref_inv = py_reference_batches(e["B"], e["s"], e["ncols"], e["tail"], lines)
    ref_ids = [[l[0] for l in b] for b in ref]
    v_batches = e["ob"] == ref_ids
    v_invalid = e["oi"] == ref_inv
    v_nckpt = len(e["oc"]) == len(ref)
    v_ckpts = []
    groups = {}
    ref_ckpts = []
    for j, b in enumerate(ref):                               # aggregate (concat (map score (firstn (S j) ref))), incrementally
        for k, z in score(b):
            groups.setdefault(k, []).append(z)
        want = [(k, py_median2(groups[k])) for k in sorted(groups)]
        ref_ckpts.append(want)
        v_ckpts.append(py_table_close(want, e["oc"][j] if j < len(e["oc"]) else []))
    v_uniform = []
    once_groups = {}
    for b in ref:                                              # batch_uniformb / batch_once
        seen = {}
        ok_b = True
        for k, z in score(b):
            if k in seen:
                ok_b = ok_b and seen[k] == z
            else:
                seen[k] = z
        v_uniform.append(ok_b)
        for k, z in seen.items():
            once_groups.setdefault(k, []).append(z)
    v_per_batch = py_table_close([(k, py_median2(once_groups[k])) for k in sorted(once_groups)], e["of"])
    want_all = ref_ckpts[-1] if ref_ckpts else []
    zs = [z for _, z in e["of"]]
    v_sorted = all(zs[i] <= zs[i + 1] for i in range(len(zs) - 1))
    v_final = py_table_close(want_all, e["of"])
    if light:
        m_ckpts, m_final = ref_ckpts, py_final_sort(want_all)
    else:
        m_ckpts, m_final = ckpts, py_final_sort(py_aggregate(acc))
    enc_t = lambda tb: [(k[0], k[1], z) for k, z in tb]       # noqa: E731
    return ([[l[0] for l in b] for b in emitted] == e["ob"], m_inv, [enc_t(c) for c in m_ckpts], enc_t(m_final),
            (v_batches, v_invalid, v_nckpt, v_ckpts, v_sorted, v_final, v_uniform, v_per_batch))


def impl_checkpoints(res):
    """checkpoint after batch j = what the wrapper read before batch j+1; the last one is read when the function returns."""
    bs = res["batches"]
    ck = []
    for j in range(len(bs)):
        if j + 1 < len(bs):
            ck.append(bs[j + 1].get("ckpt_before"))
        else:
            ck.append(res.get("ckpt_after"))
    return ck


def close(a, b):
    return a == b or abs(a - b) <= TOL * max(abs(a), abs(b))


def table_diff(model_rows, impl_rows):
    """both [(A, B, float)]; compares as maps pair -> score, each pair once."""
    if impl_rows is None:
        impl_rows = []
    m = {}
    for a, b, sc in model_rows:
        m[(a, b)] = sc
    seen = set()
    for a, b, sc in impl_rows:
        if (a, b) in seen:
            return "pair %s,%s appears twice" % (a, b)
        seen.add((a, b))
        if (a, b) not in m:
            return "unexpected pair %s,%s" % (a, b)
        if not close(m[(a, b)], sc):
            return "pair %s,%s: median of the per-batch scores is %r, implementation has %r" % (a, b, m[(a, b)], sc)
    if len(seen) != len(m):
        return "pairs missing: %s" % sorted(set(m) - seen)[:3]
    return None


HEADER = ("From Coq Require Import List NArith ZArith.\n"
          "From Outrank Require Import Pipeline.Stream Pipeline.Aggregate Pipeline.C08Model.\n"
          "Import ListNotations.")


def is_scale(case):
    return str(case.get("family", "")).startswith("scale")


def canon_val(v):
    """Coq terms come back as nested tuples/lists of ints and bools; normalise both sides for comparison."""
    if isinstance(v, (list, tuple)):
        return [canon_val(x) for x in v]
    return v


def evaluate(run, cases, results):
    """Returns {case index: (kind, value, enc)}; kind 'evaluated' carries the C08_eval-shaped value.  Small files are
    evaluated in Coq AND by the Python transcription (their outputs must coincide); scale files by the transcription."""
    exprs, idx, encs, encoded = [], [], {}, {}
    out = {}
    stats = {"small_files_cross_checked": 0, "transcription_disagrees": [], "scale_files": 0, "non_finite_files": 0}
    for i, (c, r) in enumerate(zip(cases, results)):
        if not r.get("ok"):
            out[i] = ("impl-error", r.get("error"), None)
            continue
        enc = Enc(r)
        partial = False
        if not enc.finite:
            # a non-finite score: the score-free clauses (batches, invalid count) are still judged
            partial = True
            stats["non_finite_files"] += 1
            r = dict(r, batches=[dict(b, triplets=None, ckpt_before=None) for b in r["batches"]], ckpt_after=None,
                     pairwise=None, grouped=None)
            enc = Enc(r)
        encs[i] = None if partial else enc
        encoded[i] = encode_case(c, r, enc)
        if is_scale(c):
            stats["scale_files"] += 1
            out[i] = ("evaluated", py_eval(encoded[i], light=True), encs[i])
        else:
            exprs.append(coq_case(encoded[i]))
            idx.append(i)
    vals = vlib.coq_eval("C08", HEADER, exprs, shard=max(1, (len(exprs) + 11) // 12)) if exprs else []
    for i, v in zip(idx, vals):
        out[i] = ("evaluated", v, encs[i])
        pv = py_eval(encoded[i])
        stats["small_files_cross_checked"] += 1
        if canon_val(pv) != canon_val(v) or canon_val(py_eval(encoded[i], light=True)) != canon_val(v):
            stats["transcription_disagrees"].append(i)
    return out, stats


def judge(case, res, val, enc):
    """-> list of (clause, detail) that fail for this case."""
    same_batches, m_inv, m_ckpts, m_final, verdict = val
    v_batches, v_invalid, v_nckpt, v_ckpts, v_sorted, v_final, v_uniform, v_per_batch = verdict
    fails = []
    if enc is None:             # a non-finite score somewhere: only the score-free clauses are judged
        v_nckpt, v_ckpts, v_sorted, v_final, v_uniform, v_per_batch = True, [], True, True, [], True
        m_ckpts, m_final = [], []
    ref = py_reference(case)
    sizes = [len(b["ids"]) for b in res["batches"]]
    if not v_batches:
        want = ref["consumed_ids"]
        got_b = [[parse_id(x) for x in b["ids"]] for b in res["batches"]]
        where = "batch counts differ"
        for bi, gb in enumerate(got_b):
            wb = want[bi * case["B"]:(bi + 1) * case["B"]]
            if gb != wb:
                pos = next((p for p in range(min(len(gb), len(wb))) if gb[p] != wb[p]), min(len(gb), len(wb)))
                where = "first wrong batch %d, position %d: implementation row %s, reference row %s" % (
                    bi + 1, pos, "r%d" % gb[pos] if pos < len(gb) else "(none)", "r%d" % wb[pos] if pos < len(wb) else "(none)")
                break
        fails.append(("consumed rows / mini-batch boundaries / tail rule",
                      "implementation scored %d batches of sizes %s (first ids %s); reference semantics: %d accepted rows -> %d full "
                      "batches of %d and a remainder of %d (%s); %s" % (
                          len(sizes), sizes[:12], [b["ids"][:1] for b in res["batches"]][:12], ref["good"], ref["full"], case["B"],
                          ref["rest"], "used" if ref["tail_used"] else "not used", where)))
    if not v_invalid:
        fails.append(("skipped rows are counted", "implementation logged %s invalid lines, reference %d" % (
            res.get("invalid_logged"), m_inv)))
    if v_batches:
        if not v_nckpt or not all(v_ckpts):
            ck = impl_checkpoints(res)
            j = v_ckpts.index(False) if False in v_ckpts else len(ck)
            d = table_diff(enc.back(m_ckpts[j]), ck[j]) if j < len(ck) and j < len(m_ckpts) else "checkpoint missing"
            fails.append(("checkpoint after batch %d = median aggregation of the batches so far" % (j + 1), d))
        if case.get("entry", "task") == "task":
            if not v_sorted:
                fails.append(("pairwise_ranks.tsv ascending in score", "scores: %s" % [t[2] for t in (res.get("pairwise") or [])][:12]))
            if not v_final:
                fails.append(("final score of a pair = median of its per-batch scores",
                              table_diff(enc.back(m_final), res.get("pairwise")) or "rows differ as multisets"))
        elif not v_final:
            fails.append(("returned grouped frame = median of per-batch scores", table_diff(enc.back(m_final), res.get("grouped"))))
        # the returned frame is an observable of its own
        if enc is not None:
            g = table_diff(enc.back(m_final), res.get("grouped"))
            if g and res.get("grouped") is not None or (res.get("grouped") is None and m_final):
                fails.append(("grouped frame returned by estimate_importances_minibatches", g or "no frame returned"))
        # one score per batch and ordered pair
        if not all(v_uniform):
            j = v_uniform.index(False)
            fails.append(("rows of one batch carry one score per ordered pair", "batch %d: %s" % (j + 1, batch_nonuniform(res, j))))
        elif not v_per_batch and v_final:
            fails.append(("final score of a pair = median of its per-batch scores (one score per batch)", per_batch_diff(case, res)))
    return fails


def batch_nonuniform(res, j):
    seen = {}
    for a, b, sc in (res["batches"][j].get("triplets") or []):
        if (a, b) in seen and seen[(a, b)] != sc:
            return "pair %s,%s has scores %r and %r" % (a, b, seen[(a, b)], sc)
        seen.setdefault((a, b), sc)
    return "?"


def per_batch_diff(case, res):
    per = {}
    rows = {}
    for b in res["batches"]:
        seen = {}
        for a, bb, sc in (b.get("triplets") or []):
            seen.setdefault((a, bb), sc)
            rows[(a, bb)] = rows.get((a, bb), 0) + 1
        for k, sc in seen.items():
            per.setdefault(k, []).append(sc)
    final = res.get("pairwise") if case.get("entry", "task") == "task" else res.get("grouped")
    for a, bb, sc in (final or []):
        l = sorted(per.get((a, bb), []))
        if not l:
            return "pair %s,%s has no recorded batch score" % (a, bb)
        n = len(l)
        med = l[n // 2] if n % 2 else (l[n // 2 - 1] + l[n // 2]) / 2
        if not close(med, sc):
            return ("pair %s,%s: per-batch scores %s (one per batch, %d batches; %d rows in all) have median %r, the "
                    "implementation wrote %r" % (a, bb, l[:12], n, rows.get((a, bb), 0), med, sc))
    return "tables differ"


def comb_counts_check(case, res):
    """combination_estimation_counts.json (written by the task) against the counter the function returned and against
    the number of batches in which each candidate's rows were emitted.  -> None or a description of the difference."""
    import ast as _ast
    if case.get("entry", "task") != "task" or res.get("pairwise") is None:
        return None
    cj, cret = res.get("comb_counts_json"), res.get("comb_counts_ret")
    if cj is None:
        return "combination_estimation_counts.json was not written (%s)" % res.get("comb_counts_json_error", "missing")
    if cret is not None:
        want = {str(tuple(k)) if isinstance(k, list) else str(k): v for k, v in cret}
        if want != cj:
            d = sorted(set(want.items()) ^ set(cj.items()))[:4]
            return "file differs from the returned counter: %s" % (d,)
    emitted = {}
    for b in res["batches"]:
        for pair in {(a, bb) for a, bb, _ in (b.get("triplets") or [])}:
            emitted[pair] = emitted.get(pair, 0) + 1
    keys = set()
    for k, v in cj.items():
        try:
            tup = _ast.literal_eval(k)
        except Exception:
            return "key %r is not the text of a tuple" % (k,)
        if not (isinstance(tup, tuple) and len(tup) == 2):
            return "key %r is not a pair" % (k,)
        keys.add(tup)
        if emitted.get(tup, 0) != v:
            return "candidate %s: counted %s evaluations, its rows were emitted in %d batches" % (k, v, emitted.get(tup, 0))
    for (a, bb) in emitted:
        if (a, bb) not in keys and (bb, a) not in keys:
            return "rows for pair %s,%s were emitted but the pair is not among the counted candidates" % (a, bb)
    return None


def shrink_variants(case):
    out = []
    segs = case["segments"]
    ncols = len(case["cols"])
    for j, (cnt, nf, fl) in enumerate(segs):
        if nf != ncols or fl != 0:       # make a malformed / quoted segment ordinary
            c2 = json.loads(json.dumps(case))
            c2["segments"][j] = [cnt, ncols, 0]
            c2["segments"] = rle([(s[1], s[2]) for s in c2["segments"] for _ in range(s[0])])
            out.append(c2)
    for key, val in (("target_only", "True"), ("heuristic", "max-value-coverage"), ("crlf", False), ("trailing_newline", True)):
        if case.get(key) != val:
            c2 = json.loads(json.dumps(case))
            c2[key] = val
            out.append(c2)
    return out[:10]


def size_of(case):
    return (len(case["segments"]), sum(s[0] for s in case["segments"]), case["target_only"] != "True")


def check(run, replay):
    ok, log = vlib.build(["Pipeline/C08Model.vo"])
    run.oblige("build:model Pipeline/Stream.vo, Aggregate.vo, C08Model.vo", ok, "" if ok else log[-1500:])
    if not ok:
        raise vlib.Broken("build:Pipeline/C08Model.vo", log)
    vlib.standard_proof_phase(run, ["Props/C08.vo"], "Outrank.Props.C08", THEOREMS)

    # translator: the tail rule of the source against the property's / the model's constant
    coq_tail = vlib.coq_eval("C08t", "From Outrank Require Import Pipeline.Stream.", ["tail_min"])[0]
    if coq_tail != TAIL_MIN:
        run.oblige("model constant tail_min = %d" % TAIL_MIN, False, "Pipeline/Stream.v has %r" % (coq_tail,))
        run.violation("broken-obligation", "model:tail_min", found_input=False, extra="tail_min = %r" % (coq_tail,))
    fallback = False
    try:
        info = translate_c08.extract(vlib.REPO)
        good = info["tail_min_used"] == TAIL_MIN + 1
        run.oblige("translator:tail rule (`%s` at core_ranking.py:%d) = more than %d rows" % (
            info["tail_text"], info["tail_lineno"], TAIL_MIN), good,
            "" if good else "source processes a final partial batch from %d rows on; the property says from %d on" % (
                info["tail_min_used"], TAIL_MIN + 1))
        run.cov["translated"] = info
        run.cov["tail_constant_held_by"] = "translator (ast) and correspondence"
        if not good:
            run.violation("broken-obligation", "translator:tail-rule", found_input=False,
                          clause="a final partial batch is used only if it has more than 1024 rows", extra=info)
    except translate_c08.TranslateError as e:
        # The tail rule could not be located in the source (a rewrite the reader does not recognise).  That alone is
        # not a violation: the model keeps the last accepted rule (strictly more than tail_min = 1024 rows) and the
        # correspondence decides - the tail-boundary files (1023/1024/1025/1026 accepted rows left) are forced into the run.
        fallback = True
        msg = "tail constant held by correspondence only (translator could not locate it: %s)" % e
        run.oblige("tail rule held by the correspondence (boundary files 1023/1024/1025/1026 always run); translator not applicable",
                   True, msg)
        run.notes.append(msg)
        run.assumptions.append(msg)
        run.cov["tail_constant_held_by"] = "correspondence only"
        run.cov["translator_error"] = str(e)

    if replay is not None:
        cases = [replay["case"]]
        if is_scale(replay["case"]):          # the transcription that judges it is cross-checked on the small corpus files
            cases += load_corpus("C08")
    else:
        cases = load_corpus("C08")
        n = 72 if run.tier == "quick" else 1200
        fams = ["tail", "cap", "lines", "small", "random", "tail", "cap"]
        for i in range(n):
            cases.append(gen_case(run.rng, fams[i % len(fams)] if i < 21 else None))
        if fallback:
            cases.extend(boundary_core())
        cases.extend(scale_cases(run.rng, run.tier))
        if run.tier == "thorough":
            cases.extend(boundary_grid())
            cases.extend(small_scope())
            run.cov["exhaustive_small_scope"] = "all good/malformed layouts of <= 5 lines, B in 1..3, s in 1..2 (378 files) included"
    root = os.path.join(vlib.CACHE, "c08", str(os.getpid()))
    results = vlib.run_impl("impl_c08.py", {"cases": cases, "root": root})["results"]
    ev, stats = evaluate(run, cases, results)
    run.oblige("Python transcription of the model/checker = C08_eval in Coq on all %d small files of this run "
               "(it judges the %d scale files)" % (stats["small_files_cross_checked"], stats["scale_files"]),
               not stats["transcription_disagrees"] and (stats["small_files_cross_checked"] > 0 or stats["scale_files"] == 0),
               "" if not stats["transcription_disagrees"] else "differs on files %s" % stats["transcription_disagrees"][:10])
    if stats["transcription_disagrees"]:
        run.violation("broken-obligation", "harness: Python transcription disagrees with C08_eval", found_input=False,
                      extra={"case": cases[stats["transcription_disagrees"][0]]})
    run.cov["scale"] = stats
    run.oblige("no generated file is dropped from the judgement (%d with a non-finite score: judged on batches and invalid "
               "count only)" % stats["non_finite_files"], True)
    run.oblige("correspondence:batches/invalid/checkpoints/final table vs reference semantics (C08_check in Coq; "
               "scale files by the cross-checked transcription)", True)

    hist = {"family": {}, "B": {}, "s": {}, "batches": {}, "rest_near_tail": {}, "bad_selected": 0, "entry": {},
            "heuristic": {}, "nlines_max": 0, "impl_errors": 0, "model_loop_differs_from_impl_batches": 0, "non_finite": 0}
    failing = []
    for i, (c, r) in enumerate(zip(cases, results)):
        ref = py_reference(c)
        run.count_case({k: c.get(k) for k in ("B", "s", "cols", "segments", "heuristic", "target_only", "entry", "cap")}, nontrivial(c, ref))
        for key, val in (("family", c.get("family", "?")), ("B", c["B"]), ("s", c["s"]), ("batches", len(r.get("batches", []))),
                         ("entry", c.get("entry", "task")), ("heuristic", c["heuristic"])):
            hist[key][str(val)] = hist[key].get(str(val), 0) + 1
        if abs(ref["rest"] - TAIL_MIN) <= 2:
            hist["rest_near_tail"][str(ref["rest"])] = hist["rest_near_tail"].get(str(ref["rest"]), 0) + 1
        hist["bad_selected"] += 1 if ref["bad_selected"] else 0
        hist["nlines_max"] = max(hist["nlines_max"], ref["nlines"])
        kind, val, enc = ev[i]
        if kind == "impl-error":
            hist["impl_errors"] += 1
            failing.append((i, [("the ranking task terminates normally", val)]))
            continue
        if enc is None:
            hist["non_finite"] += 1          # judged on batches / invalid count only (see judge)
        if not val[0]:
            hist["model_loop_differs_from_impl_batches"] += 1
        fails = judge(c, r, val, enc)
        # independent observable: the bounded counter of the id column = consumed rows (if the wrapper point vanished)
        cons = r.get("consumed")
        if cons is not None and not fails and len(ref["consumed_ids"]) < 30000:
            want = {"r%d" % j for j in ref["consumed_ids"]}
            if set(cons) != want or any(v != 1 for v in cons.values()):
                d = sorted(set(cons) ^ want, key=lambda x: (len(x), x))[:6]
                fails.append(("consumed rows (value counter of the id column)",
                              "%d distinct ids counted, reference %d; differing ids %s" % (len(cons), len(want), d)))
        if not fails and enc is not None:
            cc = comb_counts_check(c, r)
            hist["comb_count_files_compared"] = hist.get("comb_count_files_compared", 0) + (
                1 if c.get("entry", "task") == "task" and r.get("pairwise") is not None else 0)
            if cc:
                fails.append(("combination_estimation_counts.json = evaluations per candidate", cc))
        if c.get("cap", 2 ** 15) < (len(c["cols"]) if c["target_only"] == "True" else len(c["cols"]) * (len(c["cols"]) + 1) // 2):
            hist["binding_cap_files"] = hist.get("binding_cap_files", 0) + 1
        if r.get("wrapper_missing"):
            run.violation("broken-obligation", "correspondence:observation point core_ranking.compute_batch_ranking not found",
                          found_input=False, extra="batches could not be recorded; only the consumed-id counter, the checkpoint "
                          "left behind and the final table were compared")
        if fails:
            failing.append((i, fails))

    if failing and replay is None:
        # one round of shrinking on the first failing case
        i0, f0 = failing[0]
        vs = [] if is_scale(cases[i0]) else shrink_variants(cases[i0])
        if vs:
            try:
                r2 = vlib.run_impl("impl_c08.py", {"cases": vs, "root": root + "_s"})["results"]
                ev2, _ = evaluate(run, vs, r2)
                best = None
                for j, (c2, rr) in enumerate(zip(vs, r2)):
                    kind, val, enc = ev2[j]
                    fl = [("the ranking task terminates normally", val)] if kind == "impl-error" else (
                        judge(c2, rr, val, enc) if kind == "evaluated" else [])
                    if fl and fl[0][0] == f0[0][0] and (best is None or size_of(c2) < size_of(best[0])):
                        best = (c2, rr, fl)
                if best and size_of(best[0]) < size_of(cases[i0]):
                    cases[i0], results[i0] = best[0], best[1]
                    failing[0] = (i0, best[2])
            except vlib.Broken:
                pass
    for i, fails in failing:
        r = results[i]
        summary = {"batch_sizes": [len(b["ids"]) for b in r.get("batches", [])], "invalid_logged": r.get("invalid_logged"),
                   "pairwise": r.get("pairwise"), "exit": r.get("exit"), "error": r.get("error"),
                   "traceback": r.get("traceback")}
        run.violation("counterexample", "C08_check on implementation outputs", case=cases[i], impl=summary,
                      model={"reference": {k: v for k, v in py_reference(cases[i]).items() if k != "consumed_ids"}}, clause="; ".join("%s: %s" % f for f in fails)[:3000])
    if failing:
        run.obligations[-1] = (run.obligations[-1][0], False, "%d files rejected" % len(failing))
    run.cov["input_distribution"] = hist
    run.cov["exhaustive"] = False
    run.cov["tolerance"] = "aggregated scores: |model - impl| <= 2^-52 * max(|.|) (one ulp: pandas rounds x + y of the two middle floats once); odd group sizes and everything else exact"
    run.samples = [{k: v for k, v in c.items()} for c in cases[:3]]
    run.assumptions += [
        "heuristic <> 'Constant' (the loop checkpoints only then); B >= 1, s >= 1",
        "a data line is abstracted to (1-based position, number of csv fields); the field count of each generated line is "
        "known by construction (plain cells, quoted cells with an embedded comma or doubled quote, blank lines)",
        "per-batch triplets are taken from the implementation (their values are C05's subject); feature names are abstracted to "
        "their rank among the sorted names, scores to integers by one power-of-two scale per file (exact)",
        "module globals of outrank.core_ranking are reset by the harness between files",
    ]
    run.trusted += ["harness: tools/props/c08.py (generator, encodings), tools/impl/impl_c08.py (file writer, wrapper around "
                    "compute_batch_ranking, logger object, serial pool object), tools/translate_c08.py (ast reader of the tail rule)",
                    "coqparse.py (reads the terms coqc prints)",
                    "pandas groupby/median/sort_values, csv.reader: transcribed, held to the code by this correspondence only"]
