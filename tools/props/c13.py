"""C13 — data-quality statistics are exact and independent of the batch split."""
from __future__ import annotations

import itertools
import re
import json
import os
from fractions import Fraction

import vlib

LEVEL = "proof"
RULE = ("row tables (1-5 string columns, skewed small alphabets, empty strings and missing markers) cut into compositions "
        "(ALL compositions for <= 5 rows in quick / <= 6 in thorough; the single batch, all-singletons and random "
        "compositions otherwise) and pushed through the real compute_coverage, compute_cardinalities, compute_value_counts "
        "(or the real compute_batch_ranking) with the module globals reset per history; annotation and histogram by the "
        "real task_ranking statements, rare table by the real writer.  evaluation = one history (table, composition); "
        "non-trivial = the composition has >= 2 batches and some (column, value) occurs in two different batches; "
        "distinct = distinct (table, parameters, composition)")
THEOREMS = ["C13_split_indep", "C13_compositions", "C13_card_any_insertion", "C13_card_function_of_rows", "C13_card_exact",
            "C13_counter_exact", "C13_hist_spec", "C13_rare_spec", "C13_rare_checker_sound", "C13_rare_model_ok",
            "C13_missing_cells", "C13_coverage", "C13_coverage_annotation", "C13_mean_nonneg", "C13_symbols_split",
            "C13_prefix_refuted", "C13_frame_none_free", "C13_split_indep_direct", "C13_none_cells_refuted",
            "C13_frames_fill", "C13_split_indep_parsed", "C13_parsed_card",
            "C13_hist_general", "C13_counter_general", "C13_counted_prefix", "C13_hist_all_rows_partial",
            "C13_hist_all_rows_refuted", "C13_sketch_bridge", "C13_card_bridge", "C13_counter_bridge",
            "C13_card_any_insertion_both_phases", "C13_card_split_indep_cold"]
DEFAULT_EDGES = [0, 1, 10, 100, 1000, 10000, 100000]
REAL_CAP, REAL_P = 2 ** 18, 19

COV_TOL = 1e-9          # per-batch coverage: float (1 - m/n) * 100 against the exact rational
TIE_TOL = 1e-9          # annotation excluded when the exact mean is this close to k + 0.95 (the only ties that matter)
SYMS = [",{}", ",NA", "NA,-", "-", ",", "", "{},NA,", "NA"]
POOL = ["a", "b", "c", "x", "y", "é", "10", "0", "1", "aa", "ab", "Z", "q r", "值"]
MARKERS = ["", "NA", "-", "{}"]
NAMES = ["f0", "f1", "f2", "user id", "label", "cat", "zip"]


# ---------------------------------------------------------------------------------------------
# generators

def all_compositions(n):
    out = []
    for bits in itertools.product([0, 1], repeat=n - 1):
        parts = []
        cur = 1
        for b in bits:
            if b:
                parts.append(cur)
                cur = 1
            else:
                cur += 1
        parts.append(cur)
        out.append(parts)
    return out


def random_composition(rng, n, maxparts=8):
    k = rng.randint(1, min(n, maxparts))
    if k == 1:
        return [n]
    cuts = sorted(rng.sample(range(1, n), k - 1))
    pts = [0] + cuts + [n]
    return [pts[i + 1] - pts[i] for i in range(k)]


def add_none(rng, col):
    """cells the parser left as None (ob-vw: absent namespace)"""
    p = rng.choice([0.0, 0.0, 0.0, 0.15, 0.4, 0.8])
    return [None if rng.random() < p else v for v in col]


def has_none(case):
    return any(v is None for r in case["rows"] for v in r)


def gen_column(rng, n, syms_list, rich=False):
    k = rng.randint(1, 9 if rich else 4)
    alpha = rng.sample(POOL, min(k, len(POOL)))
    weights = [1.0 / (i + 1) ** rng.choice([0.5, 1.0, 2.0]) for i in range(len(alpha))]
    if rng.random() < 0.35:
        # round 6: whitespace-padded variants of the column's own tokens and whitespace-only cells of different lengths are
        # DISTINCT values (space, tab, U+00A0, U+3000); they sit next to the unpadded token in the same column
        base = alpha[0]
        pads = [base + " ", " " + base, base + "\t", base + "\u00a0", "\u3000" + base, " " + base + " ", base + "  ",
                " ", "  ", "   ", "\u00a0", "\t"]
        extra = rng.sample(pads, rng.randint(2, 5))
        alpha = alpha + extra
        weights = weights + [rng.choice([0.3, 0.6, 1.0]) for _ in extra]
    pm = rng.choice([0.0, 0.1, 0.3, 0.6])
    markers = [m for m in MARKERS if rng.random() < 0.5] or [""]
    col = []
    for _ in range(n):
        if rng.random() < pm:
            col.append(rng.choice(markers))
        else:
            col.append(rng.choices(alpha, weights)[0])
    return col


def gen_params(rng):
    thr = rng.choice([0, 1, 1, 1, 2, 2, 3, 5, -1])
    bound = 30000 if rng.random() < 0.7 else rng.randint(1, 5)
    return thr, bound, rng.choice(SYMS)


def make_case(rng, n, ncols, splits, family, rich=False, smallcap=None, via=None):
    thr, bound, syms = gen_params(rng)
    cols = rng.sample(NAMES, ncols)
    columns = [gen_column(rng, n, syms, rich) for _ in range(ncols)]
    if via != "pipeline":
        columns = [add_none(rng, c) for c in columns]
    if via is None:
        via = "batch" if rng.random() < 0.25 else "direct"
    if via == "direct":
        # the statistics run on the ENRICHED frame: numeric columns (ints / floats, as the noise baseline features);
        # homogeneous per column, no None, no nan, no -0.0
        for j in range(ncols):
            if rng.random() < 0.2:
                pool = rng.choice([[0, 0, 1, 2, 3, 7, 12], [0.0, 0.0, 0.5, 1.25, 2.0, 3.5]])
                columns[j] = [rng.choice(pool) for _ in range(n)]
    rows = [[columns[j][i] for j in range(ncols)] for i in range(n)]
    case = {"cols": cols, "rows": rows, "splits": splits, "thr": thr, "bound": bound, "syms": syms,
            "smallcap": smallcap, "via": via, "family": family}
    if via == "batch":
        glue(rng, case)
    return case


NUMPOOL = ["", "", "1", "2.5", "-1", "-1", "-999", "0", "3", "10", "7.25", "1e3", "3"]
NUMSYMS = [",-1,-999", ",-999", "-1,-999", ",{}", ",-1", ",{},-1"]


def glue(rng, case, first=0):
    """round 5: the stages between the parsed rows and the statistics inside compute_batch_ranking.
    (a) declared-numeric columns + a transformer preset: every cell of such a column is '' / None or a float() literal (what the
        unchanged transformer stage accepts), among them sentinels that are missing-value symbols ('-1', '-999');
    (b) interaction_order 2: the constructed `a AND b` columns are judged as well, against the explicit value tuples.
    The expectation is unchanged: the statistics of the concatenated ORIGINAL cells."""
    cols = case["cols"]
    u = rng.random()
    if u < 0.35:
        cand = list(range(first, len(cols)))
        pick = rng.sample(cand, min(len(cand), rng.randint(1, 2)))
        for j in pick:
            keep_none = case.get("via") != "pipeline" or case.get("source") == "ob-vw"
            for r in case["rows"]:
                r[j] = None if (keep_none and r[j] is None) else rng.choice(NUMPOOL)
        case["numeric"] = [cols[j] for j in pick]
        case["transformers"] = "minimal" if rng.random() < 0.75 else "none"
        case["syms"] = rng.choice(NUMSYMS)
    elif u < 0.65 and len(cols) >= 3:
        case["interaction_order"] = 2
    return case


def derive(case):
    """the interaction columns compute_combined_features adds (all pairs of non-label columns, in column order) as explicit
    length-prefixed value tuples (the string that is hashed there; None is carried as '')"""
    if int(case.get("interaction_order") or 1) < 2:
        return [], case["rows"], []
    cols = case["cols"]
    pairs = list(itertools.combinations(range(len(cols) - 1), 2))
    names = ["%s AND %s" % (cols[a], cols[b]) for a, b in pairs]

    def pre(v):
        v = "" if v is None else str(v)
        return "%d:%s" % (len(v), v)
    erows = [list(r) + [pre(r[a]) + pre(r[b]) for a, b in pairs] for r in case["rows"]]
    strings = sorted({x for r in erows for x in r[len(cols):]})
    return names, erows, strings


def gen_small(rng, nmax):
    n = rng.randint(1, nmax)
    return make_case(rng, n, rng.randint(1, 5), all_compositions(n), "exhaustive-compositions")


def gen_medium(rng, nsplits, smallcap=False):
    n = rng.randint(7, 40)
    sp = [[n], [1] * n]
    while len(sp) < nsplits:
        c = random_composition(rng, n)
        if c not in sp:
            sp.append(c)
    c = make_case(rng, n, rng.randint(2, 5), sp, "smallcap" if smallcap else "random-compositions", rich=smallcap,
                  smallcap=rng.randint(1, 6) if smallcap else None)
    if smallcap:
        c["sketch_p"] = rng.randint(3, 6)      # 8..64 registers: the converted phase is cheap and sensitive to one lost value
    return c


def gen_rounding_big(rng):
    """one or two columns, ~2000 rows, a handful of missing cells: means around 99.95"""
    n = rng.choice([1999, 2000, 2001, rng.randint(1500, 2600)])
    ncols = rng.randint(1, 2)
    cols = rng.sample(NAMES, ncols)
    rows = [[rng.choice(["a", "b", "c"]) for _ in range(ncols)] for _ in range(n)]
    for j in range(ncols):
        for _ in range(rng.randint(1, 2)):
            rows[rng.randrange(n)][j] = ""
    if rng.random() < 0.5:
        for _ in range(rng.randint(1, 3)):
            rows[rng.randrange(n)][rng.randrange(ncols)] = None
    sp = [[n]]
    for _ in range(2):
        c = random_composition(rng, n, 3)
        if c not in sp:
            sp.append(c)
    return {"cols": cols, "rows": rows, "splits": sp, "thr": rng.choice([1, 2]), "bound": 30000, "syms": ",{}",
            "smallcap": None, "via": "direct", "family": "rounding-big"}


def gen_rounding_steered(rng):
    """batches (n_i, m_i) whose mean percentage has a fractional part in [0.9, 1): both sides of the .95 rule"""
    for _ in range(4000):
        k = rng.randint(2, 6)
        spec = []
        for _ in range(k):
            n = rng.randint(1, 12)
            spec.append((n, rng.randint(0, min(n, 3))))
        mean = sum(Fraction(100 * (n - m), n) for n, m in spec) / k
        fr = mean - (mean.numerator // mean.denominator)
        if Fraction(9, 10) <= fr < 1 and abs(fr - Fraction(19, 20)) > Fraction(1, 10 ** 6):
            break
    rows = []
    for n, m in spec:
        cells = [""] * m + [rng.choice(["a", "b"]) for _ in range(n - m)]
        rng.shuffle(cells)
        rows += [[c, rng.choice(["u", "v", "", None, None])] for c in cells]
    sizes = [n for n, _ in spec]
    total = sum(sizes)
    sp = [sizes, [total]]
    return {"cols": ["f0", "g"], "rows": rows, "splits": sp, "thr": rng.choice([1, 2, 3]), "bound": 30000, "syms": ",{}",
            "smallcap": None, "via": "direct", "family": "rounding-steered"}


def gen_pipeline(rng):
    """uniform compositions through the real estimate_importances_minibatches over a csv file (>= 2 columns: a lone empty
    cell is an empty csv line)"""
    n = rng.choice([4, 6, 8, 12])
    sp = [[k] * (n // k) for k in range(1, n + 1) if n % k == 0]
    c = make_case(rng, n, rng.randint(2, 4), sp, "pipeline", via="pipeline")
    c["cols"] = ["f%d" % j for j in range(len(c["cols"]))]
    c["rows"] = [[v.replace(",", ";") for v in r] for r in c["rows"]]
    return glue(rng, c)


def gen_pipeline_vw(rng):
    """the real streaming loop over ob-vw lines: label column first, absent namespaces are parsed as None and carried
    as '' by compute_batch_ranking (fix 2ffc0d7); every uniform composition"""
    n = rng.choice([4, 6, 8, 12])
    ncols = rng.randint(2, 4)
    with_none = rng.random() < 0.6
    thr, bound, syms = gen_params(rng)
    cols = ["label"] + ["g%d" % j for j in range(1, ncols)]
    columns = [[rng.choice(["0", "1"]) for _ in range(n)]]
    for _ in range(1, ncols):
        # (the vw parser splits on blanks and strips every part: whitespace inside / around a value is C16's subject)
        c = [re.sub(r"\s", "_", v) for v in gen_column(rng, n, syms)]
        columns.append(add_none(rng, c) if with_none else c)
    rows = [[columns[j][i] for j in range(ncols)] for i in range(n)]
    sp = [[k] * (n // k) for k in range(1, n + 1) if n % k == 0]
    return glue(rng, {"cols": cols, "rows": rows, "splits": sp, "thr": thr, "bound": bound, "syms": syms, "smallcap": None,
                      "via": "pipeline", "source": "ob-vw", "family": "pipeline-vw"}, first=1)


def gen_many_batches(rng):
    """one long run of the real streaming loop: > 1024 mini-batches of 2 rows (ob-vw, Constant heuristic), the missing rate
    drifting over the file so that the mean over all batches differs from the mean over any window of them"""
    nb = rng.randint(1100, 1250)
    n = 2 * nb
    rows = []
    for i in range(n):
        early = i < n // 5
        g1 = rng.choice(["", None, "{}", "a"]) if early else rng.choice(["a", "b", "c", "a", "b", ""])
        g2 = rng.choice(["u", "v", None]) if early else rng.choice(["u", "v", "w", "", None, "u"])
        rows.append([rng.choice(["0", "1"]), g1, g2])
    return {"cols": ["label", "g1", "g2"], "rows": rows, "splits": [[2] * nb], "thr": rng.choice([1, 2, 3]), "bound": 30000,
            "syms": ",{}", "smallcap": None, "via": "pipeline", "source": "ob-vw", "family": "many-batches"}


def fixed_cases():
    a4 = [["a"], ["a"], ["a"], ["b"], ["a"], ["b"], ["c"]]
    out = [
        # the D9 witness (fix 549e068): threshold 2, [a,a,a,b] | [a,b,c]
        {"cols": ["f0"], "rows": a4, "splits": [[4, 3], [7], [1] * 7], "thr": 2, "bound": 30000, "syms": ",{}",
         "smallcap": None, "via": "direct", "family": "fixed"},
        {"cols": ["f0"], "rows": a4, "splits": [[4, 3], [7]], "thr": 2, "bound": 30000, "syms": ",{}",
         "smallcap": None, "via": "batch", "family": "fixed"},
        # the counter bound: 2 slots, third value and everything after it dropped
        {"cols": ["f0", "f1"], "rows": [["a", ""], ["b", "x"], ["a", "x"], ["c", ""], ["a", "x"], ["a", "y"]],
         "splits": [[6], [2, 4], [3, 3]], "thr": 1, "bound": 2, "syms": ",{}", "smallcap": None, "via": "direct", "family": "fixed"},
        # sketch capacity 3: exactly 3 distinct values stays exact, column f1 has 4 and converts
        {"cols": ["f0", "f1"], "rows": [["a", "p"], ["b", "q"], ["a", "r"], ["c", "s"], ["a", "p"], ["b", ""]],
         "splits": [[6], [2, 4], [1, 1, 1, 1, 1, 1]], "thr": 1, "bound": 30000, "syms": ",{}", "smallcap": 3, "via": "direct",
         "family": "fixed"},
        # converted sketch, 32 registers: the value that triggers the conversion must not be lost (seeded C13-D)
        {"cols": ["f0"], "rows": [["v%d" % i] for i in (0, 1, 2, 0, 3, 4, 5, 1, 6, 7, 8, 9)], "splits": [[12], [3, 9], [4, 8], [1] * 12, [5, 7]],
         "thr": 1, "bound": 30000, "syms": ",{}", "smallcap": 3, "sketch_p": 5, "via": "direct", "family": "fixed"},
        {"cols": ["f0", "f1"], "rows": [["v%d" % (i % 7), "w%d" % i] for i in range(10)], "splits": [[10], [2, 8], [5, 5], [1] * 10],
         "thr": 1, "bound": 3, "syms": ",{}", "smallcap": 2, "sketch_p": 6, "via": "batch", "family": "fixed"},
        # numeric cells (enriched frame): 0 and 0.0 are dropped by `if unique_value:`, numbers are keys of their own
        {"cols": ["n", "x", "s"], "rows": [[0, 0.0, "0"], [3, 0.5, ""], [0, 0.5, "0"], [7, 2.0, "3"], [3, 0.0, ""]],
         "splits": [[5], [2, 3], [1] * 5], "thr": 1, "bound": 30000, "syms": ",{},0", "smallcap": None, "via": "direct", "family": "fixed"},
        # markers other than '' are values for the sketch; all-empty column has cardinality 0
        {"cols": ["f0", "f1"], "rows": [["NA", ""], ["-", ""], ["NA", ""], ["", ""]], "splits": [[4], [1, 3], [2, 2]],
         "thr": 5, "bound": 30000, "syms": "NA,-", "smallcap": None, "via": "direct", "family": "fixed"},
    ]
    # round 6: values that differ only by leading / trailing whitespace are distinct values for every statistic (seeded C13-N:
    # the sketch fed with str(v).strip()); whitespace-only cells are truthy
    padded = ["tok", "tok ", " tok", "tok\t", "tok\u00a0", "\u3000tok", " ", "  ", "   ", "tok", " tok", ""]
    for via in ("direct", "batch"):
        out.append({"cols": ["padded", "label"], "rows": [[v, str(i % 2)] for i, v in enumerate(padded)],
                    "splits": [[12], [5, 7], [3, 3, 3, 3], [1] * 12], "thr": 1, "bound": 30000, "syms": ",{}", "smallcap": None,
                    "via": via, "family": "fixed"})
    out.append({"cols": ["f0", "padded"], "rows": [[str(i % 2), v] for i, v in enumerate(padded)],
                "splits": [[12], [6, 6], [4, 4, 4]], "thr": 1, "bound": 30000, "syms": ",{}", "smallcap": None,
                "via": "pipeline", "family": "fixed"})
    # round 5, glue inside compute_batch_ranking: a declared-numeric column with sentinel missing symbols under a transformer
    # preset (seeded C13-L), and interaction columns whose constituents' value domains differ between batches (seeded C10-L)
    price = ["3", "-1", "", "-999", "2.5", "-1", "7.25", "-999", "3", None, "-1", "10"]
    out.append({"cols": ["price", "cat", "label"], "rows": [[price[i], "c%d" % (i % 3), str(i % 2)] for i in range(12)],
                "splits": [[12], [4, 8], [6, 6], [3, 3, 3, 3]], "thr": 2, "bound": 30000, "syms": ",-1,-999", "smallcap": None,
                "via": "batch", "numeric": ["price"], "transformers": "minimal", "family": "fixed"})
    ab = [("x", "p"), ("y", "q"), ("x", "q"), ("y", "p"), ("y", "q"), ("z", "r"), ("z", "q"), ("y", "r"), ("z", "r"), ("x", "p")]
    out.append({"cols": ["a", "b", "label"], "rows": [[a, b, str(i % 2)] for i, (a, b) in enumerate(ab)],
                "splits": [[4, 6], [10], [5, 5], [2, 2, 6]], "thr": 1, "bound": 30000, "syms": ",{}", "smallcap": None,
                "via": "batch", "interaction_order": 2, "family": "fixed"})
    # None cells (absent vw namespaces): not a missing symbol, denominator = rows (seeded C13-C: 'u', None, '{}', 'v' is 75)
    vw = [["1", "u", "x"], ["0", None, "x"], ["1", "{}", None], ["0", "v", None],
          ["1", None, None], ["1", None, None], ["0", "{}", None], ["0", "", "x"],
          ["1", "u", None], ["0", "{}", "y"], ["1", None, "{}"], ["0", "u", None]]
    out.append({"cols": ["label", "feat_a", "feat_b"], "rows": vw, "splits": [[4, 4, 4], [12], [1] * 12, [2, 10], [6, 6]],
                "thr": 1, "bound": 30000, "syms": ",{}", "smallcap": None, "via": "direct", "family": "fixed"})
    out.append({"cols": ["label", "feat_a", "feat_b"], "rows": vw, "splits": [[4, 4, 4], [1] * 12, [12], [6, 6], [2] * 6], "thr": 2,
                "bound": 30000, "syms": ",{}", "smallcap": None, "via": "pipeline", "source": "ob-vw", "family": "fixed"})
    out.append({"cols": ["label", "feat_a", "feat_b"], "rows": vw, "splits": [[4, 4, 4], [12], [5, 7], [1, 11]], "thr": 1,
                "bound": 30000, "syms": ",{}", "smallcap": None, "via": "batch", "family": "fixed"})
    out.append({"cols": ["f0", "f1"], "rows": [[None, "x"], ["a", None], [None, "x"]], "splits": [[3], [1, 1, 1], [1, 2], [2, 1]],
                "thr": 1, "bound": 30000, "syms": ",{}", "smallcap": None, "via": "batch", "family": "fixed"})
    out.append({"cols": ["f0"], "rows": [[None], ["a"], [None]], "splits": [[3], [1, 1, 1], [1, 2], [2, 1]], "thr": 1, "bound": 30000,
                "syms": ",{}", "smallcap": None, "via": "direct", "family": "fixed"})
    # 2001 rows, one missing: 99.950025 -> 100; 1999 rows: 99.94997 -> 99
    for n in (2001, 1999):
        rows = [["a"] for _ in range(n)]
        rows[5] = [""]
        out.append({"cols": ["f0"], "rows": rows, "splits": [[n]], "thr": 1, "bound": 30000, "syms": ",{}",
                    "smallcap": None, "via": "direct", "family": "fixed"})
    return out


def generate(run):
    rng = run.rng
    cases = fixed_cases()
    if run.tier == "quick":
        plan = dict(small=100, nmax=5, medium=75, nsplits=7, smallcap=25, big=5, steered=50, pipeline=20, vw=25, many=1)
    else:
        plan = dict(small=900, nmax=6, medium=600, nsplits=14, smallcap=160, big=40, steered=400, pipeline=150, vw=200, many=4)
    for _ in range(plan["small"]):
        cases.append(gen_small(rng, plan["nmax"]))
    for _ in range(plan["medium"]):
        cases.append(gen_medium(rng, plan["nsplits"]))
    for _ in range(plan["smallcap"]):
        cases.append(gen_medium(rng, plan["nsplits"], smallcap=True))
    for _ in range(plan["big"]):
        cases.append(gen_rounding_big(rng))
    for _ in range(plan["steered"]):
        cases.append(gen_rounding_steered(rng))
    for _ in range(plan["pipeline"]):
        cases.append(gen_pipeline(rng))
    for _ in range(plan["vw"]):
        cases.append(gen_pipeline_vw(rng))
    for _ in range(plan["many"]):
        cases.append(gen_many_batches(rng))
    return cases


# ---------------------------------------------------------------------------------------------
# Coq encoding

def slit(s):
    return vlib.strlit(s)


def cell_lit(v):
    if v is None:
        return "None"
    if isinstance(v, str):
        return "(Some (V %s))" % slit(v)
    if isinstance(v, (int, float)) and not isinstance(v, bool):
        return "(Some (Num %s %s))" % (slit(str(v)), vlib.blit(bool(v)))
    raise ValueError("cell of unexpected type: %r" % (v,))


def rows_lit(rows):
    return "[" + "; ".join("[" + "; ".join(cell_lit(v) for v in r) + "]" for r in rows) + "]%N"


def val_lit(e):
    """a key as the runner encodes it"""
    if e[0] == "s":
        return "(V %s%%N)" % slit(e[1])
    if e[0] == "nan":
        return "NaN"
    if e[0] == "none":
        return "PyNone"
    if e[0] == "num":
        return "(Num %s%%N %s)" % (slit(e[1]), vlib.blit(e[2]))
    raise ValueError("key of unexpected type: %r" % (e,))


def val_dec(tag_s):
    tag, codes = tag_s
    return {0: ("s", vlib.from_codes(codes)), 1: ("nan",), 2: ("none",), 3: ("num", vlib.from_codes(codes), True),
            4: ("num", vlib.from_codes(codes), False)}[tag]


def is_pipeline(case):
    """batches reach the statistics through compute_batch_ranking (None -> '')"""
    return case.get("via") in ("batch", "pipeline")


def coq_expr(case, r, edges, cap):
    cols = case["cols"]
    idx = {c: j for j, c in enumerate(cols)}
    hashtab = "[" + "; ".join("(%s%%N, %d%%N)" % (slit(v), h) for v, h in r["hashes"]) + "]"
    sk = r["histories"][0]["sketch"][cols[0]]
    h2tab = "[" + "; ".join("(%d, %d)" % (a, b) for a, b in r["h2"]) + "]%N"
    mk = "(mkCase %d%%nat %s %s %s %s %s (Z.to_nat %s) %s%%N %s %s %d%%N %d%%N %s)" % (
        len(cols), vlib.blit(is_pipeline(case)), rows_lit(case["rows"]), vlib.zlit(case["thr"]), vlib.zlit(case["bound"]), vlib.zlit(cap),
        vlib.zlit(cap),
        slit(case["syms"]), vlib.zlist(edges), hashtab, sk["p"], sk["width"], h2tab)
    sizes = "[" + "; ".join(vlib.nlist(s) for s in case["splits"]) + "]%nat"
    obs = []
    for h in r["histories"]:
        cards = vlib.nlist([a[0] for a in h["annotation"]]) + "%nat"
        hists = "[" + "; ".join(vlib.zlist([h["hist"][c][str(e)] for e in edges]) for c in cols) + "]"
        rare = "[" + "; ".join("((%d%%nat, %s), %s)" % (idx[k[0]], val_lit(k[1]), vlib.zlit(k[2])) for k in h["rare"]) + "]"
        obs.append("(%s, %s, %s)" % (cards, hists, rare))
    return "let c := %s in (map (C13_model c) %s, C13_spec c, map (C13_check c) [%s])" % (mk, sizes, "; ".join(obs))


HEADER = ("From Coq Require Import List ZArith QArith.\nFrom Outrank Require Import Stats.Quality.\n"
          "Import ListNotations.\nOpen Scope Z_scope.")


def opt(v):
    """coqparse: Some x -> ('Some', x), None -> None"""
    return None if v is None else v[1]


# ---------------------------------------------------------------------------------------------
# evaluation of a list of cases: implementation, model, comparison

def sub_case(case, split_idx):
    c = dict(case)
    c["splits"] = [case["splits"][i] for i in split_idx]
    return c


EXTRACT = {"error": None}
DEVICE = {"error": None}
CONSTS = {}


def evaluate(cases, stats=None):
    """Returns (problems per case, info per case).  A problem = dict(clause, obligation, splits, impl, model)."""
    outdir = os.path.join(vlib.CACHE, "c13_out_%d" % os.getpid())
    derived = [derive(c) for c in cases]
    sent = [dict(c, icols=d[0], istrings=d[2]) if d[0] else c for c, d in zip(cases, derived)]
    res = vlib.run_impl("impl_c13.py", {"cases": sent, "outdir": outdir})
    if res.get("extract_error"):
        # observation point lost: the runner fell back to replicated statements; keep searching for a failing input
        EXTRACT["error"] = res["extract_error"]
    results = res["results"]
    if res.get("small_sketch_error"):
        # the small-sketch device (attributes set on a fresh instance) does not work on this tree: the runner used the
        # default-size sketch for those tables instead, so they are judged with the real capacity (they stay warm)
        DEVICE["error"] = res["small_sketch_error"]
        for c in cases:
            if c.get("smallcap") is not None:
                c["smallcap"] = None
                c.pop("sketch_p", None)
    if res.get("constants"):
        CONSTS.update(res["constants"])
    problems = [[] for _ in cases]
    infos = [dict() for _ in cases]
    exprs, eidx = [], []
    meta = {}
    keepmap = {}
    cases_eff = list(cases)
    results_eff = list(results)
    for i, (c, d) in enumerate(zip(cases, derived)):
        if d[0]:
            # interaction columns: judged as columns of the explicit value tuples; the implementation's cells (xxh64 digests)
            # are translated back through the tabulated digests (a cell that is no such digest stays as it is and disagrees)
            inv = {hx: s for s, hx in results[i].get("xx64", [])}
            # ... unless the cells are not digests of the length-prefixed tuples at all (another encoding / hash — not C13's
            # business): then the interaction columns are compared anonymously (cardinality, histogram, multiset of rare counts)
            unknown = any(kk[0] in d[0] and kk[1][0] == "s" and kk[1][1] not in inv
                          for h in results[i]["histories"] if h.get("ok") for kk in h["rare"]) or \
                any(kv[0][0] == "s" and kv[0][1] not in inv for h in results[i]["histories"] if h.get("ok")
                    for cc in d[0] for kv in (h["counter"].get(cc) or []))
            cases_eff[i] = dict(c, cols=list(c["cols"]) + d[0], rows=d[1], anon=(d[0] if unknown else []))
            if unknown:
                inv = {}

            def tr(col, e):
                return ["s", inv.get(e[1], e[1])] if (col in d[0] and e[0] == "s") else e
            hs = []
            for h in results[i]["histories"]:
                if h.get("ok"):
                    rf = h.get("rare_file")
                    if rf:
                        rf = dict(rf, rows=[[x[0], inv.get(x[1], x[1]) if x[0] in d[0] else x[1]] + list(x[2:]) for x in rf["rows"]])
                    h = dict(h, rare=[[kk[0], tr(kk[0], kk[1]), kk[2]] for kk in h["rare"]], rare_file=rf,
                             counter={cc: (None if v is None else [[tr(cc, kv[0]), kv[1]] for kv in v]) for cc, v in h["counter"].items()})
                hs.append(h)
            results_eff[i] = dict(results[i], histories=hs)
    for i, (case, r) in enumerate(zip(cases_eff, results_eff)):
        cols = case["cols"]
        if r["hash_error"]:
            problems[i].append(dict(clause="internal_hash raises", obligation="impl-raises", splits=[0],
                                    impl=r["hash_error"], model=None))
            continue
        bad = [k for k, h in enumerate(r["histories"]) if not h["ok"]]
        if bad:
            h = r["histories"][bad[0]]
            problems[i].append(dict(clause="the statistics calls terminate normally", obligation="impl-raises",
                                    splits=[bad[0]], impl=h["error"] + "\n" + h.get("trace", ""), model=None))
            keep = [k for k, h in enumerate(r["histories"]) if h["ok"]]
            if not keep:
                continue
            # go on with the histories that did run
            keepmap[i] = keep
            case = sub_case(case, keep)
            r = dict(r, histories=[r["histories"][k] for k in keep])
            cases_eff[i], results_eff[i] = case, r
        h0 = r["histories"][0]
        try:
            edges = sorted(int(k) for k in h0["hist"][cols[0]])
            keyset = {str(e) for e in edges}
            for k, h in enumerate(r["histories"]):
                for c in cols:
                    if set(h["hist"][c].keys()) != keyset:
                        raise KeyError("histogram keys of %r differ: %r" % (c, sorted(h["hist"][c].keys())))
                if any(kk[0] not in cols for kk in h["rare"]):
                    raise KeyError("rare report names an unknown column")
        except (KeyError, ValueError) as e:
            problems[i].append(dict(clause="value_repetitions.json has one entry per feature with the same integer bucket edges",
                                    obligation="correspondence:histogram", splits=[0], impl=str(e), model=None))
            continue
        if edges != DEFAULT_EDGES:
            problems[i].append(dict(clause="value_repetitions.json reports the buckets 'more than 0, 1, 10, ..., 10^5 occurrences'",
                                    obligation="C13_hist_general", splits=[0], impl=edges, model=DEFAULT_EDGES))
        caps = {h["sketch"][c]["warmup_size"] for h in r["histories"] for c in cols}
        cap = caps.pop()
        meta[i] = (edges, cap)
        try:
            exprs.append(coq_expr(case, r, edges, cap))
        except ValueError as e:
            problems[i].append(dict(clause="report keys are (feature, cell value) pairs", obligation="correspondence:rare report",
                                    splits=[0], impl=str(e), model=None))
            continue
        eidx.append(i)
    big = [k for k, i in enumerate(eidx) if len(cases[i]["rows"]) > 200]
    small = [k for k, i in enumerate(eidx) if len(cases[i]["rows"]) <= 200]
    vals = [None] * len(exprs)
    if small:
        for k, v in zip(small, vlib.coq_eval("C13", HEADER, [exprs[k] for k in small], shard=12)):
            vals[k] = v
    if big:
        for k, v in zip(big, vlib.coq_eval("C13b", HEADER, [exprs[k] for k in big], shard=1)):
            vals[k] = v
    for i, v in zip(eidx, vals):
        n0 = len(problems[i])
        compare_case(cases_eff[i], results_eff[i], v, meta[i], problems[i], infos[i])
        if i in keepmap:
            for p in problems[i][n0:]:
                p["splits"] = [keepmap[i][k] for k in p["splits"]]
    return problems, infos


def lc_accept(p, z):
    """what __len__ may return for z empty registers: int(ceil(m ln(m/z))) - 1 (2^p for z = 0); both neighbours when the
    float value is within 1e-9 of an integer"""
    import math
    m = 1 << p
    if z == 0:
        return {m}
    x = m * math.log(m / z)
    out = {int(math.ceil(x)) - 1}
    if abs(x - round(x)) < 1e-9:
        out |= {int(round(x)) - 1, int(round(x))}
    return out


def compare_case(case, r, v, meta, probs, info):
    edges, cap = meta
    cols = case["cols"]
    idx = {c: j for j, c in enumerate(cols)}
    models, spec, verdicts = v
    hashes = [h for _, h in r["hashes"]]
    injective = len(set(hashes)) == len(hashes)
    info.update(injective=injective, cold=0, ties=0, beyond_bound=0, beyond_bound_model_agrees=0, writer_late_errors=0,
                writer_ran=0, empty_report=0, none_table=0, none_split_dependent=0, none_pipeline_table=0)
    # columns holding a None cell: the frame content (nan / None) depends on the batch, C13_none_cells_refuted — the
    # specification of the concatenation and split independence are claimed for None-free columns (string keys for the rare table)
    anon = set(case.get("anon") or [])
    info["interaction_tables"] = 1 if int(case.get("interaction_order") or 1) > 1 else 0
    info["interaction_tables_compared_anonymously"] = 1 if anon else 0
    colnone = [(not is_pipeline(case)) and any(row[j] is None for row in case["rows"]) for j in range(len(cols))]
    tablenone = any(colnone)
    info["none_table"] = 1 if tablenone else 0
    info["none_pipeline_table"] = 1 if (is_pipeline(case) and has_none(case)) else 0

    def add(clause, obligation, splits, impl, model):
        probs.append(dict(clause=clause, obligation=obligation, splits=splits, impl=impl, model=model))

    canon = []
    fulls = []
    for k, (sizes, h, m, verdict) in enumerate(zip(case["splits"], r["histories"], models, verdicts)):
        mcols, mrare = m
        vcards, vhists, vrare = verdict
        for j, c in enumerate(cols):
            mtag, mval, mhist, mcovs, mmean, mann = mcols[j]          # Coq prints left-nested pairs flat
            mcard = (mtag, mval)
            stag, sval, sdistinct, shist, swhole = spec[j]
            scard = (stag, sval)
            icard, iann = h["annotation"][j]
            sk = h["sketch"][c]
            claim = not colnone[j]
            # cardinality, both phases: (0, n) exact / (1, z) registers empty -> int(ceil(m ln(m/z))) - 1
            if icard != sk["len"]:
                add("annotation shows len(sketch)", "correspondence:cardinality", [k], h["names"], sk)
            for what, (tag, val), obl in (("model of the history", mcard, "correspondence:cardinality"),
                                         ("specification of the concatenated column (C13_card_any_insertion_both_phases)",
                                          scard, "C13_card_split_indep_cold")):
                if what.startswith("spec") and not claim:
                    continue
                if c in anon and tag == 1:
                    continue          # registers depend on the cells' representation
                if tag == 0:
                    if sk["cold"] or icard != val:
                        add("cardinality while warm = number of distinct hashes of the truthy cells (%s)" % what, obl, [k],
                            dict(column=c, annotation=icard, sketch=sk), val)
                else:
                    info["cold"] += 1 if what.startswith("model") else 0
                    if (not sk["cold"]) or icard not in lc_accept(sk["p"], val):
                        add("cardinality after the conversion = linear counting of the empty registers of the sketch fed with the "
                            "set of truthy cells (%s)" % what, obl, [k], dict(column=c, annotation=icard, sketch=sk),
                            dict(empty_registers=val, accepted=sorted(lc_accept(sk["p"], val))))
            if injective and claim and sdistinct <= cap and icard != sdistinct:
                add("C13_card_exact: annotation = exact number of distinct non-empty values",
                    "C13_card_exact", [k], dict(column=c, annotation=icard), sdistinct)
            if not vcards[j] and claim:
                add("C13_check: cardinality differs from the specification of the whole column", "C13_card_function_of_rows", [k],
                    dict(column=c, annotation=icard), scard)
            # histogram: for every column the exact histogram of the counted prefix (C13_hist_general)
            ihist = [h["hist"][c][str(e)] for e in edges]
            if ihist != list(mhist):
                add("histogram = histogram of the counter fed cell by cell (model of the history)", "correspondence:histogram",
                    [k], dict(column=c, hist=ihist, counter=h["counter"][c]), dict(model=mhist))
            if claim:
                if ihist != list(shist) or not vhists[j]:
                    add("C13_hist_general: bucket(x) = #{v | count v > x} over the column up to the arrival of the bound-th distinct "
                        "value" + (" (= all consumed rows: C13_hist_spec)" if swhole else ""), "C13_hist_general", [k],
                        dict(column=c, hist=ihist, counter=h["counter"][c]), dict(spec=shist, whole_column=swhole))
                if not swhole:
                    info["beyond_bound"] += 1
            # coverage
            icov = h["coverage"][c]
            if len(icov) != len(sizes):
                add("one coverage value per batch", "correspondence:coverage", [k], icov, [str(Fraction(x[0], x[1])) for x in mcovs])
            else:
                for t, (x, q) in enumerate(zip(icov, mcovs)):
                    q = Fraction(q[0], q[1])
                    if x != x or x in (float("inf"), float("-inf")) or abs(Fraction(x) - q) > Fraction(COV_TOL):
                        add("C13_coverage: batch percentage = (1 - missing/n) * 100", "C13_coverage", [k],
                            dict(column=c, batch=t, coverage=x), str(q))
                        break
                mean = Fraction(mmean[0], mmean[1])
                fr = mean - (mean.numerator // mean.denominator)
                if abs(fr - Fraction(19, 20)) <= Fraction(TIE_TOL):
                    info["ties"] += 1
                elif iann != mann:
                    add("C13_coverage_annotation: int(round(mean of batch percentages, 1))", "C13_coverage_annotation", [k],
                        dict(column=c, annotation=iann, batch_coverages=icov), dict(annotation=mann, mean=str(mean)))
        # rare values
        irare = sorted(((idx[kk[0]], ("anon",) if kk[0] in anon else tuple(kk[1]), kk[2]) for kk in h["rare"]), key=repr)
        mr = sorted(((e[0], ("anon",) if cols[e[0]] in anon else val_dec(e[1]), e[2]) for e in mrare), key=repr)
        if irare != mr or (not vrare and not tablenone and not anon):
            add("C13_rare_spec: report = {((col, v), total) | 1 <= total <= thr}", "C13_rare_spec", [k],
                dict(rare=h["rare"], ignored=h["ignored"]), [[cols[a], list(b), c_] for a, b, c_ in mr])
        if h["rare"]:
            if h["rare_file"] is None:
                add("rare_values.tsv is written", "correspondence:rare_values.tsv", [k], h["rare_writer_error"], None)
            else:
                info["writer_ran"] += 1
                frows = sorted(tuple(x) for x in h["rare_file"]["rows"] if x[0] not in anon)
                if any(kk[1][0] == "num" for kk in h["rare"]):
                    # numbers of the enriched frame: pandas formats a mixed value column (3 / 3.0 next to nan) its own way
                    frows = None
                    info["writer_numeric_skipped"] = info.get("writer_numeric_skipped", 0) + 1
                want = sorted((kk[0], kk[1][1] if kk[1][0] in ("s", "num") else "", str(kk[2])) for kk in h["rare"] if kk[0] not in anon)
                if frows is not None and frows != want:
                    add("rare_values.tsv holds exactly the (feature, value, count) entries of the report",
                        "correspondence:rare_values.tsv", [k], h["rare_file"], want)
                if h["rare_writer_error"]:
                    info["writer_late_errors"] += 1
        else:
            info["empty_report"] += 1
        full = (tuple((s["cold"], s["len"]) for s in (h["sketch"][c] for c in cols)),
                tuple(tuple(h["hist"][c][str(e)] for e in edges) for c in cols), tuple(irare))
        fulls.append(full)
        canon.append((tuple(None if colnone[j] else x for j, x in enumerate(full[0])),
                      tuple(None if colnone[j] else x for j, x in enumerate(full[1])),
                      tuple(x for x in irare if x[1][0] in ("s", "num"))))
    if tablenone and any(f != fulls[0] for f in fulls[1:]):
        info["none_split_dependent"] = 1
    # split independence observed on the implementation alone
    for k in range(1, len(canon)):
        c0, ck = canon[0], canon[k]
        cards_differ = any(a is not None and b is not None and a != b for a, b in zip(c0[0], ck[0]))
        if cards_differ or c0[1] != ck[1] or c0[2] != ck[2]:
            what = "cardinality" if cards_differ else ("histogram" if c0[1] != ck[1] else "rare report")
            add("C13_split_indep: %s differs between two compositions of the same rows" % what, "C13_split_indep", [0, k],
                dict(first=r["histories"][0]["names"], first_rare=r["histories"][0]["rare"], first_hist=r["histories"][0]["hist"],
                     second=r["histories"][k]["names"], second_rare=r["histories"][k]["rare"],
                     second_hist=r["histories"][k]["hist"]), None)
            break


# ---------------------------------------------------------------------------------------------
# shrinking

def cut_rows(case, nrows):
    """keep the first nrows rows, trimming every composition"""
    c = dict(case)
    c["rows"] = case["rows"][:nrows]
    sp = []
    for s in case["splits"]:
        out, left = [], nrows
        for x in s:
            if left <= 0:
                break
            out.append(min(x, left))
            left -= min(x, left)
        sp.append(out)
    c["splits"] = sp
    return c


def drop_col(case, j):
    c = dict(case)
    c["cols"] = [x for i, x in enumerate(case["cols"]) if i != j]
    c["rows"] = [[x for i, x in enumerate(r) if i != j] for r in case["rows"]]
    if case.get("numeric"):
        c["numeric"] = [x for x in case["numeric"] if x != case["cols"][j]]
    return c


def shrink(case, prob, rounds=3):
    cur = sub_case(case, prob["splits"])
    curp = prob
    if len(cur["rows"]) > 200:
        rounds = 1           # long tables: one round only (each candidate is a full implementation + Coq run)
    for _ in range(rounds):
        cands = []
        if len(cur["cols"]) > 1:
            cands += [drop_col(cur, j) for j in range(len(cur["cols"]))]
        n = len(cur["rows"])
        for m in sorted({n - 1, n // 2, max(1, n // 4)}):
            if 1 <= m < n:
                cands.append(cut_rows(cur, m))
        if not cands:
            break
        try:
            ps, _ = evaluate(cands)
        except vlib.Broken:
            break
        best = None
        for c, p in zip(cands, ps):
            same = [x for x in p if x["obligation"] == curp["obligation"]]
            if same:
                size = len(c["rows"]) * len(c["cols"])
                if best is None or size < best[0]:
                    best = (size, sub_case(c, same[0]["splits"]), same[0])
        if best is None:
            break
        cur, curp = best[1], best[2]
    return cur, curp


# ---------------------------------------------------------------------------------------------

def nontrivial(case, sizes):
    if len(sizes) < 2:
        return False
    seen = {}
    pos = 0
    for b, n in enumerate(sizes):
        for r in case["rows"][pos:pos + n]:
            for j, v in enumerate(r):
                if seen.setdefault((j, v), b) != b:
                    return True
        pos += n
    return False


def reentry(case, sizes):
    """some pair exceeds the threshold at a batch end and occurs again later (what fix 549e068 is about)"""
    cnt = {}
    retired = set()
    pos = 0
    for n in sizes:
        for r in case["rows"][pos:pos + n]:
            for j, v in enumerate(r):
                if (j, v) in retired:
                    return True
                cnt[(j, v)] = cnt.get((j, v), 0) + 1
        retired |= {k for k, c in cnt.items() if c > case["thr"]}
        pos += n
    return False


def run_scale(run, scale_cases):
    """thorough tier: rare-value report over ~1e6 distinct pairs against an exact recount (Python side only)"""
    outdir = os.path.join(vlib.CACHE, "c13_scale_%d" % os.getpid())
    res = vlib.run_impl("impl_c13.py", {"cases": [], "outdir": outdir, "scale": scale_cases})["scale"]
    ok = True
    for sc, r in zip(scale_cases, res):
        run.count_case(sc, True)
        if not r["ok"]:
            ok = False
            run.violation("counterexample", "impl-raises", case=sc, impl=r["error"], clause="compute_value_counts terminates normally")
        elif r["n_missing"] or r["n_spurious"] or r["n_wrong"]:
            ok = False
            run.violation("counterexample", "C13_rare_spec", case=sc, impl=r, model="exact recount: %d rare values" % r["exact"],
                          clause="C13_rare_spec at scale: report = {((col, v), total) | 1 <= total <= thr} (exact recount by Counter)")
    run.oblige("correspondence:rare-value report at scale (1e6 distinct pairs, exact recount)", ok)
    run.cov["scale_cases"] = [dict(sc, rows=r.get("rows"), report=r.get("report")) for sc, r in zip(scale_cases, res)]


def check(run, replay):
    model_ok, log = vlib.build(["Stats/Quality.vo"])
    run.oblige("build:model Stats/Quality.vo", model_ok, "" if model_ok else log[-1500:])
    if not model_ok:
        raise vlib.Broken("build:Stats/Quality.vo", log)
    vlib.standard_proof_phase(run, ["Props/C13.vo"], "Outrank.Props.C13", THEOREMS)

    if replay is not None and replay["case"].get("kind") == "scale":
        run_scale(run, [replay["case"]])
        return
    cases = [replay["case"]] if replay is not None else generate(run)
    problems, infos = evaluate(cases)
    if replay is None and run.tier == "thorough":
        # 32-bit-collision scale (seeded C13-F): ~4e1 colliding fingerprint pairs expected at 1.2e6 distinct values
        run_scale(run, [{"kind": "scale", "n_distinct": 1200000, "nbatches": 40, "thr": 2, "seed": run.seed, "layout": "shuffled"},
                        {"kind": "scale", "n_distinct": 800000, "nbatches": 16, "thr": 2, "seed": run.seed + 1, "layout": "frequent-first"}])

    hist = {"family": {}, "rows": {}, "ncols": {}, "batches_per_history": {}, "thr": {}, "small_bound": 0, "via_batch_ranking": 0,
            "histories": 0, "histories_with_reentry_of_a_retired_pair": 0}
    agg = dict(cold=0, ties=0, beyond_bound=0, beyond_bound_model_agrees=0, writer_late_errors=0, writer_ran=0, empty_report=0,
               none_table=0, none_split_dependent=0, none_pipeline_table=0, interaction_tables=0,
               interaction_tables_compared_anonymously=0)
    collisions = 0

    def bump(d, k):
        d[k] = d.get(k, 0) + 1
    for case, info in zip(cases, infos):
        bump(hist["family"], case.get("family", "replay"))
        n = len(case["rows"])
        bump(hist["rows"], "1-6" if n <= 6 else "7-40" if n <= 40 else ">40")
        bump(hist["ncols"], len(case["cols"]))
        bump(hist["thr"], case["thr"])
        hist["small_bound"] += 1 if case["bound"] < 100 else 0
        hist["via_batch_ranking"] += 1 if case.get("via") == "batch" else 0
        for sizes in case["splits"]:
            hist["histories"] += 1
            bump(hist["batches_per_history"], len(sizes) if len(sizes) <= 8 else ">8")
            hist["histories_with_reentry_of_a_retired_pair"] += 1 if reentry(case, sizes) else 0
            run.count_case([case["cols"], case["rows"], case["thr"], case["bound"], case["syms"], case["smallcap"],
                            case.get("numeric"), case.get("transformers"), case.get("interaction_order"),
                            case.get("via"), sizes], nontrivial(case, sizes))
        for k in agg:
            agg[k] += info.get(k, 0)
        if info and not info.get("injective", True):
            collisions += 1

    nviol = 0
    seen_obl = set()
    # clauses of the property first, crashes and harness-level correspondences after them
    order = sorted(((0 if p["obligation"].startswith("C13_") else 1 if p["obligation"].startswith("correspondence") else 2, i, p)
                    for i, ps in enumerate(problems) for p in ps), key=lambda x: (x[0], x[1]))
    for _, ci, p in order:
        case = cases[ci]
        for p in [p]:
            nviol += 1
            if p["obligation"] in seen_obl:
                continue
            seen_obl.add(p["obligation"])
            small, sp = (sub_case(case, p["splits"]), p)
            if replay is None and len(seen_obl) <= 2:        # shrink the first two obligations only (each round is a full run)
                try:
                    small, sp = shrink(case, p)
                except Exception:
                    small, sp = (sub_case(case, p["splits"]), p)
            run.violation("counterexample", p["obligation"], case=small, impl=sp["impl"], model=sp["model"], clause=sp["clause"])
    if collisions * 100 > max(1, len(cases)):
        run.violation("counterexample", "C13_card_exact", case=next(c for c, i in zip(cases, infos) if i and not i.get("injective", True)),
                      impl="internal_hash collides on the values of %d of %d tables" % (collisions, len(cases)), model=None,
                      clause="cardinality exact up to 32-bit hash collisions: collisions far above the 32-bit rate")
    # the constants the property names, held to the SOURCE (ast in the runner) and to the Coq constants
    try:
        kc = vlib.coq_eval("C13k", HEADER, ["(warmup_capacity, Z.of_N sketch_p, default_edges)"])[0]
        coq_consts_ok = (kc[0] == REAL_CAP and kc[1] == REAL_P and list(kc[2]) == DEFAULT_EDGES)
    except vlib.Broken:
        coq_consts_ok = False
    src_edges = CONSTS.get("edges")
    src_sk = CONSTS.get("sketch") or CONSTS.get("sketch_instance")
    if src_edges is None:
        run.notes.append("histogram levels not located in the source (%s): held to the keys of the value_repetitions.json every "
                         "history wrote instead (correspondence)" % CONSTS.get("edges_note"))
    if CONSTS.get("sketch") is None:
        run.notes.append("sketch constants not evaluable from HyperLogLogWCache.__init__ (%s): a fresh instance's attributes used"
                         % CONSTS.get("sketch_note"))
    ok_edges = coq_consts_ok and (src_edges is None or src_edges == DEFAULT_EDGES)
    ok_cap = coq_consts_ok and src_sk is not None and src_sk.get("warmup_size") == REAL_CAP and src_sk.get("p") == REAL_P \
        and (CONSTS.get("sketch_instance") in (None, CONSTS.get("sketch")) or CONSTS.get("sketch") is None)
    run.oblige("translator:histogram levels in task_ranking.py = [0,1,10,...,10^5] = Quality.default_edges", ok_edges,
               "" if ok_edges else "source: %r" % (src_edges,))
    run.oblige("translator:sketch warm-up capacity 2^18 (p = 19) in counting_ultiloglog.py = Quality.warmup_capacity", ok_cap,
               "" if ok_cap else "source: %r instance: %r" % (CONSTS.get("sketch"), CONSTS.get("sketch_instance")))
    if replay is None:
        if not ok_edges and not any(p["obligation"] == "C13_hist_general" for ps in problems for p in ps):
            run.violation("broken-obligation", "translator:histogram levels", found_input=False, extra="source levels %r" % (src_edges,))
        if not ok_cap:
            run.violation("broken-obligation", "translator:sketch warm-up capacity", found_input=False,
                          extra="source %r instance %r; the property states exactness below 2^18 distinct values"
                          % (CONSTS.get("sketch"), CONSTS.get("sketch_instance")))
    run.oblige("translator:annotation and value_repetitions statements of task_ranking.py located and executed",
               EXTRACT["error"] is None, EXTRACT["error"] or "")
    if EXTRACT["error"] and not run.violations:
        run.violation("broken-obligation", "translator:task_ranking annotation/histogram statements", found_input=False,
                      extra=EXTRACT["error"] + " (replicated statements used instead; no failing input found with them)")
    # The small-sketch device is a cheaper way to cross the warm-up boundary, not a proof obligation: when a rewrite of the
    # sketch makes attribute-poked instances inconsistent, the tables are judged with the default-size sketch (they stay warm,
    # which is all C13 claims; the converted phase is C14's subject) and the evidence says so.
    run.cov["small_sketch_device_usable"] = DEVICE["error"] is None
    if DEVICE["error"]:
        run.notes.append("small-sketch device unusable on this tree (%s): smallcap tables judged with the default-size sketch"
                         % DEVICE["error"])
    run.oblige("correspondence:statistics of every history = model = specification of the concatenation", nviol == 0,
               "" if nviol == 0 else "%d disagreements" % nviol)
    run.oblige("correspondence:split independence observed on the implementation", "C13_split_indep" not in seen_obl)

    run.cov["input_distribution"] = hist
    run.cov["tables"] = len(cases)
    run.cov["coverage_annotations_excluded_near_a_rounding_tie"] = agg["ties"]
    run.cov["column_histories_with_a_converted_sketch_compared_with_linear_counting_of_the_model_registers"] = agg["cold"]
    run.cov["column_histories_at_or_beyond_the_counter_bound_asserted_in_prefix_form"] = agg["beyond_bound"]
    run.cov["rare_values_tsv_written_and_compared"] = agg["writer_ran"]
    run.cov["empty_reports_writer_not_called"] = agg["empty_report"]
    run.cov["writer_errors_after_rare_values_tsv_was_written"] = agg["writer_late_errors"]
    run.cov["tables_with_a_hash_collision"] = collisions
    run.cov["tables_with_interaction_columns_judged"] = agg["interaction_tables"]
    run.cov["  of_which_compared_anonymously_cells_are_not_digests_of_the_length_prefixed_tuples"] = agg["interaction_tables_compared_anonymously"]
    run.cov["tables_with_declared_numeric_columns"] = sum(1 for c in cases if c.get("numeric"))
    run.cov["  of_which_with_a_transformer_preset"] = sum(1 for c in cases if c.get("numeric") and c.get("transformers") == "minimal")
    run.cov["tables_with_None_cells_through_the_pipeline_spec_and_split_independence_asserted"] = agg["none_pipeline_table"]
    run.cov["tables_with_None_cells_direct_calls"] = agg["none_table"]
    run.cov["  of_which_statistics_differ_between_compositions_as_C13_none_cells_refuted_predicts"] = agg["none_split_dependent"]
    if agg["none_split_dependent"]:
        run.notes.append("function-level behaviour (C13_none_cells_refuted; repaired for the pipeline by fix 2ffc0d7): called directly on "
                         "pd.DataFrame(rows) with None cells, cardinality, histogram and rare table depend on the batch split (nan next to "
                         "strings, None in an all-None batch column); model and implementation agree on every such history")
    run.cov["exhaustive"] = False
    run.cov["exhaustive_small_scope"] = ("every composition of every generated table with <= %d rows" %
                                         (5 if run.tier == "quick" else 6))
    run.samples = [dict(c, rows=c["rows"][:12]) for c in cases[:1] + cases[8:10]]
    run.assumptions += [
        "cells are Python str (what generic_line_parser yields); column names distinct",
        "internal_hash is tabulated from the real function on the table's values; exactness is claimed where it is injective on them",
        "sketches: real size (p = 19, capacity 2^18; the tables keep them warm) or harness-set small p/m/width/warmup_size on "
        "pre-created instances; converted sketches are compared with linear counting (float, ceil tie accepted) of the empty "
        "registers of C14's model fed with the set of truthy cells, the sketch's own hash xxh32(seed = p) tabulated per case",
        "histogram asserted for every column in the prefix form of C13_hist_general (below the bound = all consumed rows)",
        "numeric cells (enriched frame): homogeneous int or float columns without None / nan / -0.0; a number is its str() and its truth value",
        "coverage floats compared to the exact rational within 1e-9; annotations whose exact mean is within 1e-9 of k+0.95 excluded",
        "module globals reset by the harness between histories",
    ]
    run.trusted += [
        "harness: tools/props/c13.py (generators, encoding, comparison), tools/impl/impl_c13.py (drives the real functions; "
        "replicates only `local_coverage_object[k].append(v)` of estimate_importances_minibatches; the annotation and histogram "
        "statements of task_ranking.py are located by ast and executed unchanged, fail-closed)",
        "coqparse.py (reads the terms coqc prints)",
        "pandas DataFrame/StringDtype, numpy mean/round, json, csv: held to the model only by this correspondence",
    ]
