"""C19 — synthetic categorical data respects its declared shape, domains and seed.

Tie = trace replay: the driver records every np.random.seed/choice/randint/shuffle/permutation call of a real run;
the Coq model (Synth/DataGen.v) replays the recorded answers, checking the assumed library behaviour on each, and
must reproduce the data matrix exactly.  Independently the Coq validator `valid_dataset` (sound for the property's
clauses: C19_check_sound) is evaluated on every implementation output, dtype/shape are checked, and the real code is
run three times with the same seed and arguments from different generator states.  When the replay does not
reproduce (another RNG call pattern) but the validator and all direct clause checks pass on every case, the property is
decided by the validator and the check stays quiet (evidence note + `validator_only_cases`)."""
from __future__ import annotations

import json
import os

import vlib

LEVEL = "proof"
RULE = ("generated argument sets for generate_data (n_features 1..12, n_samples 1..60; thorough up to 30x500): structure "
        "None / [] / entries (index | np.int64 | index list | index ndarray) x (cardinality | value list | value ndarray | "
        "[values, frequencies]) as tuples, lists or a 2-D ndarray, ~25% of multi-entry structures in a non-increasing order "
        "(shuffled entries, shuffled / interleaved index lists), ensure_rep on/off incl. n_samples = |domain| and +-1, "
        "random_values with (low, high) incl. high-low+1 = cardinality, k, seeds; ~3% value lists outside int32 (stated "
        "precondition: counted, only dtype/shape/determinism checked); naive generator sizes >= 31 features and the "
        "data_generator task; HISTORIES: one generator instance, 2-4 generate_data calls with the same seed and k and column "
        "domains of equal size but different contents (default range / value lists with another spacing / random draws / "
        "[values, frequencies]), every call replayed by the model on its own trace and compared with a fresh instance; TASK "
        "FOLDER HISTORIES: the same output folder reused for 2-4 data_generator runs with different (rows, features), once "
        "with identical arguments, every run's data.csv judged for its own arguments; non-trivial = n_samples >= 2 and some column domain with >= 2 values; distinct = distinct "
        "argument sets")
THEOREMS = ["C19_shape", "C19_domain", "C19_positions", "C19_positions_at", "C19_positions_default",
            "C19_positions_duplicates_rejected", "C19_positions_unsorted_prefix_refuted", "C19_ensure_rep",
            "C19_ensure_rep_prefix_refuted", "C19_deterministic_partial", "C19_seeded", "C19_call_pattern", "C19_progress",
            "C19_progress_wf", "C19_check_sound", "C19_model_ok", "C19_naive", "C19_naive_needle_only",
            "C19_naive_precondition", "C19_csv_rows"]
INT32_MIN, INT32_MAX = -2 ** 31, 2 ** 31 - 1


# ---------------------------------------------------------------- generator of arguments

def gen_values(rng):
    n = rng.randint(1, 6)
    r = rng.random()
    if r < 0.1:
        pool = [INT32_MIN, INT32_MAX, INT32_MAX - 1, 0, -1, 10 ** 9]
        vs = rng.sample(pool, min(n, len(pool)))
    elif r < 0.3:
        base = rng.randint(-100, 1000)
        vs = [base + i * rng.randint(1, 3) for i in range(n)]
        vs = sorted(set(vs))
        rng.shuffle(vs)
    else:
        vs = rng.sample(range(-100, 1000), n)
    if rng.random() < 0.08 and len(vs) >= 2:
        vs.append(vs[0])          # a duplicated value in the list
    return vs


def gen_attr(rng):
    r = rng.random()
    if r < 0.4:
        return {"kind": "card", "c": rng.choice([1, 2, 2, 3, 4, 5, 6, 8]), "form": rng.choice(["int", "int", "npint"])}
    vs = gen_values(rng)
    form = rng.choice(["list", "list", "ndarray"])
    if r < 0.7:
        return {"kind": "vals", "vs": vs, "form": form}
    while True:
        ps = [rng.randint(0, 5) for _ in vs]
        if sum(ps) > 0:
            break
    return {"kind": "valsp", "vs": vs, "ps": ps, "form": form, "p_form": rng.choice(["int", "norm", "tenth"]),
            "p_container": rng.choice(["list", "ndarray"])}


def flat_indices(case):
    out = []
    for e in case["structure"] or []:
        out.extend(e["ix"] if isinstance(e["ix"], list) else [e["ix"]])
    return out


def is_sorted_structure(case):
    fl = flat_indices(case)
    return all(a < b for a, b in zip(fl, fl[1:])) and all(0 <= i < case["n_features"] for i in fl)


def is_wf_structure(case):
    """every index described once and < n_features, in any order (Coq: wf_structure)"""
    fl = flat_indices(case)
    return len(set(fl)) == len(fl) and all(0 <= i < case["n_features"] for i in fl)


def outside_int32(case):
    return any(not (INT32_MIN <= v <= INT32_MAX) for e in case["structure"] or [] if e["attr"]["kind"] != "card"
               for v in e["attr"]["vs"])


def domain_sizes(case):
    sizes = [case["cardinality"]]
    for e in case["structure"] or []:
        at = e["attr"]
        sizes.append(at["c"] if at["kind"] == "card" else len(at["vs"]))
    return sizes


def gen_case(rng, big=False):
    nf = rng.randint(1, 30 if big else 12)
    ns = rng.randint(1, 500 if big else 60)
    case = {"kind": "gen", "n_features": nf, "n_samples": ns,
            "cardinality": rng.choice([5, 5, 5, 1, 2, 3, 4, 6, 8, rng.randint(1, 10)]),
            "ensure_rep": rng.random() < 0.5, "random_values": rng.random() < 0.3,
            "k": rng.choice([None, 10, 10, 1, 5, 2.5, 50]),
            "seed": rng.choice([0, 42, 2 ** 32 - 1, rng.randint(0, 2 ** 32 - 1), rng.randint(0, 1000)]),
            "structure": None, "structure_form": "list"}
    mode = rng.random()
    if mode < 0.22:
        pass
    elif mode < 0.27:
        case["structure"] = []
    else:
        m = rng.randint(1, min(nf, 6))
        idxs = sorted(rng.sample(range(nf), m))
        unsorted = m >= 2 and rng.random() < 0.25
        if unsorted and rng.random() < 0.5:
            rng.shuffle(idxs)                     # interleaved index lists, e.g. ([4, 1], ..), (2, ..)
        entries = []
        i = 0
        while i < m:
            if rng.random() < 0.35:
                g = rng.randint(1, min(3, m - i))
                entries.append({"ix": idxs[i:i + g], "ix_form": rng.choice(["list", "ndarray"])})
                i += g
            else:
                entries.append({"ix": idxs[i], "ix_form": rng.choice(["int", "int", "npint"])})
                i += 1
        for e in entries:
            e["attr"] = gen_attr(rng)
            e["entry_form"] = rng.choice(["tuple", "tuple", "list"])
        case["structure"] = entries
        if unsorted:                                      # the order of the description must not matter
            for _ in range(5):
                if not is_sorted_structure(case):
                    break
                rng.shuffle(entries)
        if rng.random() < 0.03:                           # stated precondition: values outside int32 (inside int64)
            vals = [e for e in entries if e["attr"]["kind"] != "card"]
            if vals:
                at = rng.choice(vals)["attr"]
                at["vs"][rng.randrange(len(at["vs"]))] = rng.choice([2 ** 31, 3000000000, -2 ** 31 - 1, 2 ** 40 + 7])
        if (all(isinstance(e["ix"], int) and e["attr"]["kind"] == "card" for e in entries) and rng.random() < 0.3):
            case["structure_form"] = "ndarray2d"
    # ensure_rep boundary: n_samples = some domain size (or one off)
    if case["ensure_rep"] and rng.random() < 0.45 and not big:
        sz = rng.choice(domain_sizes(case))
        case["n_samples"] = max(1, sz + rng.choice([0, 0, 0, -1, 1]))
    # bounds
    if case["random_values"]:
        cards = [case["cardinality"]] + [e["attr"]["c"] for e in case["structure"] or [] if e["attr"]["kind"] == "card"]
        mx = max(cards)
        case["low"] = rng.choice([0, rng.randint(-50, 50)])
        span = rng.choice([mx, mx, mx + rng.randint(0, 40), 1001])
        case["high"] = case["low"] + span - 1
    else:
        case["low"] = rng.choice([0, 0, 0, rng.randint(-20, 20)])
        case["high"] = rng.choice([1000, 1000, case["low"] + 3])
    return case


def gen_history(rng):
    """One generator INSTANCE, several generate_data calls with the same seed and k whose column domains have the same
    number of values but different contents (consecutive default range, explicit lists with another spacing, random
    draws): anything the instance remembers between calls (memoised densities, cached domains, a remembered seed)
    shows up as a difference to a fresh instance given the same arguments."""
    c = rng.randint(2, 6)
    nf = rng.randint(1, 4)
    k = rng.choice([None, 10, 10, 5, 2.5])
    seed = rng.choice([11, 42, rng.randint(0, 2 ** 32 - 1)])
    ens = rng.random() < 0.3
    calls = []
    kinds = ["default"] + [rng.choice(["default", "values", "values", "random", "valsp"]) for _ in range(rng.randint(1, 3))]
    if "values" not in kinds:
        kinds[-1] = "values"
    if rng.random() < 0.3:
        rng.shuffle(kinds)
    for kd in kinds:
        call = {"kind": "gen", "n_features": nf, "n_samples": rng.randint(25, 60), "cardinality": c, "ensure_rep": ens,
                "random_values": False, "k": k, "seed": seed, "structure": None, "structure_form": "list",
                "low": 0, "high": 1000}
        if kd == "default":
            call["low"] = rng.choice([0, 0, rng.randint(-20, 20)])
        elif kd == "random":
            call["random_values"] = True
            call["low"] = rng.randint(-50, 50)
            call["high"] = call["low"] + rng.choice([c * 40, 1000])
        else:
            step = rng.choice([2, 3, 5, 10, 10, 100, -7])
            base = rng.randint(-100, 100)
            vs = [base + step * i for i in range(c)]
            if rng.random() < 0.3:
                vs = sorted(rng.sample(range(-500, 500), c))
            ixs = list(range(nf)) if rng.random() < 0.6 else sorted(rng.sample(range(nf), rng.randint(1, nf)))
            if kd == "valsp":
                at = {"kind": "valsp", "vs": vs, "ps": [rng.randint(1, 5) for _ in vs], "form": "list", "p_form": "int",
                      "p_container": "list"}
            else:
                at = {"kind": "vals", "vs": vs, "form": rng.choice(["list", "ndarray"])}
            call["structure"] = [{"ix": ixs, "ix_form": "list", "attr": at, "entry_form": "tuple"}]
        calls.append(call)
    return {"kind": "hist", "calls": calls}


def gen_naive(rng, big=False):
    nf = rng.choice([31, 31, 32, rng.randint(31, 120 if big else 40)])
    return {"kind": "naive", "num_features": nf, "size": rng.randint(1, 300 if big else 30),
            "seed": rng.randint(0, 2 ** 32 - 1)}


def gen_task(rng):
    return {"kind": "task", "num_features": rng.randint(31, 36), "size": rng.randint(1, 12),
            "seed": rng.randint(0, 2 ** 32 - 1), "preexisting": rng.random() < 0.5}


def gen_taskhist(rng):
    """the same output folder reused for 2-3 data_generator runs with different (rows, features), once with identical
    arguments: the unchanged task removes an existing folder and writes anew, so every run's data.csv must be the data
    set of ITS arguments"""
    runs = [{"kind": "task", "num_features": rng.randint(31, 36), "size": rng.randint(1, 12),
             "seed": rng.randint(0, 2 ** 32 - 1)} for _ in range(rng.randint(2, 3))]
    if runs[1]["num_features"] == runs[0]["num_features"] and runs[1]["size"] == runs[0]["size"]:
        runs[1]["size"] += 1
    if rng.random() < 0.4:
        runs.append(dict(runs[-1]))                       # identical arguments (incl. seed) once more
    return {"kind": "taskhist", "runs": runs}


def load_corpus(pid):
    d = os.path.join(vlib.VERIF, "corpus", pid)
    out = []
    if os.path.isdir(d):
        for f in sorted(os.listdir(d)):
            if f.endswith(".json"):
                c = json.load(open(os.path.join(d, f)))
                out.extend(c if isinstance(c, list) else [c])
    return out


# ---------------------------------------------------------------- Coq literals

def is_int(x):
    return isinstance(x, int) and not isinstance(x, bool)


def int_list(x):
    return isinstance(x, list) and all(is_int(v) for v in x)


def int_matrix(x):
    return isinstance(x, list) and all(int_list(r) for r in x)


def zl(xs):
    return vlib.zlist(xs) + "%Z"


def zm(m):
    return "[" + "; ".join(zl(r) for r in m) + "]"


def attr_lit(at):
    if at["kind"] == "card":
        return "(ACard %d)" % at["c"]
    if at["kind"] == "vals":
        return "(AVals %s)" % zl(at["vs"])
    return "(AValsP %s %s)" % (zl(at["vs"]), zl(at["ps"]))


def args_lit(c):
    if c["structure"] is None:
        st = "None"
    else:
        es = []
        for e in c["structure"]:
            if isinstance(e["ix"], list):
                es.append("SMany %s%%nat %s" % (vlib.nlist(e["ix"]), attr_lit(e["attr"])))
            else:
                es.append("SOne %d %s" % (e["ix"], attr_lit(e["attr"])))
        st = "(Some [" + "; ".join(es) + "])"
    return "(mkArgs %d %d %d %s %s %s %s %s %s)" % (
        c["n_features"], c["n_samples"], c["cardinality"], st, vlib.blit(c["ensure_rep"]), vlib.blit(c["random_values"]),
        vlib.zlit(c["low"]), vlib.zlit(c["high"]), vlib.zlit(c["seed"]))


UNEXPECTED = "RPermutation []"     # a call the model never expects -> the replay fails closed


def answer_lit(ev):
    fn = ev.get("fn")
    if fn == "seed":
        a = ev.get("args") or []
        return "RSeed %s" % vlib.zlit(a[0]) if len(a) == 1 and is_int(a[0]) and not ev.get("kw") else UNEXPECTED
    ans = ev.get("ans")
    if fn == "choice":
        return "RChoice %s" % zl(ans) if int_list(ans) and ev.get("ans_ndim") == 1 else UNEXPECTED
    if fn == "randint":
        if is_int(ans) and ev.get("ans_ndim") == 0:
            return "RRandint %s" % vlib.zlit(ans)
        if ev.get("ans_ndim") == 2 and int_matrix(ans):
            return "RRandintMat %s" % zm(ans)
        return UNEXPECTED
    if fn == "shuffle":
        return "RShuffle %s" % zl(ans) if int_list(ans) else UNEXPECTED
    if fn == "permutation" and int_list(ans):
        return "RPermutation %s" % zl(ans)
    return UNEXPECTED


def stream_lit(trace):
    return "[" + "; ".join(answer_lit(ev) for ev in trace) + "]"


HEADER = ("From Coq Require Import List ZArith.\nFrom Outrank Require Import Synth.DataGen.\n"
          "Import ListNotations.\nOpen Scope Z_scope.")


def cells(c):
    return c["n_features"] * c["n_samples"] if c.get("kind", "gen") == "gen" else c["num_features"] * c["size"]


KIND = {("seed", 0): 0, ("choice", 0): 1, ("randint", 0): 2, ("shuffle", 0): 3, ("randint", 2): 4, ("permutation", 0): 5}


def drawn_matrix(trace):
    return trace[0]["ans"] if len(trace) == 1 and trace[0].get("fn") == "randint" else None


def rows_agree(model_rows, impl_rows, drawn, needle=30):
    """The property speaks about the label.  The returned sample must be the recorded draw; in the needle column the
    code today returns the label (target is a view of the sample) -- a copy that keeps the drawn value is equally
    acceptable, so that column may carry either."""
    if len(model_rows) != len(impl_rows) or drawn is None or len(drawn) != len(impl_rows):
        return False
    for m, g, d in zip(model_rows, impl_rows, drawn):
        if len(m) != len(g) or len(d) != len(g):
            return False
        for j, (a, b) in enumerate(zip(m, g)):
            if a != b and not (j == needle and b == d[j]):
                return False
    return True


def naive_observable(c, sample, target, needle=30):
    """Clauses of the naive generator that can be decided on the output alone (used when the RNG call pattern is not
    the single randint matrix the model replays).  Returns a description of the failing clause or None."""
    if len(target) != c["size"] or len(sample) != c["size"]:
        return "one label per row, `size` rows"
    for row, t in zip(sample, target):
        if len(row) != c["num_features"]:
            return "num_features columns"
        if t not in (0, 1):
            return "label in {0, 1}"
        for j, v in enumerate(row):
            if j == needle:
                # view semantics: the needle column carries the label; copy semantics: the drawn value decides it
                if not (v == t or (10 <= v < 100 and t == (1 if v >= 40 else 0))):
                    return "label = 1 iff needle value >= 40"
            elif not (is_int(v) and 10 <= v < 100):
                return "cells are integers in [10, 100)"
    return None


# ---------------------------------------------------------------- the check

def check(run, replay):
    ok, log = vlib.build(["Synth/DataGen.vo"])
    run.oblige("build:model Synth/DataGen.vo", ok, "" if ok else log[-1500:])
    if not ok:
        raise vlib.Broken("build:Synth/DataGen.vo", log)
    vlib.standard_proof_phase(run, ["Props/C19.vo"], "Outrank.Props.C19", THEOREMS)

    rng = run.rng
    if replay is not None:
        cases = [replay["case"]]
    else:
        cases = load_corpus("C19")
        if run.tier == "quick":
            cases += [gen_case(rng) for _ in range(260)] + [gen_history(rng) for _ in range(40)]
            cases += [gen_naive(rng) for _ in range(6)] + [gen_task(rng) for _ in range(2)]
            cases += [gen_taskhist(rng) for _ in range(4)]
        else:
            cases += [gen_case(rng) for _ in range(2500)] + [gen_case(rng, big=True) for _ in range(120)]
            cases += [gen_history(rng) for _ in range(400)]
            cases += [gen_naive(rng) for _ in range(30)] + [gen_naive(rng, big=True) for _ in range(6)]
            cases += [gen_task(rng) for _ in range(6)] + [gen_taskhist(rng) for _ in range(20)]
    out = vlib.run_impl("impl_c19.py", {"cases": cases})
    if out.get("import_error"):
        raise vlib.Broken("impl-import", out["import_error"])
    # histories expand to one unit per call; a failing unit is reported with the history up to that call
    submitted, cases, res, report = cases, [], [], []
    n_hist = 0
    n_taskhist = 0
    for c, r in zip(submitted, out["results"]):
        if c.get("kind") == "taskhist":
            n_taskhist += 1
            if not r["ok"]:
                j = min(r.get("run_index", len(c["runs"]) - 1), len(c["runs"]) - 1)
                cases.append(c["runs"][j]); res.append(r); report.append({"kind": "taskhist", "runs": c["runs"][:j + 1]})
                continue
            for j, (cj, rj) in enumerate(zip(c["runs"], r["runs"])):
                cases.append(cj); res.append(rj); report.append({"kind": "taskhist", "runs": c["runs"][:j + 1]})
            continue
        if c.get("kind") != "hist":
            cases.append(c); res.append(r); report.append(c)
            continue
        n_hist += 1
        if not r["ok"]:
            j = min(r.get("call_index", len(c["calls"]) - 1), len(c["calls"]) - 1)
            cases.append(c["calls"][j]); res.append(r); report.append({"kind": "hist", "calls": c["calls"][:j + 1]})
            continue
        for j, (cj, rj) in enumerate(zip(c["calls"], r["calls"])):
            cases.append(cj); res.append(rj); report.append({"kind": "hist", "calls": c["calls"][:j + 1]})

    hist = {"kinds": {}, "structure": {"none": 0, "empty": 0, "sorted": 0, "unsorted": 0, "ndarray2d": 0},
            "attr_kinds": {}, "index_forms": {}, "ensure_rep": 0, "ensure_rep_boundary": 0, "random_values": 0,
            "random_values_tight_bounds": 0, "n_features": {}, "n_samples_bucket": {}, "impl_errors": 0,
            "rng_calls": 0, "outside_int32_precondition": 0}
    exprs, idx = [], []
    direct = {}          # case index -> list of (clause, detail) found without Coq
    for i, (c, r) in enumerate(zip(cases, res)):
        kind = c.get("kind", "gen")
        hist["kinds"][kind] = hist["kinds"].get(kind, 0) + 1
        direct[i] = []
        if kind == "gen":
            nontriv = c["n_samples"] >= 2 and max(domain_sizes(c)) >= 2
            run.count_case(c, nontriv)
            st = c["structure"]
            sk = ("none" if st is None else "empty" if not st else "sorted" if is_sorted_structure(c) else "unsorted")
            if sk == "unsorted" and any(isinstance(e["ix"], list) and e["ix"] != sorted(e["ix"]) for e in st):
                hist["structure"]["unsorted_index_list"] = hist["structure"].get("unsorted_index_list", 0) + 1
            hist["structure"][sk] += 1
            if c.get("structure_form") == "ndarray2d" and st:
                hist["structure"]["ndarray2d"] += 1
            for e in st or []:
                hist["attr_kinds"][e["attr"]["kind"]] = hist["attr_kinds"].get(e["attr"]["kind"], 0) + 1
                hist["index_forms"][e.get("ix_form", "int")] = hist["index_forms"].get(e.get("ix_form", "int"), 0) + 1
            hist["ensure_rep"] += 1 if c["ensure_rep"] else 0
            hist["ensure_rep_boundary"] += 1 if c["ensure_rep"] and c["n_samples"] in domain_sizes(c) else 0
            hist["random_values"] += 1 if c["random_values"] else 0
            if c["random_values"] and c["high"] - c["low"] + 1 == max(
                    [c["cardinality"]] + [e["attr"]["c"] for e in st or [] if e["attr"]["kind"] == "card"]):
                hist["random_values_tight_bounds"] += 1
            hist["n_features"][c["n_features"]] = hist["n_features"].get(c["n_features"], 0) + 1
            b = "%d-%d" % (c["n_samples"] // 10 * 10, c["n_samples"] // 10 * 10 + 9)
            hist["n_samples_bucket"][b] = hist["n_samples_bucket"].get(b, 0) + 1
            if not r["ok"]:
                hist["impl_errors"] += 1
                direct[i].append(("generate_data terminates normally on valid arguments", r["error"]))
                continue
            hist["rng_calls"] += len(r["trace"])
            if r["dtype"] != "int32":
                direct[i].append(("the data set is an array of 32-bit integers", "dtype " + r["dtype"]))
            if r["shape"] != [c["n_samples"], c["n_features"]]:
                direct[i].append(("n_samples x n_features", "shape %s" % r["shape"]))
            if not r["same_seed_equal"]:
                direct[i].append(("the same seed and arguments reproduce the same data set",
                                  "used instance (after the earlier calls of the history) and fresh instance differ"
                                  if report[i].get("kind") == "hist" else "second/third run with the same seed differ"))
            X = r["X"]
            if not int_matrix(X):
                direct[i].append(("cells are integers", "non-integer cells"))
                continue
            if outside_int32(c):
                hist["outside_int32_precondition"] += 1      # numpy wraps silently; nothing is claimed, only counted
                continue
            exprs.append("let a := %s in (C19_enc (generate a %s), valid_dataset a %s, wf_structure a, call_pattern a)" % (
                args_lit(c), stream_lit(r["trace"]), zm(X)))
            idx.append(i)
        else:
            run.count_case(c, True)
            small = c["num_features"] <= 30
            if not r["ok"]:
                if not small:
                    hist["impl_errors"] += 1
                    direct[i].append(("the naive generator terminates normally for num_features >= 31", r["error"]))
                continue
            hist["rng_calls"] += len(r["trace"])
            s = stream_lit(r["trace"])
            if kind == "naive":
                exprs.append("C19_enc_naive (naive %d %d %s)" % (c["num_features"], c["size"], s))
            else:
                exprs.append("match naive %d %d %s with Ok (sa, t) => (0, csv_rows sa t, t) | Err e => "
                             "(1000 + Z.of_nat e, [], []) end" % (c["num_features"], c["size"], s))
            idx.append(i)

    vals = vlib.coq_eval("C19", HEADER, exprs, shard=24 if run.tier == "quick" else 60, jobs=14)

    broken = []          # (case index, description, is a call-pattern divergence) : replay did not reproduce, validator fine
    replayed = 0
    gen_in_scope = 0
    for i, v in zip(idx, vals):
        c, r = cases[i], res[i]
        kind = c.get("kind", "gen")
        if kind == "gen":
            status, Xm, valid, wf, pattern = v
            if wf != is_wf_structure(c) or not wf:
                raise vlib.Broken("harness:wf_structure", "python/Coq disagree, or generated structure not well-formed: %s"
                                  % json.dumps(c))
            gen_in_scope += 1
            same = status == 0 and Xm == r["X"]
            if same:
                replayed += 1
            if not valid:
                direct[i].append(("valid_dataset (C19_check_sound): shape / per-column domain of the declared feature at "
                                  "its declared index / ensure_rep", "validator rejects the implementation's data set; "
                                  "model replay %s" % ("equal" if same else "status %d" % status)))
            elif not same:
                kinds = [KIND.get((e.get("fn"), min(e.get("ans_ndim", 0), 2) if e.get("fn") == "randint" else 0), 9)
                         for e in r["trace"]]
                broken.append((i, "model status %d%s" % (status, "" if status else ", matrix differs"), kinds != pattern))
        else:
            status, rows, target = v
            if kind == "naive":
                if status != 0:
                    bad = naive_observable(c, r["sample"], r["target"])
                    if bad:
                        direct[i].append(("naive generator, decidable without the recorded draw: " + bad, "replay status %d" % status))
                    else:
                        broken.append((i, "naive model status %d: the drawn needle is not observable" % status, False))
                elif target != r["target"]:
                    direct[i].append(("C19_naive: label = 1 iff the drawn needle value (column 30) >= 40",
                                      "labels differ from the model's on the recorded draw"))
                elif not rows_agree(rows, r["sample"], drawn_matrix(r["trace"])):
                    direct[i].append(("C19_naive: returned sample = the draw (needle column: the draw or the label)",
                                      "sample differs"))
                else:
                    replayed += 1
            else:
                want_header = ["f%d" % j for j in range(c["num_features"])] + ["label"]
                try:
                    got = [[int(x) for x in row] for row in r["rows"]]
                except ValueError:
                    got = None
                if status != 0:
                    bad = ("data.csv has the requested columns f0..f{n-1},label and is the only file of the folder" if r["header"] != want_header or r["files"] != ["data.csv"] or got is None
                           else naive_observable(c, [g[:-1] for g in got], [g[-1] for g in got]))
                    if bad:
                        direct[i].append(("data_generator task, decidable without the recorded draw: " + bad,
                                          "replay status %d" % status))
                    else:
                        broken.append((i, "task model status %d: the drawn needle is not observable" % status, False))
                elif (r["header"] != want_header or got is None or r["files"] != ["data.csv"] or target != [g[-1] for g in got]
                      or not rows_agree([m[:-1] for m in rows], [g[:-1] for g in got], drawn_matrix(r["trace"]))):
                    direct[i].append(("data.csv = header f0..f{n-1},label and one row per sample with its label",
                                      "header %s... files %s" % (r["header"][:3], r["files"])))
                else:
                    replayed += 1

    failing = [i for i in sorted(direct, key=lambda j: (cells(cases[j]), j)) if direct[i]]
    for i in failing[:20]:
        clause, detail = direct[i][0]
        r = res[i]
        run.violation("counterexample", "C19 on implementation output", case=report[i],
                      impl={k: r.get(k) for k in ("dtype", "shape", "X", "error", "target", "header") if k in r},
                      model=detail, clause="; ".join(cl for cl, _ in direct[i]),
                      extra={"all_failing_cases": len(failing)})
    run.oblige("correspondence:same-seed-twice / dtype / shape on the real code",
               not any(direct[i] for i in direct), "%d failing cases" % len(failing))
    # Replay mismatches with every validator / direct clause check passing.  Quiet ONLY for a GLOBAL change of the RNG call
    # pattern: every generate_data case mismatches and each one's recorded call kinds differ from the model's call_pattern
    # (C19_call_pattern) -- a rewrite of the sampling core; the property is then decided by the validator (C19_check_sound).
    # Mismatches in only some cases, mismatches under the SAME call pattern, or a naive-generator run whose drawn needle is
    # not observable are a broken correspondence: VIOLATION ... no-failing-input-found naming the cases.
    gen_broken = [b for b in broken if cases[b[0]].get("kind", "gen") == "gen"]
    other_broken = [b for b in broken if cases[b[0]].get("kind", "gen") != "gen"]
    global_change = bool(gen_broken) and len(gen_broken) == gen_in_scope and all(b[2] for b in gen_broken)
    unexplained = other_broken + ([] if global_change else gen_broken)
    run.oblige("correspondence:trace replay reproduces the implementation's matrix (or: global RNG call-pattern change, every "
               "output accepted by the Coq validator and by the dtype/shape/same-seed checks)", not unexplained and not (broken and failing),
               "replayed exactly %d; mismatching %d (global pattern change: %s)%s" % (
                   replayed, len(broken), global_change, ("; first: " + broken[0][1]) if broken else ""))
    if unexplained and not failing:
        unexplained.sort(key=lambda b: (cells(cases[b[0]]), b[0]))
        i, why, _ = unexplained[0]
        run.violation("broken-obligation", "correspondence:trace-replay (model and code disagree on %d of %d replayed cases; "
                      "validators accept every output)" % (len(unexplained), len(idx)),
                      case=report[i], impl={"X": res[i].get("X"), "trace_fns": [e.get("fn") for e in res[i].get("trace", [])][:60]},
                      model=why, clause="none found: validator and direct clause checks accept every implementation output",
                      found_input=False,
                      extra={"mismatching_cases": [{"case": report[j], "why": w, "call_pattern_differs": pd}
                                                   for j, w, pd in unexplained[:10]], "count": len(unexplained)})
    if global_change and not failing:
        run.notes.append("trace replay not applicable to this RNG call pattern (global change: all %d generate_data cases "
                         "diverge in the kinds of RNG calls made); property decided by the Coq validator (C19_check_sound) on "
                         "%d outputs; dtype, shape and same-seed determinism (second call on the same instance after extra "
                         "draws, fresh instance with another constructor seed) passed on every case"
                         % (gen_in_scope, len(gen_broken)))
        run.cov["validator_only_first_case"] = {"case": report[gen_broken[0][0]], "why": gen_broken[0][1],
                                                "trace_fns": [e.get("fn") for e in res[gen_broken[0][0]].get("trace", [])][:40]}
    run.cov["replayed_exactly"] = replayed
    run.cov["validator_only_cases"] = len(gen_broken) if global_change else 0
    run.cov["replay_mismatches"] = len(broken)
    run.cov["validator_evaluated_on"] = sum(1 for i in idx if cases[i].get("kind", "gen") == "gen")
    hist["histories"] = n_hist
    hist["task_folder_histories"] = n_taskhist
    hist["task_folder_history_runs"] = sum(1 for rp in report if rp.get("kind") == "taskhist")
    hist["history_calls"] = sum(1 for rp in report if rp.get("kind") == "hist")
    run.cov["input_distribution"] = hist
    run.cov["exhaustive"] = False
    run.samples = [c for c in cases if c.get("kind", "gen") == "gen" and c["structure"]][:2] + \
                  [c for c in cases if c.get("kind") == "naive"][:1]
    run.assumptions += [
        "numpy's global RNG is an answer stream; assumed and CHECKED on every recorded answer: choice(a, size, replace=False) "
        "returns `size` distinct elements of a; choice(a, size, p) returns `size` elements of a; randint(n) in [0, n); "
        "shuffle permutes in place; randint(10, 100, size=(r, c)) returns an r x c matrix within [10, 100)",
        "the stream after np.random.seed(s) is a function of s (tested: three runs with the same seed from different "
        "generator states give equal arrays)",
        "k > 0, integer indices >= 0; frequencies are non-negative weights with positive sum",
        "STATED PRECONDITION: domain values inside int32 -- the code does not raise outside it, numpy wraps silently; such "
        "argument sets are generated (~3%), counted (input_distribution.outside_int32_precondition) and only checked for "
        "dtype/shape/determinism",
        "seed clause PARTIAL: 'the stream after np.random.seed(s) is a function of s' is an oracle assumption "
        "(C19_deterministic_partial quantifies over it), tested by three same-seed runs per case",
        "structure=None and structure=[] are modelled separately and behave alike",
    ]
    run.trusted += ["harness: tools/props/c19.py (generator, literal emission, decision logic), tools/impl/impl_c19.py "
                    "(np.random recorders around the real code)", "coqparse.py (reads the terms coqc prints)",
                    "modelled, not verified: numpy array semantics (np.append, astype('int32') on in-range values, "
                    "view semantics of sample[:, 30]), scipy.stats.norm.pdf (only shapes the probabilities), pandas to_csv"]
