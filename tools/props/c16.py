"""C16 \u2014 line parsers keep every field in its column and never mis-align."""
from __future__ import annotations

import json
import os

import sys

import vlib

sys.path.insert(0, os.path.join(vlib.VERIF, "tools", "impl"))
import impl_c16_scalegen as sg  # noqa: E402  (generator shared with the implementation driver)

LEVEL = "proof"
RULE = ("generated tables rendered per source format (csv-raw/ob-csv through the QUOTE_MINIMAL writer, ob-raw-dump tab-separated, "
        "ob-vw) and malformed lines -> generic_line_parser vs the Coq model, exact equality of field lists / error class; whole "
        "files through estimate_importances_minibatches (rows entering each mini-batch, invalid-line count); namespace map files "
        "through parse_namespace.  non-trivial = line with >= 2 fields containing an empty cell, a delimiter/quote, edge white "
        "space or non-ASCII; stream with accepted AND rejected lines; map with a re-declared id or an f32 type.  "
        "distinct = distinct canonical inputs.  scale family: 300k csv + 100k tsv + 100k vw DISTINCT generated lines (unique id cell, "
        "quoted cells with commas / doubled quotes / JSON) and one 300k-line streamed csv file, all in the one implementation process, "
        "each parsed row judged against the cells it was rendered from (counted in evaluations, one 'distinct' per format)")
THEOREMS = ["C16_generic_dispatch", "C16_tsv", "C16_tsv_any_terminator", "C16_tsv_physical_lines", "C16_tsv_prefix_refuted",
            "C16_tsv_prefix_refuted_blanks", "C16_csv", "C16_csv_any_terminator", "C16_csv_any_quoting",
            "C16_csv_any_quoting_physical_lines", "C16_csv_limit_exceeded", "C16_vw_prefix_is_of_joined_string", "C16_processed_rows",
            "C16_csv_physical_lines",
            "C16_csv_linebreak_hypothesis_needed", "C16_csv_naive_refuted", "C16_vw", "C16_vw_present", "C16_vw_absent",
            "C16_vw_never_rejected", "C16_reject_whole", "C16_accepted_rows_are_the_matching_rows", "C16_stream_csv", "C16_stream_tsv",
            "C16_namespace", "C16_namespace_line", "C16_namespace_underscore_quirk", "C16_namespace_other_counts", "C16_examples"]
MODEL_VO = ["IO/Str.vo", "IO/Csv.vo", "IO/Tsv.vo", "IO/Namespace.vo", "IO/Vw.vo", "IO/Accept.vo"]
HEADER = ("From Coq Require Import List NArith.\nFrom Outrank Require Import IO.Str IO.Csv IO.Tsv IO.Namespace IO.Vw IO.Accept.\n"
          "Import ListNotations.\nOpen Scope N_scope.")
SRC = {"ob-raw-dump": "ObRawDump", "ob-vw": "ObVw", "ob-csv": "ObCsv", "csv-raw": "CsvRaw"}

BASE = list("abcxyz019")
PUNCT = [" ", ",", '"', "'", "|", "-", "_", ":", ";", ".", "{", "}", "[", "]", "\\", "/", "="]
UNI = ["\u00e9", "\u00df", "\u20ac", "\u6f22", "\u5b57", "\U0001F600", "\u00a0", "\u2028", "\u2029", "\x85", "\x0b", "\x0c", "\x1c",
       "\x1f", "\u3000", "\u200b", "\ufeff", "\x00", "\x7f", "\u00ff", "\u2003", "\u1680"]
PATTERNS = ["", " a ", '""', '"', ",", 'a"b', '"a"', ' "a"', '"a" ', '{"k": "v,w", "n": [1, 2]}', "  ", "\t", " \tx\t ", "a,b",
            "''", '"a""b"', "-", "ab_", "x y", "|", "a|b", "\u00a0", "\u00e9 ", " \u6f22"]


def C(s):
    return [ord(c) for c in s]


def S(codes):
    return "".join(chr(c) for c in codes)


def gen_cell(rng, forbid="", maxcp=0x10FFFF, long_len=0):
    r = rng.random()
    if long_len:
        n = long_len
    elif r < 0.22:
        return ""
    elif r < 0.40:
        s = rng.choice(PATTERNS)
        return "".join(c for c in s if c not in forbid and ord(c) <= maxcp)
    elif r < 0.85:
        n = rng.randint(1, 6)
    else:
        n = rng.randint(7, 30)
    out = []
    for _ in range(n):
        q = rng.random()
        if q < 0.5:
            c = rng.choice(BASE)
        elif q < 0.8:
            c = rng.choice(PUNCT)
        elif q < 0.95:
            c = rng.choice(UNI)
        else:
            c = "\t"
        if c in forbid or ord(c) > maxcp:
            c = rng.choice(BASE)
        out.append(c)
    return "".join(out)


def gen_row(rng, ncols, forbid="", maxcp=0x10FFFF):
    return [gen_cell(rng, forbid, maxcp) for _ in range(ncols)]


def py_render_csv(row):
    """Harness mirror of the model's QUOTE_MINIMAL writer (the run checks model render = this = csv.writer)."""
    if row == [""]:
        return '""'
    out = []
    for f in row:
        if any(c in f for c in ',"\n\r'):
            out.append('"' + f.replace('"', '""') + '"')
        else:
            out.append(f)
    return ",".join(out)


def py_render_q(row, flags):
    """Mirror of the model's render_q: a field is quoted when its flag says so or when it must be."""
    if len(row) == 1 and row[0] == "":
        return '""'
    out = []
    for f, q in zip(row, flags):
        if q or any(c in f for c in ',"\n\r'):
            out.append('"' + f.replace('"', '""') + '"')
        else:
            out.append(f)
    return ",".join(out)


def seglit(segs):
    """[codes | ["rep", c, n]] -> Coq term (long runs are built inside Coq instead of being written out)"""
    parts = []
    for s in segs:
        if s and s[0] == "rep":
            parts.append("N.iter %d (cons %d) []" % (s[2], s[1]))
        else:
            parts.append(nl(s))
    return "(" + " ++ ".join(parts) + ")"


def segcodes(segs):
    out = []
    for s in segs:
        out += [s[1]] * s[2] if (s and s[0] == "rep") else list(s)
    return out


FIELD_LIMIT = 131072


def gen_limit_cases(thorough):
    """fields at / beyond csv.field_size_limit(): one character too many -> csv.Error (also out of the streaming loop)"""
    out = []
    for n, fam in ((FIELD_LIMIT + 1, "limit-over"),) + (((FIELD_LIMIT, "limit-at"),) if thorough else ()):
        for segs in ([C("x,"), ["rep", 97, n], C(",y\n")], [C('x,"'), ["rep", 97, n], C('",y\n')]):
            c = line_case("csv-raw", "", ["a", "b", "c"], family=fam)
            c["line"] = segcodes(segs)
            c["line_segs"] = segs
            out.append(c)
    segs = [C("a,b\nx,y\np,"), ["rep", 97, FIELD_LIMIT + 1], C("\nz,w\n")]
    out.append({"kind": "stream", "source": "csv-raw", "delim": C(","), "fw": None, "header": [C("a"), C("b")], "text": segcodes(segs),
                "text_segs": segs, "bsize": 1, "encoding": "utf-8", "gz": False, "family": "limit-over-stream",
                "line_kinds": ["good", "over-limit", "good"]})
    return out


def names(rng, k):
    pool = ["label", "f1", "f2", "user_id", "ts", "a", "b", "c", "price", "x_1", "cat", "geo", "dev", "q"]
    rng.shuffle(pool)
    return pool[:k] if k <= len(pool) else pool + ["n%d" % i for i in range(k - len(pool))]


# ------------------------------------------------------------------ VW

VW_IDS = ["a", "b", "c", "ab", "x1", "\u00e9", "f_1", "U", "zz", "0"]
VW_TOKENS = ["ab_val", "x", "xy", "a", "\u00e9\u20ac", "k:1.5", "ab_c-d", '"q"', "a,b", "ab_\u00a0x", "ab\tx", "ab_1", "zz_\u6f22", "ab", "abc", "-",
             "__", "a_", "12", "x1_\U0001f600"]
VW_LABELS = ["1", "-1", "0", "0.5", "1:0.3", "\u00e9", "+1"]


def gen_fw(rng):
    k = rng.randint(1, 6)
    ids = rng.sample(VW_IDS, k)
    fw = [[i, "feat_" + i] for i in ids]
    if k >= 2 and rng.random() < 0.1:
        fw[1][1] = fw[0][1]          # two ids feeding one feature
    header = ["label"] + [f for _, f in fw]
    r = rng.random()
    if r < 0.15:
        h = header[1:]
        rng.shuffle(h)
        header = ["label"] + h
    elif r < 0.25:
        header.append("not_in_map")
    return fw, header


def gen_vw_line(rng, fw, canonical):
    ids = [i for i, _ in fw]
    nss_ids = rng.sample(ids, rng.randint(0, len(ids)))
    if rng.random() < 0.12:
        nss_ids.insert(rng.randint(0, len(nss_ids)), rng.choice(["unk", "Q", "a_b"]))
    if nss_ids and rng.random() < 0.1:
        nss_ids.append(rng.choice(nss_ids))
    gap = (lambda: 0) if canonical else (lambda: rng.choice([0, 0, 0, 1, 2]))
    parts = []
    head = rng.choice(VW_LABELS)
    if rng.random() < 0.25:
        for e in rng.sample(["2.0", "0.5", "'tag", "1"], rng.randint(1, 2)):
            head += " " * (1 + gap()) + e
    head += " " * (1 if canonical else rng.choice([0, 1, 1, 2]))
    parts.append(head)
    for j, i in enumerate(nss_ids):
        p = i
        for _ in range(rng.choice([0, 1, 1, 1, 2, 2, 3, 4])):
            p += " " * (1 + gap()) + rng.choice(VW_TOKENS)
        last = j == len(nss_ids) - 1
        p += " " * ((0 if last else 1) if canonical else rng.choice([0, 1, 1, 2]))
        parts.append(p)
    return "|".join(parts) + "\n"


# ------------------------------------------------------------------ case generators

def line_case(source, line, header, fw=None, delim=None, family="", expect=None):
    if delim is None:
        delim = "\t" if source == "ob-raw-dump" else ","
    return {"kind": "line", "source": source, "delim": C(delim), "fw": None if fw is None else [[C(a), C(b)] for a, b in fw],
            "header": [C(h) for h in header], "line": C(line), "family": family,
            "expect": None if expect is None else [None if x is None else C(x) for x in expect]}


def gen_wellformed_lines(rng, n, long_len):
    cases = []
    for i in range(n):
        k = rng.choice([1, 1, 2, 3, 3, 4, 5, 8])
        fam = rng.choice(["csv", "csv", "csvq", "tsv", "tsv", "vw", "vw"])
        if fam == "csv":
            row = gen_row(rng, k, forbid="\n\r")
            if i < 2 and long_len:
                row[rng.randrange(k)] = gen_cell(rng, "\n\r", long_len=long_len)
            src = rng.choice(["csv-raw", "ob-csv"])
            term = rng.choice(["\n", "\n", "\n", "\r\n", ""])
            if row == [""] and term == "":
                term = "\n"
            cases.append({"kind": "writer", "row": [C(x) for x in row], "family": "wf-csv"})
            cases.append(line_case(src, py_render_csv(row) + term, names(rng, k), family="wf-csv", expect=row))
        elif fam == "csvq":
            row = gen_row(rng, k, forbid="\n\r")
            mode = rng.random()
            flags = [True] * k if mode < 0.35 else [rng.random() < 0.5 for _ in range(k)]
            src = rng.choice(["csv-raw", "ob-csv"])
            term = rng.choice(["\n", "\n", "\n", "\r\n", ""])
            cases.append({"kind": "writer", "row": [C(x) for x in row], "flags": flags, "family": "wf-csvq"})
            cases.append(line_case(src, py_render_q(row, flags) + term, names(rng, k), family="wf-csvq", expect=row))
        elif fam == "tsv":
            delim = rng.choice(["\t", "\t", "\t", "\t", ";", " ", ","])
            row = gen_row(rng, k, forbid="\n\r" + delim)
            if 2 <= i < 4 and long_len:
                row[rng.randrange(k)] = gen_cell(rng, "\n\r" + delim, long_len=long_len)
            term = rng.choice(["\n", "\n", "\n", "\r\n", ""])
            cases.append(line_case("ob-raw-dump", delim.join(row) + term, names(rng, k), delim=delim, family="wf-tsv", expect=row))
        else:
            fw, header = gen_fw(rng)
            canonical = rng.random() < 0.5
            cases.append(line_case("ob-vw", gen_vw_line(rng, fw, canonical), header, fw=fw, delim=" ", family="wf-vw"))
    return cases


MAL_ALPHA = ['"', '"', ",", ",", "a", "b", " ", "\n", "\r", "\u00e9", "\t", "|", "-", "_"]


def gen_malformed_lines(rng, n):
    cases = []
    fixed = ["", "\n", "\r\n", '"', '""', '"""', '"a', 'a"', 'a"b,c', '"a"b,c\n', '"a" ,b', ' "a",b', 'a\nb', 'a\rb', '"a\n', 'a,\n',
             '"a""', ',', ',,\n', '"a,b', 'a,"b', '"a","b', '"a"\n\n', '"a"\nb', "\t", " ", "a\n\n", '"\n"\n', "\r", 'a\r\n\r\n',
             '""a', '"",""\n', "a\x00b,c\n"]
    for j in range(n):
        s = fixed[j] if j < len(fixed) else "".join(rng.choice(MAL_ALPHA) for _ in range(rng.randint(0, 12)))
        src = rng.choice(["csv-raw", "ob-csv"]) if (j < len(fixed) or rng.random() < 0.6) else rng.choice(["ob-raw-dump", "ob-vw"])
        if src == "ob-vw":
            fw, header = gen_fw(rng)
            cases.append(line_case(src, s.replace(",", "|"), header, fw=fw, delim=" ", family="mal-vw"))
        elif src == "ob-raw-dump":
            cases.append(line_case(src, s.replace(",", "\t"), names(rng, 2), family="mal-tsv"))
        else:
            cases.append(line_case(src, s, names(rng, 2), family="mal-csv"))
    # irregular VW lines built from VW-ish pieces
    pieces = ["|", "|", " ", " ", "a", "b", "ab_x", "-", "\t", "\u00a0", "1", "\n", "ab", "||", "  ", "a_b", "\u00e9"]
    for j in range(n // 4):
        fw, header = gen_fw(rng)
        s = "".join(rng.choice(pieces) for _ in range(rng.randint(0, 14)))
        cases.append(line_case("ob-vw", s, header, fw=fw, delim=" ", family="mal-vw"))
    cases.append({"kind": "line", "source": "no-such-source", "delim": C(","), "fw": None, "header": [C("a")], "line": C("a,b\n"),
                  "family": "dispatch", "expect": None})
    return cases


def exhaustive_lines():
    """every string up to length 5 over a small alphabet, per format (thorough tier)"""
    import itertools
    out = []
    fw = [["a", "feat_a"], ["b_", "feat_b"]]
    for src, alpha, kw in (("csv-raw", ['"', ",", "a", "\n", "\r", " "], {}),
                           ("ob-raw-dump", ["\t", "a", " ", "\n", "\r"], {}),
                           ("ob-vw", ["|", " ", "a", "b_", "\t"], {"fw": fw, "delim": " "})):
        hdr = ["label", "feat_a", "feat_b"] if src == "ob-vw" else ["x", "y"]
        for n in range(0, 6):
            for tup in itertools.product(alpha, repeat=n):
                out.append(line_case(src, "".join(tup), hdr, family="exh-" + src, **kw))
    return out


def gen_stream(rng, long_rows=0):
    source = rng.choice(["csv-raw", "ob-csv", "ob-raw-dump", "ob-raw-dump", "ob-vw"])
    encoding = "latin1" if (source in ("csv-raw", "ob-csv") and rng.random() < 0.5) else "utf-8"
    maxcp = 255 if encoding == "latin1" else 0x10FFFF
    fw = None
    if source == "ob-vw":
        fw, header = gen_fw(rng)
        delim = " "
    else:
        header = names(rng, rng.choice([1, 2, 3, 3, 4, 5]))
        delim = "\t" if source == "ob-raw-dump" else ","
    k = len(header)
    nl = long_rows or rng.randint(0, 12)
    lines = []
    kinds = []
    for _ in range(nl):
        r = rng.random()
        term = "\r\n" if rng.random() < 0.15 else ("\r" if rng.random() < 0.03 else "\n")
        if source == "ob-vw":
            if r < 0.8:
                body = gen_vw_line(rng, fw, rng.random() < 0.5)[:-1]
                kinds.append("good")
            elif r < 0.9:
                body = ""
                kinds.append("blank")
            else:
                body = "".join(rng.choice(["|", " ", "a", "ab_x", "\t"]) for _ in range(rng.randint(0, 8)))
                kinds.append("junk")
        else:
            forbid = "\n\r" + (delim if source == "ob-raw-dump" else "")
            if r < 0.65:
                kk = k
                kinds.append("good")
            elif r < 0.85:
                kk = max(1, k + rng.choice([-2, -1, 1, 2]))
                kinds.append("wrong-count" if kk != k else "good")
            elif r < 0.92:
                kk = 0
                kinds.append("blank")
            else:
                kk = -1
                kinds.append("junk")
            if kk == 0:
                body = ""
            elif kk == -1:
                body = "".join(rng.choice(['"', ",", "a", " ", "\t", "\u00e9" if maxcp >= 233 else "e"]) for _ in range(rng.randint(1, 10)))
            else:
                row = gen_row(rng, kk, forbid, maxcp)
                body = delim.join(row) if source == "ob-raw-dump" else py_render_csv(row)
        lines.append(body + term)
    if lines and rng.random() < 0.2:
        lines[-1] = lines[-1].rstrip("\r\n")            # last line without terminator
    htext = (delim if source != "ob-vw" else ",").join(header) + rng.choice(["\n", "\n", "\r\n"])
    text = htext + "".join(lines)
    return {"kind": "stream", "source": source, "delim": C(delim), "fw": None if fw is None else [[C(a), C(b)] for a, b in fw],
            "header": [C(h) for h in header], "text": C(text), "bsize": rng.choice([1, 1, 2, 3]) if not long_rows else 1500,
            "encoding": encoding, "gz": rng.random() < 0.25, "family": "stream-" + source, "line_kinds": kinds}


NS_IDS = ["a", "b", "c", "ab", "x1", "f_1", "a_b", "\u00e9", "", "U", "_", "zz"]
NS_FEATS = ["feat_a", "price", "ctr", "user id", "\u00e9\u20ac", "", "f", "geo_country", "x"]
NS_TYPES = ["f32", "f32", "generic", "i32", "F32", "f32 ", " f32", "", "string", "f64"]


def gen_namespace(rng):
    n = rng.randint(0, 10)
    lines = []
    kinds = []
    for _ in range(n):
        r = rng.random()
        i, f = rng.choice(NS_IDS), rng.choice(NS_FEATS)
        if r < 0.45:
            body = "%s,%s,%s" % (i, f, rng.choice(NS_TYPES))
            kinds.append("3")
        elif r < 0.75:
            body = "%s,%s" % (i, f)
            kinds.append("2_" if "_" in i else "2")
        elif r < 0.82:
            body = i
            kinds.append("1")
        elif r < 0.9:
            body = "%s,%s,f32,extra" % (i, f)
            kinds.append("4")
        elif r < 0.95:
            body = ""
            kinds.append("blank")
        else:
            body = rng.choice(["  ", "\t", " %s,%s,f32 " % (i, f), "\u00a0%s,%s\u2003" % (i, f)])
            kinds.append("padded")
        lines.append(body + ("\r\n" if rng.random() < 0.1 else "\n"))
    if lines and rng.random() < 0.2:
        lines[-1] = lines[-1].rstrip("\r\n")
    return {"kind": "namespace", "text": C("".join(lines)), "family": "namespace", "line_kinds": kinds}


def gen_headers(rng, n):
    out = []
    for _ in range(n):
        nm = names(rng, rng.randint(1, 6))
        term = rng.choice(["\n", "\r\n"])
        body = "".join(",".join(gen_row(rng, len(nm), "\n\r", 255)) + "\n" for _ in range(rng.randint(0, 2)))
        out.append({"kind": "csvheader", "text": C(",".join(nm) + term + body), "family": "header-csv-raw", "simple": True, "names": nm})
        out.append({"kind": "obheader", "text": C("\t".join(nm) + rng.choice(["\n", "", "\r\n"])), "family": "header-ob-raw", "simple": True,
                    "names": nm})
        out.append({"kind": "desc", "features": [[C(x), C(rng.choice(["float", "Float32", "string", "int", ""]))] for x in nm],
                    "family": "header-ob-csv", "names": nm})
    # exotic header lines: recorded, never a verdict (header derivation is outside the property's observable)
    for t in ['"a,b",c\n', " a,b \n", "a,,b\n", "\n", "a\tb,c\n"]:
        out.append({"kind": "csvheader", "text": C(t), "family": "header-csv-raw", "simple": False})
    for t in [" a\tb \n", "a\t\tb\n", "\n", "a\nb\n"]:
        out.append({"kind": "obheader", "text": C(t), "family": "header-ob-raw", "simple": False})
    return out


SCALE_FORMATS = (("csv", 300000), ("tsv", 100000), ("vw", 100000), ("stream", 300000))


def gen_scale(rng):
    """Scale family: n DISTINCT well-formed lines per format parsed in ONE implementation process, judged against the
    cells they were rendered from (closed form of the model by C16_csv / C16_tsv / C16_vw), plus a sample of the very
    same lines as ordinary cases so that the closed form is cross-checked against the Coq model in this run."""
    cases, sample = [], []
    for fmt, n in SCALE_FORMATS:
        seed = rng.randrange(1, 1 << 30)
        sc = {"kind": "scale", "format": fmt, "seed": seed, "n": n, "family": "scale-" + fmt}
        if fmt == "stream":
            sc["bsize"] = 50000
        cases.append(sc)
        idx = list(range(40)) + [rng.randrange(n) for _ in range(60)] + [n - 1, sg.REJECT_EVERY]
        for i in idx:
            line, exp = sg.gen(fmt, seed, i)
            src = sg.source_of(fmt, i)
            if fmt in ("csv", "stream"):
                cells = sg.cells("user" if fmt == "csv" else "srow", seed, i)
                if exp is None:
                    cells = cells[:4]
                sample.append({"kind": "writer", "row": [C(x) for x in cells], "family": "scale-sample"})
                sample.append(line_case(src, line, sg.CSV_HEADER, family="scale-sample", expect=cells))
            elif fmt == "tsv":
                sample.append(line_case(src, line, sg.CSV_HEADER, family="scale-sample", expect=exp))
            else:
                sample.append(line_case(src, line, sg.VW_HEADER, fw=sg.VW_FW, delim=" ", family="scale-sample", expect=exp))
    return cases, sample


def seq_case_from(sc, first):
    """the mis-parsed line preceded by the line it was confused with, as a two-line replay"""
    cw = first.get("confused_with")
    fmt = sc["format"]
    if not cw or first.get("line") is None:
        return None
    vw = fmt == "vw"
    return {"kind": "seq", "sources": [cw["source"], first["source"]], "lines": [cw["line"], first["line"]],
            "delim": C({"csv": ",", "stream": ",", "tsv": "\t", "vw": " "}[fmt]),
            "fw": [[C(a), C(b)] for a, b in sg.VW_FW] if vw else None,
            "header": [C(h) for h in (sg.VW_HEADER if vw else sg.CSV_HEADER)], "family": "scale-pair",
            "from_scale": {"format": fmt, "seed": sc["seed"], "n": sc["n"], "index_of_earlier_line": cw["index"], "index_of_misparsed_line": first["index"]}}


def load_corpus(pid):
    d = os.path.join(vlib.VERIF, "corpus", pid)
    out = []
    if os.path.isdir(d):
        for f in sorted(os.listdir(d)):
            if f.endswith(".json"):
                out.append(json.load(open(os.path.join(d, f))))
    return out


# ------------------------------------------------------------------ Coq side

def nl(codes):
    return "[" + "; ".join("%d" % c for c in codes) + "]"


def nll(css):
    return "[" + "; ".join(nl(c) for c in css) + "]"


def fwlit(fw):
    return "[" + "; ".join("(%s, %s)" % (nl(a), nl(b)) for a, b in (fw or [])) + "]"


def model_expr(c):
    k = c["kind"]
    if k == "line":
        src = SRC.get(c["source"], "UnknownSource")
        d = c["delim"][0] if len(c["delim"]) == 1 else 0
        line = seglit(c["line_segs"]) if c.get("line_segs") else nl(c["line"])
        return "generic_line_parser %s %d %s %s %s" % (src, d, fwlit(c["fw"]), nll(c["header"]), line)
    if k == "writer":
        if c.get("flags") is not None:
            return "Csv.render_q [%s]" % "; ".join("(%s, %s)" % (vlib.blit(q), nl(f)) for q, f in zip(c["flags"], c["row"]))
        return "Csv.render %s" % nll(c["row"])
    if k == "stream":
        src = SRC[c["source"]]
        return ("let s := run_loop (generic_line_parser %s %d %s %s) %d%%nat %d%%nat %s in (batches_seen %d%%nat s, invalid s, crashed s)"
                % (src, c["delim"][0], fwlit(c["fw"]), nll(c["header"]), len(c["header"]), c["bsize"], seglit(c["text_segs"]) if c.get("text_segs") else nl(c["text"]), c["bsize"]))
    if k == "namespace":
        return "let r := parse_namespace %s in (fst r, snd r, vw_header (snd r))" % nl(c["text"])
    if k == "csvheader":
        return "csv_raw_header %s" % nl(c["text"])
    if k == "obheader":
        return "read_column_names %s" % nl(c["text"])
    if k == "isspace":
        return "space_chars"
    if k == "seq":
        d = c["delim"][0]
        return "[" + "; ".join("generic_line_parser %s %d %s %s %s" % (SRC.get(s, "UnknownSource"), d, fwlit(c["fw"]), nll(c["header"]), nl(ln))
                               for s, ln in zip(c["sources"], c["lines"])) + "]"
    return None


def dec_row(v):
    return [None if x is None else list(x[1]) for x in v]


def dec_outcome(v):
    if v[0] == "Row":
        return {"row": dec_row(v[1])}
    if v[0] == "ParseError":
        return {"err": "csv.Error"}
    return {"err": "NotImplementedError"}


def show(x):
    """code-point lists -> readable strings for the replay file (a list of code-point lists / None is a row)"""
    if x is None:
        return None
    if isinstance(x, dict):
        return {k: show(v) for k, v in x.items()}
    if isinstance(x, (list, tuple)):
        if x and all(isinstance(i, int) for i in x):
            return S(x)
        if x and all(i is None or (isinstance(i, (list, tuple)) and all(isinstance(j, int) for j in i)) for i in x):
            return [None if i is None else S(i) for i in x]
        return [show(i) for i in x]
    return x


def compare(c, r, v):
    """-> None or (obligation, clause, impl_obs, model_obs, informational?)"""
    k = c["kind"]
    if "harness_err" in r:
        return ("harness:impl-driver", r["harness_err"], None, None, False)
    if k == "line":
        m = dec_outcome(v)
        g = r["generic"]
        if g != m:
            if "row" in g and "row" in m and len(g["row"]) != len(m["row"]):
                cl = "field count differs: the line is mis-aligned (impl %d fields, model %d)" % (len(g["row"]), len(m["row"]))
            elif "row" in g and "row" in m:
                j = [i for i in range(len(m["row"])) if g["row"][i] != m["row"][i]][0]
                cl = "field %d is not returned as written" % j
            else:
                cl = "outcome class differs (row vs error)"
            return ("correspondence:generic_line_parser[%s] = model" % c["source"], cl, g, m, False)
        sp = r["specific"]
        if "none" not in sp and sp != g:
            return ("correspondence:dispatch of generic_line_parser[%s] = the format's parse function" % c["source"],
                    "generic_line_parser and the specific parser disagree", {"generic": g, "specific": sp}, m, False)
        if c.get("expect") is not None and "row" in m and m["row"] != c["expect"]:
            return ("harness:expected-row", "model row differs from the generated table row (harness mirror of the renderer is off)",
                    g, m, False)
        return None
    if k == "writer" and c.get("flags") is not None:
        mirror = C(py_render_q([S(x) for x in c["row"]], c["flags"]))
        got = {kk: r[kk] for kk in ("all", "nonnumeric") if kk in r}
        if list(v) != mirror or any(x != mirror for x in got.values()):
            return ("correspondence:QUOTE_MINIMAL writer model = csv.writer", "record with optional quoting differs (model render_q / harness "
                    "mirror / csv.writer QUOTE_ALL, QUOTE_NONNUMERIC)", got, list(v), False)
        return None
    if k == "writer":
        if r["text"] != list(v) or S(r["text"]) != py_render_csv([S(x) for x in c["row"]]):
            return ("correspondence:QUOTE_MINIMAL writer model = csv.writer", "rendered record differs", r["text"], list(v), False)
        return None
    if k == "stream":
        em, inv, crashed = v
        m = {"batches": [[dec_row(row) for row in b] for b in em], "invalid": inv, "err": "csv.Error" if crashed else None}
        i = {"batches": r["batches"], "invalid": r["invalid"], "err": r["err"]}
        if i != m:
            if i["err"] != m["err"]:
                cl = "the loop terminates differently (exception)"
            elif i["batches"] != m["batches"]:
                fi = [row for b in i["batches"] for row in b]
                fm = [row for b in m["batches"] for row in b]
                if len(fi) != len(fm):
                    cl = "a different set of lines enters the mini-batches (acceptance by field count)"
                elif fi != fm:
                    cl = "a row enters the mini-batch with different cells"
                else:
                    cl = "rows are grouped into mini-batches differently"
            else:
                cl = "invalid-line counter differs"
            return ("correspondence:streaming loop validity test[%s] = model" % c["source"], cl, i, m, False)
        return None
    if k == "namespace":
        fl, mp, hdr = v
        m = {"floats": sorted(list(x) for x in fl), "map": [[list(a), list(b)] for a, b in mp], "columns": [list(x) for x in hdr]}
        if r["err"] is not None:
            return ("correspondence:parse_namespace = model", "reader raised " + r["err"], r, m, False)
        i = {"floats": r["floats"], "map": r["map"], "columns": r["columns"]}
        if i != m:
            cl = ("id -> feature mapping differs" if i["map"] != m["map"] else
                  "float-typed feature set differs" if i["floats"] != m["floats"] else "VW column order differs")
            return ("correspondence:parse_namespace = model", cl, i, m, False)
        if r["fw"] != r["map"] or r["types"] != r["floats"]:
            return ("correspondence:parse_ob_vw_feature_information passes the parsed map on", "fw_map / column_types differ from parse_namespace",
                    r, m, False)
        return None
    if k in ("csvheader", "obheader"):
        m = [list(x) for x in v]
        if r["err"] is not None or r["columns"] != m:
            return ("header-reader[%s]" % k, "header columns differ", r, m, not c.get("simple"))
        if c.get("simple") and m != [C(x) for x in c["names"]]:
            return ("harness:expected-header", "model header differs from generated names", r, m, False)
        return None
    if k == "desc":
        if r["err"] is not None or r["columns"] != [C(x) for x in c["names"]]:
            return ("header-reader[desc]", "dataset_desc.json column names not returned in order", r, c["names"], False)
        return None
    if k == "isspace":
        if sorted(r["codes"]) != sorted(v):
            return ("model:space_chars = {c | chr(c).isspace()}", "white-space set of str.strip() differs from the model", r["codes"], list(v), False)
        return None
    if k == "seq":
        ms = [dec_outcome(x) for x in v]
        if r["rows"] != ms:
            j = [i for i in range(len(ms)) if r["rows"][i] != ms[i]][0]
            return ("correspondence:generic_line_parser[%s] = model on a sequence of lines in one process" % c["sources"][j],
                    "line %d of the sequence is not parsed into ITS fields (the result depends on the lines parsed before)" % j,
                    r["rows"], ms, False)
        return None
    if k == "scale":
        fmt, n = c["format"], c["n"]
        exp_rows = n - len(range(0, n, sg.REJECT_EVERY)) if fmt == "stream" else None
        problems = []
        if r["mismatches"]:
            problems.append("%d of %d distinct well-formed lines are not parsed into the cells they were rendered from" % (r["mismatches"], n))
        if fmt == "stream":
            if r.get("err"):
                problems.append("the loop raised " + r["err"])
            if r["rows_seen"] != exp_rows:
                problems.append("%d rows entered the mini-batches, expected %d" % (r["rows_seen"], exp_rows))
            if r["invalid"] != n - exp_rows:
                problems.append("invalid counter %d, expected %d" % (r["invalid"], n - exp_rows))
        if problems:
            return ("correspondence:scale[%s] every parsed row = the cells the line was rendered from" % fmt, "; ".join(problems),
                    {kk: vv for kk, vv in r.items() if kk != "first"} | {"first_misparsed": r["first"][:2]},
                    "closed form of the model (C16_csv / C16_tsv / C16_vw / C16_stream_csv): the generated cells", False)
        return None
    if k == "dispatch":
        exp = {"ob-raw-dump": "parse_ob_raw_feature_information", "ob-vw": "parse_ob_vw_feature_information",
               "ob-csv": "parse_csv_with_description_information", "csv-raw": "parse_csv_raw"}.get(S(c["source"]))
        ok = (r["called"] == [exp] and r["err"] is None) if exp else (r["called"] == [] and r["err"] == "NotImplementedError")
        if not ok:
            return ("dispatch:get_dataset_info", "data source name dispatched differently", r, exp, True)
        return None
    return None


def evaluate(cases, tag="C16"):
    """Run implementation and model on the cases; -> list of compare() results."""
    for c in cases:                                  # compact (replayed) cases carry only the segments
        if c.get("line_segs") and not c.get("line"):
            c["line"] = segcodes(c["line_segs"])
        if c.get("text_segs") and not c.get("text"):
            c["text"] = segcodes(c["text_segs"])
    work = os.path.join(vlib.CACHE, "c16_%d" % os.getpid())
    res = vlib.run_impl("impl_c16.py", {"cases": cases, "workdir": work}, env_extra={"PYTHONUTF8": "1"})["results"]
    exprs, idx = [], []
    for i, c in enumerate(cases):
        e = model_expr(c)
        if e is not None:
            exprs.append(e)
            idx.append(i)
    vals = vlib.coq_eval(tag, HEADER, exprs, shard=250)
    mv = {i: v for i, v in zip(idx, vals)}
    return [compare(c, r, mv.get(i)) for i, (c, r) in enumerate(zip(cases, res))], res


TEXT_KEY = {"line": "line", "stream": "text", "namespace": "text"}


def shrink(case, obligation, budget=4, seconds=60):
    """Delete chunks of the input text while the same correspondence keeps failing (best effort, time-bounded)."""
    import time
    key = TEXT_KEY.get(case["kind"])
    if key is None:
        return case
    t0 = time.time()
    cur = dict(case)
    cur.pop("expect", None)
    cur.pop("line_kinds", None)
    for _ in range(budget):
        t = cur[key]
        n = len(t)
        if n <= 1 or time.time() - t0 > seconds:
            break
        cands = []
        for size in sorted({max(1, n // 2), max(1, n // 4), max(1, n // 8), 1}, reverse=True):
            for start in range(0, n, size):
                if len(cands) >= 48:
                    break
                t2 = t[:start] + t[start + size:]
                if t2 != t:
                    c2 = dict(cur)
                    c2[key] = t2
                    cands.append(c2)
        try:
            outs, _ = evaluate(cands, tag="C16s")
        except vlib.Broken:
            break
        hit = [c2 for c2, o in zip(cands, outs) if o is not None and o[0] == obligation and not o[4]]
        if not hit:
            break
        cur = min(hit, key=lambda c2: len(c2[key]))
    return cur


def nontrivial(c):
    k = c["kind"]
    if k == "line":
        s = S(c["line"])
        if c["family"].startswith(("mal", "exh", "limit")):
            return len(s) > 0
        ex = c.get("expect")
        if ex is not None:
            cells = ["" if x is None else S(x) for x in ex]
            return len(cells) >= 2 and any(x == "" or x != x.strip() or any(ch in x for ch in ',"\t|') or any(ord(ch) > 127 for ch in x)
                                           for x in cells)
        return s.count("|") >= 2
    if k == "stream":
        ks = set(c.get("line_kinds", []))
        return "good" in ks and len(ks) >= 2
    if k == "namespace":
        ks = c.get("line_kinds", [])
        return len(ks) >= 2 and ("3" in ks)
    if k in ("scale", "seq"):
        return True
    return False


def check(run, replay):
    ok, log = vlib.build(MODEL_VO)
    run.oblige("build:model IO/{Str,Csv,Tsv,Namespace,Vw,Accept}.vo", ok, "" if ok else log[-1500:])
    if not ok:
        raise vlib.Broken("build:IO models", log)
    vlib.standard_proof_phase(run, ["Props/C16.vo"], "Outrank.Props.C16", THEOREMS)

    thorough = run.tier == "thorough"
    if replay is not None:
        cases = [replay["case"]]
    else:
        rng = run.rng
        cases = load_corpus("C16")
        cases.append({"kind": "isspace", "family": "isspace"})
        for s in ["ob-raw-dump", "ob-vw", "ob-csv", "csv-raw", "tsv", ""]:
            cases.append({"kind": "dispatch", "source": C(s), "family": "dispatch"})
        cases += gen_wellformed_lines(rng, 6000 if thorough else 900, 100000 if thorough else 20000)
        cases += gen_malformed_lines(rng, 4000 if thorough else 500)
        cases += gen_limit_cases(thorough)
        for _ in range(1200 if thorough else 160):
            cases.append(gen_stream(rng))
        if thorough:
            cases += exhaustive_lines()
            cases.append(gen_stream(rng, long_rows=1300))        # remainder > 2**10 rows: the tail batch is observed too
        for _ in range(1500 if thorough else 200):
            cases.append(gen_namespace(rng))
        cases += gen_headers(rng, 60 if thorough else 12)
        scale_cases, scale_sample = gen_scale(rng)
        cases += scale_sample + scale_cases

    outs, res = evaluate(cases)
    fams = {}
    info = {}
    obligations = {}
    first = {}
    for c, o in zip(cases, outs):
        fam = c.get("family", c["kind"])
        fams[fam] = fams.get(fam, 0) + 1
        canon = {k: v for k, v in c.items() if k not in ("expect", "line_kinds", "family", "names", "simple", "line_segs", "text_segs")}
        if c.get("line_segs") or c.get("text_segs"):
            canon = {"kind": c["kind"], "segs": c.get("line_segs") or c.get("text_segs")}
        run.count_case(canon, nontrivial(c))
        if o is None:
            continue
        ob, clause, impl, model, informational = o
        if informational:
            info[ob] = info.get(ob, 0) + 1
            continue
        obligations[ob] = obligations.get(ob, 0) + 1
        size = (0 if fam.startswith("wf-") else 1, len(c.get(TEXT_KEY.get(c["kind"], ""), [])))
        if ob not in first or size < first[ob][4]:
            first[ob] = (c, clause, impl, model, size)
    names_ = ["correspondence:generic_line_parser = model (csv-raw, ob-csv, ob-raw-dump, ob-vw; well-formed and malformed lines)",
              "correspondence:QUOTE_MINIMAL writer model = csv.writer",
              "correspondence:streaming loop validity test = model",
              "correspondence:parse_namespace = model",
              "model:space_chars = str.isspace; header readers on plain headers",
              "correspondence:scale — 300k csv / 100k tsv / 100k vw distinct lines and one 300k-line streamed file in ONE process: "
              "every parsed row = the cells the line was rendered from (closed form cross-checked against Coq on sampled lines)"]
    keys = ["correspondence:generic_line_parser", "correspondence:QUOTE_MINIMAL", "correspondence:streaming", "correspondence:parse_",
            ("model:", "header-reader", "harness:", "correspondence:dispatch", "dispatch:"), "correspondence:scale"]
    for nm, key in zip(names_, keys):
        bad = sum(n for ob, n in obligations.items() if ob.startswith(key))
        run.oblige(nm, bad == 0, "" if bad == 0 else "%d cases disagree" % bad)
    shrunk = 0
    for ob, (c, clause, impl, model, _) in first.items():
        if ob.startswith("harness:") or ob.startswith("model:"):
            run.violation("broken-obligation", ob, case=show(c), impl=show(impl), model=show(model), clause=clause, found_input=False)
            continue
        if c["kind"] == "scale":
            # replay = the generator parameters + the first mis-parsed line and the line it was confused with; when those
            # two lines alone (parsed in that order in one process) reproduce the failure, they are the replayed case
            firsts = impl.get("first_misparsed") or []
            pair = seq_case_from(c, firsts[0]) if firsts else None
            extra = {"generator": {k: c[k] for k in ("format", "seed", "n") if k in c}, "scale_case": c,
                     "first_misparsed": show(firsts[:2]), "tool": "tools/impl/impl_c16_scalegen.py gen(format, seed, index)"}
            if pair is not None:
                o2, _ = evaluate([pair], tag="C16s")
                if o2[0] is not None and not o2[0][4]:
                    ob2, clause2, impl2, model2, _ = o2[0]
                    extra["readable_case"] = show(pair)
                    extra["scale_clause"] = clause
                    run.violation("counterexample", ob, case=pair, impl=show(impl2), model=show(model2), clause=clause2, extra=extra)
                    continue
            run.violation("counterexample", ob, case=c, impl=show(impl), model=model, clause=clause, extra=extra)
            continue
        small = c
        if replay is None and shrunk < 1 and not c.get("family", "").startswith(("wf-", "scale", "limit")):
            shrunk += 1
            try:
                small = shrink(c, ob)
            except Exception:                                    # shrinking is best effort
                small = c
        if small is not c:
            o2, _ = evaluate([small], tag="C16s")
            if o2[0] is not None:
                _, clause, impl, model, _ = o2[0]
        if small.get("line_segs") or small.get("text_segs"):          # keep the replay compact: the segments rebuild the text
            small = {k: v for k, v in small.items() if k not in (("line",) if small.get("line_segs") else ("text",))}
            impl, model = json.loads(json.dumps(impl)[:100000] if len(json.dumps(impl)) < 100000 else '"(long)"'), model
            run.violation("counterexample", ob, case=small, impl=impl if isinstance(impl, str) else show(impl),
                          model=show(model) if len(json.dumps(model)) < 100000 else "(long)", clause=clause,
                          extra={"disagreeing_cases_for_this_obligation": obligations[ob]})
            continue
        run.violation("counterexample", ob, case=small, impl=show(impl), model=show(model), clause=clause,
                      extra={"readable_case": show({k: v for k, v in small.items() if k not in ("expect",)}),
                             "disagreeing_cases_for_this_obligation": obligations[ob]})
    run.cov["input_distribution"] = fams
    run.cov["informational_disagreements"] = info
    run.cov["stream_line_kinds"] = {}
    for c in cases:
        for kd in c.get("line_kinds", []):
            key = c["kind"] + ":" + kd
            run.cov["stream_line_kinds"][key] = run.cov["stream_line_kinds"].get(key, 0) + 1
    run.cov["impl_outcomes_line"] = {}
    for c, r in zip(cases, res):
        if c["kind"] == "line" and "generic" in r:
            key = c["source"] + ":" + ("row" if "row" in r["generic"] else r["generic"]["err"])
            run.cov["impl_outcomes_line"][key] = run.cov["impl_outcomes_line"].get(key, 0) + 1
    run.cov["scale"] = {c["format"]: {"distinct_lines": c["n"], "seed": c["seed"], "mismatches": r.get("mismatches"),
                                      **({"rows_seen": r.get("rows_seen"), "invalid": r.get("invalid"), "batches": r.get("batches")}
                                         if c["format"] == "stream" else {})}
                        for c, r in zip(cases, res) if c["kind"] == "scale" and "harness_err" not in r}
    run.evaluations += sum(c["n"] - 1 for c in cases if c["kind"] == "scale")
    run.cov["exhaustive"] = False
    if thorough and replay is None:
        run.cov["exhaustive_small_scope"] = ("every line of length <= 5 over {\" , a LF CR SP} (csv-raw), {TAB a SP LF CR} (ob-raw-dump), "
                                             "{| SP a b_ TAB} (ob-vw): 17143 lines, implementation = model on each")
    run.samples = [show({k: v for k, v in c.items() if k != "expect"}) for c in cases if c["kind"] in ("line", "stream", "namespace")][5:9]
    run.cov["not_covered"] = [
        "ob-raw-dump consolidation step parse_ob_raw_feature_information (pandas read_csv/to_csv re-rendering of the dumps into raw_dump.tsv)",
        "task_instance_ranking's use of generic_line_parser; subsampling != 1 (C08)",
        "the rows left in the buffer after the last line are observed only when more than 2**10 remain (thorough tier)",
    ]
    run.assumptions += [
        "cells contain no line break (the pipeline reads physical lines in universal-newline text mode) and no lone surrogates",
        "csv round-trip theorems carry the hypothesis 'every cell <= csv.field_size_limit() = 131072 characters' (the limit is in the model; "
        "beyond it reader and model raise csv.Error, which the streaming loop does not catch - observed, recorded)",
        "one-character delimiter for the tab-separated parser",
        "files are written and read under PYTHONUTF8=1 (parse_namespace / parse_csv_raw open files with the locale's encoding)",
    ]
    run.trusted += [
        "csv module (C implementation) is library code: the state-machine model is held to it only by this differential run",
        "harness: tools/props/c16.py (generators, renderer mirror py_render_csv checked against both the model and csv.writer), "
        "tools/impl/impl_c16.py (drives the real code; compute_batch_ranking replaced by a recorder)",
        "coqparse.py (reads the terms coqc prints)",
    ]
