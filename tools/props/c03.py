"""C03 — the cardinality correction subtracts the displaced-copy noise floor."""
from __future__ import annotations

import ast
import json
import os

import vlib
from props import c01

LEVEL = "proof"
RULE = ("self pairs (V, V) of every family (all-distinct, constant, singleton strata, Zipf, sparse, ...) and pairs (Y, X) with the correction flag ON run through the real mutual_info_estimator_numba(int32, int32, float32(1.0), "
        "True) and through the Coq transcription (term structure incl. the displaced class counts), C01 families; plus the "
        "heuristic-name -> flag wiring of importance_estimator.numba_mi (ast, fail closed, and driven at run time); plus, as a "
        "SUPPORTING statistic only, the planted-signal ranking family at n = 4000; non-trivial = both sides take >= 2 values "
        "and Y != X; distinct = distinct (Y, X)")
THEOREMS = ["C03_identity", "C03_core_identity", "C03_const", "C03_alldistinct", "C03_self", "C03_displace_shape"]
NAME = "MI-numba-randomized"
WIRING_NAMES = ["MI-numba-randomized", "MI-numba", "MI-numba-3mr", "MI-numba-random", "MI-numba-Randomized", "randomized",
                "MI-numba-randomized-3mr", "x-MI-numba-randomized"]
WIRING_PAIR = {"Y": [0, 1, 0, 1, 2, 2, 0, 1], "X": [1, 0, 1, 0, 2, 2, 1, 0]}      # corrected 0.6507, uncorrected 1.0822


# ---------------------------------------------------------------------------
# heuristic name -> flag, read off the source (fail closed)

class Refuse(Exception):
    pass


def _implies_contains(test, hname):
    """True when the boolean expression `test` can only be true if NAME occurs in the string variable `hname`."""
    if isinstance(test, ast.Compare) and len(test.ops) == 1 and len(test.comparators) == 1:
        a, op, b = test.left, test.ops[0], test.comparators[0]
        def is_h(e): return isinstance(e, ast.Name) and e.id == hname
        def const(e): return e.value if isinstance(e, ast.Constant) and isinstance(e.value, str) else None
        if isinstance(op, ast.Eq):
            c = const(b) if is_h(a) else const(a) if is_h(b) else None
            return c is not None and NAME in c
        if isinstance(op, ast.In) and is_h(b):
            c = const(a)
            return c is not None and NAME in c
        return False
    if isinstance(test, ast.BoolOp) and isinstance(test.op, ast.And):
        return any(_implies_contains(v, hname) for v in test.values)
    if isinstance(test, ast.BoolOp) and isinstance(test.op, ast.Or):
        return all(_implies_contains(v, hname) for v in test.values)
    return False


def _stores(fn, name):
    out = []
    for node in ast.walk(fn):
        if isinstance(node, ast.Name) and node.id == name and isinstance(node.ctx, (ast.Store, ast.Del)):
            out.append(node)
        if isinstance(node, (ast.Global, ast.Nonlocal)) and name in node.names:
            out.append(node)
        if isinstance(node, ast.arg) and node.arg == name and node is not None:
            out.append(node)
    return out


def wiring_from_source(repo):
    """Returns a description of the wiring or raises Refuse."""
    path = os.path.join(repo, "outrank", "algorithms", "importance_estimator.py")
    try:
        tree = ast.parse(open(path, encoding="utf8").read())
    except (OSError, SyntaxError) as e:
        raise Refuse("cannot parse %s: %s" % (path, e))
    fns = [n for n in tree.body if isinstance(n, ast.FunctionDef) and n.name == "numba_mi"]
    if len(fns) != 1:
        raise Refuse("expected exactly one top-level def numba_mi, found %d" % len(fns))
    fn = fns[0]
    params = [a.arg for a in fn.args.posonlyargs + fn.args.args]
    if len(params) < 3 or fn.args.vararg or fn.args.kwarg:
        raise Refuse("numba_mi signature not understood: %s" % params)
    hname = params[2]
    if [s for s in _stores(fn, hname) if not isinstance(s, ast.arg)]:
        raise Refuse("the heuristic parameter %r is reassigned inside numba_mi" % hname)
    cc = "cardinality_correction"
    st = _stores(fn, cc)
    tops = [n for n in fn.body if isinstance(n, ast.Assign) and len(n.targets) == 1 and isinstance(n.targets[0], ast.Name)
            and n.targets[0].id == cc]
    if len(st) != 1 or len(tops) != 1:
        raise Refuse("expected exactly one top-level assignment to %s in numba_mi (found %d stores, %d top-level)" % (cc, len(st), len(tops)))
    val = tops[0].value
    if isinstance(val, ast.Constant) and val.value is False:
        desc = "always off"
    elif _implies_contains(val, hname):
        desc = ast.unparse(val)
    else:
        raise Refuse("%s = %s does not syntactically imply %r in %s" % (cc, ast.unparse(val), NAME, hname))
    calls = [n for n in ast.walk(fn) if isinstance(n, ast.Call) and
             ((isinstance(n.func, ast.Attribute) and n.func.attr == "mutual_info_estimator_numba") or
              (isinstance(n.func, ast.Name) and n.func.id == "mutual_info_estimator_numba"))]
    if len(calls) != 1:
        raise Refuse("expected exactly one call of mutual_info_estimator_numba in numba_mi, found %d" % len(calls))
    call = calls[0]
    flag_arg = None
    for kw in call.keywords:
        if kw.arg is None:
            raise Refuse("**kwargs in the estimator call")
        if kw.arg == cc:
            flag_arg = kw.value
    if flag_arg is None and len(call.args) >= 4 and not any(isinstance(a, ast.Starred) for a in call.args):
        flag_arg = call.args[3]
    if flag_arg is None:
        if desc == "always off":
            return {"rule": desc, "source": path}
        raise Refuse("the estimator call does not pass cardinality_correction")
    if not (isinstance(flag_arg, ast.Name) and flag_arg.id == cc) and not (isinstance(flag_arg, ast.Constant) and flag_arg.value is False):
        raise Refuse("the estimator call passes %s as cardinality_correction" % ast.unparse(flag_arg))
    # the caller hands the configured heuristic name through unchanged
    cfr = [n for n in tree.body if isinstance(n, ast.FunctionDef) and n.name == "conduct_feature_ranking"]
    if len(cfr) != 1:
        raise Refuse("expected exactly one def conduct_feature_ranking")
    for n in ast.walk(tree):
        if isinstance(n, ast.Call) and isinstance(n.func, ast.Name) and n.func.id == "numba_mi":
            if any(isinstance(a, ast.Starred) for a in n.args) or any(k.arg is None for k in n.keywords):
                raise Refuse("numba_mi called with */** arguments")
            h = n.args[2] if len(n.args) >= 3 else next((k.value for k in n.keywords if k.arg == hname), None)
            if not (isinstance(h, ast.Name) and h.id == "heuristic"):
                raise Refuse("numba_mi is called with heuristic argument %s" % (ast.unparse(h) if h is not None else None))
    hs = [s for s in _stores(cfr[0], "heuristic") if not isinstance(s, ast.arg)]
    asg = [n for n in cfr[0].body if isinstance(n, ast.Assign) and len(n.targets) == 1 and isinstance(n.targets[0], ast.Name)
           and n.targets[0].id == "heuristic"]
    if len(hs) != 1 or len(asg) != 1 or ast.unparse(asg[0].value) != "args.heuristic":
        raise Refuse("conduct_feature_ranking does not bind heuristic = args.heuristic exactly once")
    return {"rule": desc, "source": path}


# ---------------------------------------------------------------------------
# planted-signal family (supporting statistic, NOT a proof obligation)

CARDS = [2, 8, 64, 512, 2048, 4000]


def planted(rng, n=4000):
    X = [rng.randrange(2) for _ in range(n)]                       # binary target
    inf = [x if rng.random() >= 0.15 else 1 - x for x in X]        # informative feature: target with 15% flips
    noise = {k: [rng.randrange(k) for _ in range(n)] for k in CARDS}
    return X, inf, noise


def check(run, replay):
    ok, log = vlib.build(c01.MODEL_TARGETS)
    run.oblige("build:model MI/Model.vo", ok, "" if ok else log[-1500:])
    if not ok:
        raise vlib.Broken("build:MI/Model.vo", log)
    vlib.standard_proof_phase(run, ["Props/C03.vo"], "Outrank.Props.C03", THEOREMS, allowed=vlib.STD_REAL_AXIOMS)

    # --- obligation: only names containing 'MI-numba-randomized' switch the flag on (source level, fail closed)
    try:
        w = wiring_from_source(vlib.REPO)
        run.oblige("wiring(ast): cardinality_correction is on only for heuristic names containing %r" % NAME, True,
                   "cardinality_correction = %s" % w["rule"])
        wiring_ok = True
    except Refuse as e:
        wiring_ok = False
        run.oblige("wiring(ast): cardinality_correction is on only for heuristic names containing %r" % NAME, False, str(e))

    wiring_replay = replay is not None and (replay.get("case") or {}).get("kind") == "wiring"
    if wiring_replay:
        cases, seeds = [], 0
    elif replay is not None:
        cases = [replay["case"]]
        seeds = 0
    else:
        cases = c01.load_corpus("C03")
        cases += c01.gen_pairs(run.rng, run.tier, 230 if run.tier == "quick" else 1300, [True])
        cases += c01.gen_self_pairs(run.rng, True, per_family=2 if run.tier == "quick" else 8)
        if run.tier == "thorough":
            cases += c01.exhaustive_pairs(True)
        seeds = 20 if run.tier == "quick" else 100
    for c in cases:
        c["flag"] = True

    # planted family: scores from the real code; expected values from the Python transcription of the model (py_terms);
    # the first seeds' low-cardinality members additionally go through the Coq model with the ordinary cases
    pl = []
    big_seeds = 4 if (run.tier == "thorough" and seeds) else 0
    for s in range(seeds + big_seeds):
        nn = 4000 if s < seeds else 32768
        X, inf, noise = planted(run.rng, nn)
        if nn != 4000:
            noise[4000] = [run.rng.randrange(nn) for _ in range(nn)]       # the top cardinality is n itself
        feats = [("inf", inf)] + [("noise%d" % k, noise[k]) for k in CARDS]
        for name, Yf in feats:
            for fl in (True, False):
                pl.append({"Y": Yf, "X": X, "flag": fl, "seed": s, "feat": name})
            if s < 2 and name in ("inf", "noise2", "noise8"):
                cases.append({"Y": Yf, "X": X, "flag": True, "fam": "planted-" + name})

    # long self pairs (diagonal of the rank graph) for the slow-to-model vectors: expected value H(V) via py_terms
    if seeds:
        n = 4000
        ident = list(range(n))
        run.rng.shuffle(ident)
        for name, v in (("self-alldistinct", ident), ("self-alldistinct-sparse", c01._recode_sparse(run.rng, ident)),
                        ("self-zipf", c01._zipf(run.rng, n, 300)), ("self-constant", [3] * n),
                        ("self-singleton-heavy", [i if i % 3 else 0 for i in range(n)])):
            pl.append({"Y": v, "X": list(v), "flag": True, "seed": -1, "feat": name})
    payload_cases = [{"Y": c["Y"], "X": c["X"], "flag": c["flag"]} for c in cases + pl]
    out = vlib.run_impl("impl_c01.py", {"cases": payload_cases, "wiring": replay is None or wiring_replay,
                                        "wiring_names": WIRING_NAMES, "wiring_pair": WIRING_PAIR})
    res = out["results"]
    terms = c01.model_terms("C03", cases)
    results = []
    for c, r, t in zip(cases, res[:len(cases)], terms):
        okc, info = c01.compare(c, r, t)
        results.append((okc, info, t))
    c01.mirror_consistency(run, cases, results)
    hist, nbad = c01.report(run, "C03", cases, results,
                            clause="score(Y, X, 1.0, True) = H(Y*|X) - H(Y|X) (Y* the displaced copy), = H(Y) for Y = X, "
                                   "up to single-precision rounding",
                            obligation="correspondence:impl(flag=True) = eval(model terms) within 8*2^-24*(sum|terms|+1e-6)")

    # --- wiring at run time: numba_mi(Y, X, name, 1.0) against the model's corrected / uncorrected values
    if "wiring" in out:
        wt = c01.model_terms("C03", [dict(WIRING_PAIR, flag=True), dict(WIRING_PAIR, flag=False)])
        on, s_on = c01.eval_float(wt[0])
        off, s_off = c01.eval_float(wt[1])
        bad = []
        seen = {}
        for name in WIRING_NAMES:
            r = out["wiring"].get(name) or out["wiring"].get("__import__") or {"ok": False, "error": "no result"}
            if not r["ok"]:
                bad.append((name, r["error"]))
                continue
            v = c01.as_float(r["v"])
            is_on = abs(v - on) <= c01.tolerance(s_on)
            is_off = abs(v - off) <= c01.tolerance(s_off)
            seen[name] = "on" if is_on else "off" if is_off else v
            if name == NAME and not is_on:
                bad.append((name, "score %r, expected the corrected score %r" % (v, on)))
            elif NAME not in name and not is_off:
                bad.append((name, "score %r, expected the uncorrected score %r" % (v, off)))
            elif not (is_on or is_off):
                bad.append((name, "score %r is neither the corrected nor the uncorrected score" % v))
        run.oblige("wiring(run time): numba_mi switches the correction on for %r and for no name not containing it" % NAME,
                   not bad, json.dumps(bad)[:400] if bad else json.dumps(seen))
        if bad:
            run.violation("counterexample", "heuristic name -> correction flag (importance_estimator.numba_mi)",
                          case={"kind": "wiring", "heuristic": bad[0][0], "Y": WIRING_PAIR["Y"], "X": WIRING_PAIR["X"]},
                          impl=bad[0][1], model={"corrected": on, "uncorrected": off},
                          clause="the correction is on exactly for heuristic MI-numba-randomized")
            wiring_ok = True          # a concrete failing input was found; do not add a second, input-less violation
    if not wiring_ok:
        run.violation("broken-obligation", "wiring(ast) importance_estimator.numba_mi", found_input=False,
                      extra=[o for o in run.obligations if o[0].startswith("wiring(ast)")][0][2])

    # --- planted family: identity on every member (a failure here IS a violation), ranking only reported
    if pl:
        pres = res[len(cases):]
        ident_bad = 0
        score = {}
        for c, r in zip(pl, pres):
            t = c01.py_terms(c["Y"], c["X"], c["flag"])
            okc, info = c01.compare(c, r, t)
            run.evaluations += 1
            if not okc:
                ident_bad += 1
                if ident_bad == 1 and nbad == 0:
                    small = c01.shrink_pair_case("C03", {"Y": c["Y"], "X": c["X"], "flag": c["flag"], "fam": "planted"})
                    run.violation("counterexample", "correspondence on the planted family / long self pairs (expected value from "
                                  "the Python transcription of the model)", case=small, impl=info.get("impl", info.get("impl_error")),
                                  model={"value": info["model"], "tolerance": info["tolerance"]},
                                  clause=("a feature scored against itself scores its entropy (C03_self)" if c["Y"] == c["X"] else
                                          "score = H(Y*|X) - H(Y|X) / plug-in MI on a planted-signal pair"))
            score[(c["seed"], c["feat"], c["flag"])] = info.get("impl")
        run.oblige("correspondence:planted family and long self pairs (n = 4000), impl = eval(py_terms) within tolerance", ident_bad == 0,
                   "%d of %d" % (ident_bad, len(pl)) if ident_bad else "")
        stat = {}
        for fl in (True, False):
            wins, margins, worst_card = 0, [], {}
            for s in range(seeds + big_seeds):
                si = score.get((s, "inf", fl))
                ns = {k: score.get((s, "noise%d" % k, fl)) for k in CARDS}
                if si is None or any(v is None for v in ns.values()):
                    continue
                mx = max(ns.values())
                wins += si > mx
                margins.append(si - mx)
                for k, v in ns.items():
                    if v >= si:
                        worst_card[k] = worst_card.get(k, 0) + 1
            stat["corrected" if fl else "uncorrected"] = {
                "seeds": seeds + big_seeds, "informative_outranks_all_noise": int(wins),
                "min_margin": min(margins) if margins else None, "noise_cardinalities_that_won": worst_card}
        run.cov["planted_signal_supporting_statistic"] = dict(
            stat, n=4000, cardinalities=CARDS, extra_seeds_at_n_32768_top_cardinality_n=big_seeds,
            note="SUPPORTING TEST, not a proof and not a pass/fail criterion: the ranking clause of C03 is statistical "
                 "(DESIGN section 3, C03 'partial'); only a break of the exact identity on these pairs is a violation")
    run.cov["input_distribution"] = hist
    run.cov["exhaustive"] = False
    if run.tier == "thorough":
        run.cov["exhaustive_small_scope"] = "all pairs of length <= 5 over 3 codes (66429 pairs), flag on, included"
    run.samples = [{"Y": c["Y"][:40], "X": c["X"][:40], "flag": True, "n": len(c["Y"]), "fam": c.get("fam")} for c in cases[:4]]
    run.assumptions += [
        "codes >= 0 and < 2^20, n >= 1, approximation_factor = float32(1.0) (see C01)",
        "PARTIAL: 'an informative low-cardinality feature outranks independent noise features of any cardinality at n >= 4000' is a "
        "statement about random draws; it is not a theorem and is reported only as planted_signal_supporting_statistic",
        "the wiring obligation reads importance_estimator.py with a fail-closed ast pattern: a rewrite of numba_mi that keeps the "
        "behaviour but not the shape (one top-level assignment `cardinality_correction = <test on heuristic>` passed to the "
        "estimator call) is refused and must be re-reviewed",
    ]
    run.trusted += [
        "harness: tools/props/c03.py (ast reader of numba_mi, planted family), tools/props/c01.py (eval_float mirror, py_terms = "
        "Python transcription of the model used for the n = 4000 supporting cases and cross-checked against every Coq "
        "evaluation, tolerance), tools/impl/impl_c01.py",
        "coqparse.py (reads the terms coqc prints)",
    ]
