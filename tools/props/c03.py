"""C03 — the cardinality correction subtracts the displaced-copy noise floor."""
from __future__ import annotations

import ast
import json
import os

import vlib
from props import c01

LEVEL = "proof"
RULE = ("self pairs (V, V) of every family (all-distinct, constant, singleton strata, Zipf, sparse, ...) and pairs (Y, X) with the correction flag ON run through the real mutual_info_estimator_numba(int32, int32, float32(1.0), "
        "True) and through the Coq transcription (term structure incl. the displaced class counts), C01 families; plus the "
        "heuristic-name -> flag wiring of importance_estimator.numba_mi (ast, fail closed, and driven at run time); plus, as a "
        "SUPPORTING statistic only, the planted-signal ranking family at n = 4000; plus SCALE families regenerated from (family, n, "
        "seed) at n = 40 000 .. 200 000 (thorough 10^6): all-distinct pairs / self pairs, distinct(Y) > 65 536, target groups > 32 768 "
        "rows, many singleton strata, sorted / drifting Y, distinct(X)*distinct(Y) > 2^31; non-trivial = both sides take >= 2 values "
        "and Y != X; distinct = distinct (Y, X)")
THEOREMS = ["C03_identity", "C03_core_identity", "C03_const", "C03_alldistinct", "C03_self", "C03_displace_shape"]
NAME = "MI-numba-randomized"
WIRING_NAMES = ["MI-numba-randomized", "MI-numba", "MI-numba-3mr", "MI-numba-random", "MI-numba-Randomized", "randomized",
                "MI-numba-3mr-randomized", "randomized-MI-numba", "MI-numba_randomized", "MI-randomized", "MI-numba-randomize",
                "MI-numba-randomized-3mr", "x-MI-numba-randomized"]
SCALE_CLAUSE = ("score(Y, X, 1.0, True) = H(Y*|X) - H(Y|X) (Y* the displaced copy), = H(Y) for Y = X, = 0 for an all-distinct or "
                "constant Y, up to single-precision rounding")
WIRING_PAIR = {"Y": [0, 1, 0, 1, 2, 2, 0, 1], "X": [1, 0, 1, 0, 2, 2, 1, 0]}      # corrected 0.6507, uncorrected 1.0822


# ---------------------------------------------------------------------------
# heuristic name -> flag, read off the source.  The reader is SOUND and incomplete: it accepts only when it can show that
# every flag expression handed to mutual_info_estimator_numba can be true only if NAME occurs in the heuristic string; anything
# it cannot interpret is refused.  A refusal alone is not a violation: the clause is then decided by the run-time probe.

class Refuse(Exception):
    pass


def _stores(fn, name):
    out = []
    for node in ast.walk(fn):
        if isinstance(node, ast.Name) and node.id == name and isinstance(node.ctx, (ast.Store, ast.Del)):
            out.append(node)
        if isinstance(node, (ast.Global, ast.Nonlocal)) and name in node.names:
            out.append(node)
    return out


class _Scope:
    """one function body: which names ARE the heuristic string, which are known string constants"""

    def __init__(self, mod, fn, aliases, consts):
        self.mod, self.fn, self.aliases, self.consts = mod, fn, set(aliases), dict(consts)

    def local_value(self, name, use_line):
        """the unique top-level assignment `name = <expr>` of this function preceding the use, else None"""
        st = _stores(self.fn, name)
        tops = [n for n in self.fn.body if isinstance(n, ast.Assign) and len(n.targets) == 1 and
                isinstance(n.targets[0], ast.Name) and n.targets[0].id == name]
        if len(st) == 1 and len(tops) == 1 and tops[0].lineno < use_line:
            return tops[0].value
        return None


class _Mod:
    def __init__(self, tree):
        self.tree = tree
        self.funcs = {}
        for n in tree.body:
            if isinstance(n, ast.FunctionDef):
                self.funcs.setdefault(n.name, []).append(n)
        self.consts = {}
        counts = {}
        for n in ast.walk(tree):
            if isinstance(n, ast.Name) and isinstance(n.ctx, (ast.Store, ast.Del)):
                counts[n.id] = counts.get(n.id, 0) + 1
        for n in tree.body:
            if (isinstance(n, ast.Assign) and len(n.targets) == 1 and isinstance(n.targets[0], ast.Name)
                    and isinstance(n.value, ast.Constant) and isinstance(n.value.value, str)
                    and counts.get(n.targets[0].id) == 1):
                self.consts[n.targets[0].id] = n.value.value

    def func(self, name):
        fs = self.funcs.get(name, [])
        return fs[0] if len(fs) == 1 else None


def _is_heur(e, sc, depth=0):
    if depth > 6:
        return False
    if isinstance(e, ast.Name):
        if e.id in sc.aliases:
            return not _stores(sc.fn, e.id)
        v = sc.local_value(e.id, e.lineno)
        return v is not None and _is_heur(v, sc, depth + 1)
    return False


def _const_str(e, sc, depth=0):
    if depth > 6:
        return None
    if isinstance(e, ast.Constant) and isinstance(e.value, str):
        return e.value
    if isinstance(e, ast.Name):
        if e.id in sc.aliases:
            return None
        v = sc.local_value(e.id, e.lineno)
        if v is not None:
            return _const_str(v, sc, depth + 1)
        if not _stores(sc.fn, e.id):
            return sc.consts.get(e.id)
    return None


def _simple_helper(fn):
    """a helper whose body is: [docstring], simple single-target assignments, one final `return <expr>`"""
    body = list(fn.body)
    if body and isinstance(body[0], ast.Expr) and isinstance(body[0].value, ast.Constant):
        body = body[1:]
    if not body or not isinstance(body[-1], ast.Return) or body[-1].value is None:
        return None
    for st in body[:-1]:
        if not (isinstance(st, ast.Assign) and len(st.targets) == 1 and isinstance(st.targets[0], ast.Name)):
            return None
    if fn.args.vararg or fn.args.kwarg:
        return None
    return body[-1].value


def _bind(call, fn, sc):
    """scope of helper `fn` for this call: parameters bound to the heuristic / to known constants"""
    if any(isinstance(a, ast.Starred) for a in call.args) or any(k.arg is None for k in call.keywords):
        return None
    params = [a.arg for a in fn.args.posonlyargs + fn.args.args]
    actual = dict(zip(params, call.args))
    for k in call.keywords:
        actual[k.arg] = k.value
    allp = [a.arg for a in fn.args.posonlyargs + fn.args.args + fn.args.kwonlyargs]
    aliases, consts = set(), {k: v for k, v in sc.mod.consts.items() if k not in allp}
    for p_, a in actual.items():
        if _is_heur(a, sc):
            aliases.add(p_)
        else:
            c = _const_str(a, sc)
            if c is not None:
                consts[p_] = c
    return _Scope(sc.mod, fn, aliases, consts)


def _implies(e, sc, depth=0):
    """True only if: e truthy  ==>  NAME occurs in the heuristic string"""
    if depth > 8:
        return False
    if isinstance(e, ast.Constant):
        return e.value is False or e.value is None or e.value == 0
    if isinstance(e, ast.Name):
        v = sc.local_value(e.id, e.lineno)
        return v is not None and _implies(v, sc, depth + 1)
    if isinstance(e, ast.Compare) and len(e.ops) == 1 and len(e.comparators) == 1:
        a, op, b = e.left, e.ops[0], e.comparators[0]
        if isinstance(op, ast.Eq):
            c = _const_str(b, sc) if _is_heur(a, sc) else _const_str(a, sc) if _is_heur(b, sc) else None
            return c is not None and NAME in c
        if isinstance(op, ast.In) and _is_heur(b, sc):
            c = _const_str(a, sc)
            return c is not None and NAME in c
        if isinstance(op, ast.In) and _is_heur(a, sc):
            elts = b.elts if isinstance(b, (ast.Tuple, ast.List, ast.Set)) else None
            if elts is None and isinstance(b, ast.Call) and isinstance(b.func, ast.Name) and b.func.id in ("frozenset", "set", "tuple", "list") \
                    and len(b.args) == 1 and isinstance(b.args[0], (ast.Tuple, ast.List, ast.Set)) and not b.keywords:
                elts = b.args[0].elts
            if elts is None:
                return False
            cs = [_const_str(x, sc) for x in elts]
            return all(c is not None and NAME in c for c in cs)
        return False
    if isinstance(e, ast.BoolOp) and isinstance(e.op, ast.And):
        return any(_implies(v, sc, depth + 1) for v in e.values)
    if isinstance(e, ast.BoolOp) and isinstance(e.op, ast.Or):
        return all(_implies(v, sc, depth + 1) for v in e.values)
    if isinstance(e, ast.IfExp):
        return (_implies(e.body, sc, depth + 1) or _implies(e.test, sc, depth + 1)) and _implies(e.orelse, sc, depth + 1)
    if isinstance(e, ast.Call) and isinstance(e.func, ast.Name) and not e.keywords and len(e.args) == 1 and e.func.id == "bool":
        return _implies(e.args[0], sc, depth + 1)
    if isinstance(e, ast.Call) and isinstance(e.func, ast.Name):
        h = sc.mod.func(e.func.id)
        ret = _simple_helper(h) if h is not None else None
        sc2 = _bind(e, h, sc) if ret is not None else None
        return sc2 is not None and _implies(ret, sc2, depth + 1)
    return False


def _is_estimator(call):
    f = call.func
    return (isinstance(f, ast.Attribute) and f.attr == "mutual_info_estimator_numba") or \
           (isinstance(f, ast.Name) and f.id == "mutual_info_estimator_numba")


def _flag_rules(sc, depth=0):
    """descriptions of the flag expression of every estimator call reachable from sc.fn (through helpers that receive the
    heuristic); raises Refuse when one of them is not shown to imply NAME in heuristic"""
    if depth > 3:
        raise Refuse("helper nesting too deep")
    rules = []
    for call in [n for n in ast.walk(sc.fn) if isinstance(n, ast.Call)]:
        if _is_estimator(call):
            if any(isinstance(a, ast.Starred) for a in call.args) or any(k.arg is None for k in call.keywords):
                raise Refuse("*/** arguments in the estimator call (line %d)" % call.lineno)
            flag = next((k.value for k in call.keywords if k.arg == "cardinality_correction"), None)
            if flag is None and len(call.args) >= 4:
                flag = call.args[3]
            if flag is None:
                rules.append("flag not passed (default False)")
            elif _implies(flag, sc):
                v = sc.local_value(flag.id, flag.lineno) if isinstance(flag, ast.Name) else None
                rules.append(ast.unparse(flag) + (" := " + ast.unparse(v) if v is not None else ""))
            else:
                v = sc.local_value(flag.id, flag.lineno) if isinstance(flag, ast.Name) else None
                raise Refuse("line %d: cardinality_correction=%s%s is not shown to imply %r in the heuristic name"
                             % (call.lineno, ast.unparse(flag), " := " + ast.unparse(v) if v is not None else "", NAME))
        elif isinstance(call.func, ast.Name) and sc.mod.func(call.func.id) is not None and call.func.id != sc.fn.name:
            h = sc.mod.func(call.func.id)
            sc2 = _bind(call, h, sc)
            if sc2 is not None and sc2.aliases:
                rules += _flag_rules(sc2, depth + 1)
    for node in ast.walk(sc.fn):
        if isinstance(node, ast.Attribute) and node.attr.startswith("mutual_info_estimator_numba") and node.attr != "mutual_info_estimator_numba":
            raise Refuse("numba_mi uses another estimator entry point: %s" % node.attr)
    return rules


def wiring_from_source(repo):
    """Returns a description of the wiring or raises Refuse."""
    path = os.path.join(repo, "outrank", "algorithms", "importance_estimator.py")
    try:
        tree = ast.parse(open(path, encoding="utf8").read())
    except (OSError, SyntaxError) as e:
        raise Refuse("cannot parse %s: %s" % (path, e))
    mod = _Mod(tree)
    fn = mod.func("numba_mi")
    if fn is None or sum(1 for n in ast.walk(tree) if isinstance(n, ast.FunctionDef) and n.name == "numba_mi") != 1:
        raise Refuse("expected exactly one def numba_mi")
    params = [a.arg for a in fn.args.posonlyargs + fn.args.args]
    if fn.args.vararg or fn.args.kwarg or (("heuristic" not in params) and len(params) < 3):
        raise Refuse("numba_mi signature not understood: %s" % params)
    hname = "heuristic" if "heuristic" in params else params[2]
    hpos = params.index(hname)
    if _stores(fn, hname):
        raise Refuse("the heuristic parameter %r is reassigned inside numba_mi" % hname)
    rules = _flag_rules(_Scope(mod, fn, {hname}, {k: v for k, v in mod.consts.items() if k not in params}))
    if not rules:
        raise Refuse("no call of mutual_info_estimator_numba reachable from numba_mi")
    # every caller hands the configured name (<something>.heuristic) through unchanged
    parents = {}
    for p_ in ast.walk(tree):
        for ch in ast.iter_child_nodes(p_):
            parents[ch] = p_
    ncalls = 0
    for n in ast.walk(tree):
        if isinstance(n, ast.Call) and isinstance(n.func, ast.Name) and n.func.id == "numba_mi":
            ncalls += 1
            if any(isinstance(a, ast.Starred) for a in n.args) or any(k.arg is None for k in n.keywords):
                raise Refuse("numba_mi called with */** arguments")
            h = n.args[hpos] if len(n.args) > hpos else next((k.value for k in n.keywords if k.arg == hname), None)
            okh = isinstance(h, ast.Attribute) and h.attr == "heuristic"
            if not okh and isinstance(h, ast.Name):
                f = parents.get(n)
                while f is not None and not isinstance(f, (ast.FunctionDef, ast.Lambda)):
                    f = parents.get(f)
                if isinstance(f, ast.FunctionDef):
                    v = _Scope(mod, f, set(), {}).local_value(h.id, n.lineno)
                    okh = isinstance(v, ast.Attribute) and v.attr == "heuristic"
            if not okh:
                raise Refuse("numba_mi is called with heuristic argument %s (line %d)" % (ast.unparse(h) if h is not None else None, n.lineno))
    return {"rule": "; ".join(rules), "source": path, "numba_mi_callers": ncalls}


def doc_names():
    """heuristic names used by the project's own material (coq/Gen/DocNames.v, written by the C05 translator), if present"""
    import re
    p = os.path.join(vlib.COQ, "Gen", "DocNames.v")
    out = []
    try:
        for ln in open(p, encoding="utf8"):
            m = re.match(r"^\s*\[([0-9; ]*)\];?\s*\(\*", ln)
            if m:
                out.append("".join(chr(int(x)) for x in m.group(1).replace(" ", "").split(";") if x))
    except OSError:
        pass
    return out


def wres_err(out):
    e = (out.get("wiring") or {}).get("__import__")
    return e["error"] if e else "no result"


def gen_histories(rng):
    """call sequences against preallocated buffers overwritten in place between the calls"""
    hs = []
    for via in ("numba_mi_1d", "conduct_feature_ranking", "numba_mi"):
        for reuse_feature in (False, True):
            n = rng.randint(8, 60)
            steps = []
            for k in range(rng.randint(2, 4)):
                X = c01._zipf(rng, n, rng.choice([2, 3, 5]), a=[0.3, 2.5, 1.0, 3.5][k])      # group sizes change every step
                kind = rng.choice(["identifier", "noise", "signal"])
                if kind == "identifier":
                    Y = list(range(n))
                    rng.shuffle(Y)
                elif kind == "noise":
                    Y = [rng.randrange(rng.choice([2, 7, 20])) for _ in range(n)]
                else:
                    Y = [x if rng.random() > 0.15 else rng.randrange(5) for x in X]
                steps.append({"Y": Y, "X": X})
            hs.append({"kind": "history", "via": via, "heuristic": NAME, "reuse_feature": reuse_feature, "steps": steps})
    h = dict(hs[0])
    h["heuristic"] = "MI-numba"
    hs.append(h)
    # ORIENTATION: the corrected score conditions on the TARGET (second vector) — it is not symmetric.  Feature cardinality
    # strictly below the target's (multi-class label / feature-feature pairs), through every entry point of the heuristic.
    for via in ("numba_mi_1d", "conduct_feature_ranking", "numba_mi"):
        n = rng.randint(60, 400)
        kt = rng.choice([5, 5, 8, 40])
        T = [rng.randrange(kt) for _ in range(n)]
        steps = [
            {"Y": [int(t >= kt // 2) if rng.random() > 0.15 else 1 - int(t >= kt // 2) for t in T], "X": T},   # binary signal
            {"Y": [rng.randrange(2) for _ in range(n)], "X": T},                                               # binary noise
            {"Y": [t % 3 if rng.random() > 0.1 else rng.randrange(3) for t in T], "X": T},                     # 3-level signal
            {"Y": T, "X": [t % 2 for t in T]},                                                                 # the other way round
        ]
        hs.append({"kind": "history", "via": via, "heuristic": NAME, "reuse_feature": False, "family": "orientation", "steps": steps})
    return hs


# ---------------------------------------------------------------------------
# planted-signal family (supporting statistic, NOT a proof obligation)

CARDS = [2, 8, 64, 512, 2048, 4000]


def planted(rng, n=4000):
    X = [rng.randrange(2) for _ in range(n)]                       # binary target
    inf = [x if rng.random() >= 0.15 else 1 - x for x in X]        # informative feature: target with 15% flips
    noise = {k: [rng.randrange(k) for _ in range(n)] for k in CARDS}
    return X, inf, noise


def check(run, replay):
    ok, log = vlib.build(c01.MODEL_TARGETS)
    run.oblige("build:model MI/Model.vo", ok, "" if ok else log[-1500:])
    if not ok:
        raise vlib.Broken("build:MI/Model.vo", log)
    vlib.standard_proof_phase(run, ["Props/C03.vo"], "Outrank.Props.C03", THEOREMS, allowed=vlib.STD_REAL_AXIOMS)

    # --- heuristic name -> flag, source level (sound, incomplete reader; a refusal is decided by the run-time probe below)
    try:
        w = wiring_from_source(vlib.REPO)
        ast_ok, ast_msg = True, "cardinality_correction = %s (%d caller(s) of numba_mi pass <x>.heuristic)" % (w["rule"], w["numba_mi_callers"])
    except Refuse as e:
        ast_ok, ast_msg = False, str(e)
    except Exception as e:                       # a reader bug must not decide anything
        ast_ok, ast_msg = False, "reader error %s: %s" % (type(e).__name__, e)

    rkind = (replay.get("case") or {}).get("kind") if replay is not None else None
    if rkind == "direct-history":
        c01.direct_history_family(run, "C03", [replay["case"]], SCALE_CLAUSE)
        return
    if rkind == "scale":
        c01.scale_family(run, "C03", [replay["case"]], [], [], SCALE_CLAUSE)
        return
    wiring_replay = rkind == "wiring"
    histories = []
    if wiring_replay:
        cases, seeds = [], 0
    elif rkind == "history":
        cases, seeds = [], 0
        histories = [replay["case"]]
    elif replay is not None:
        cases = [replay["case"]]
        seeds = 0
    else:
        cases = c01.load_corpus("C03")
        cases += c01.gen_pairs(run.rng, run.tier, 230 if run.tier == "quick" else 1300, [True])
        cases += c01.gen_self_pairs(run.rng, True, per_family=2 if run.tier == "quick" else 8)
        cases += c01.xcheck_cases(run.rng, True, 3 if run.tier == "quick" else 8)
        if run.tier == "thorough":
            cases += c01.exhaustive_pairs(True)
        seeds = 20 if run.tier == "quick" else 100
        histories = gen_histories(run.rng)
        if run.tier == "thorough":
            for _ in range(4):
                histories += gen_histories(run.rng)
    do_wiring = replay is None or wiring_replay
    names = list(WIRING_NAMES)
    for nm in doc_names():
        if nm not in names:
            names.append(nm)
    for c in cases:
        c["flag"] = True

    # planted family: scores from the real code; expected values from the Python transcription of the model (py_terms);
    # the first seeds' low-cardinality members additionally go through the Coq model with the ordinary cases
    pl = []
    big_seeds = 4 if (run.tier == "thorough" and seeds) else 0
    for s in range(seeds + big_seeds):
        nn = 4000 if s < seeds else 32768
        X, inf, noise = planted(run.rng, nn)
        if nn != 4000:
            noise[4000] = [run.rng.randrange(nn) for _ in range(nn)]       # the top cardinality is n itself
        feats = [("inf", inf)] + [("noise%d" % k, noise[k]) for k in CARDS]
        for name, Yf in feats:
            for fl in (True, False):
                pl.append({"Y": Yf, "X": X, "flag": fl, "seed": s, "feat": name})
            if s < 2 and name in ("inf", "noise2", "noise8"):
                cases.append({"Y": Yf, "X": X, "flag": True, "fam": "planted-" + name})

    # long self pairs (diagonal of the rank graph) for the slow-to-model vectors: expected value H(V) via py_terms
    if seeds:
        n = 4000
        ident = list(range(n))
        run.rng.shuffle(ident)
        for name, v in (("self-alldistinct", ident), ("self-alldistinct-sparse", c01._recode_sparse(run.rng, ident)),
                        ("self-zipf", c01._zipf(run.rng, n, 300)), ("self-constant", [3] * n),
                        ("self-singleton-heavy", [i if i % 3 else 0 for i in range(n)])):
            pl.append({"Y": v, "X": list(v), "flag": True, "seed": -1, "feat": name})
    payload_cases = [{"Y": c["Y"], "X": c["X"], "flag": c["flag"]} for c in cases + pl]
    out = vlib.run_impl("impl_c01.py", {"cases": payload_cases, "wiring": do_wiring, "wiring_names": names,
                                        "wiring_pair": WIRING_PAIR, "histories": histories})
    res = out["results"]
    # one Coq run for the cases, the two probe values and every step of every history (contents at call time)
    probe = [dict(WIRING_PAIR, flag=True), dict(WIRING_PAIR, flag=False)] if do_wiring else []
    hsteps = [{"Y": st["Y"], "X": st["X"], "flag": h["heuristic"] == NAME} for h in histories for st in h["steps"]]
    all_terms = c01.model_terms("C03", cases + probe + hsteps)
    terms = all_terms[:len(cases)]
    probe_terms = all_terms[len(cases):len(cases) + len(probe)]
    hterms = all_terms[len(cases) + len(probe):]
    results = []
    for c, r, t in zip(cases, res[:len(cases)], terms):
        okc, info = c01.compare(c, r, t)
        results.append((okc, info, t))
    c01.mirror_consistency(run, cases, results)
    hist, nbad = c01.report(run, "C03", cases, results,
                            clause="score(Y, X, 1.0, True) = H(Y*|X) - H(Y|X) (Y* the displaced copy), = H(Y) for Y = X, "
                                   "up to single-precision rounding",
                            obligation="correspondence:impl(flag=True) = eval(model terms) within 8*2^-24*(sum|terms|+1e-6)")

    # --- direct histories with the flag on (refilled buffers, short-lived arrays, self pairs)
    if replay is None:
        c01.direct_history_family(run, "C03", c01.gen_direct_histories(run.rng, True, 5 if run.tier == "quick" else 25), SCALE_CLAUSE)

    # --- SCALE families (flag on): thresholds of sort-based / blocked / sampled kernels, expected values via np_terms
    if replay is None:
        sc, stt = c01.pick_small(cases, results)
        c01.scale_family(run, "C03", c01.scale_specs("C03", run.rng, run.tier), sc, stt, SCALE_CLAUSE)

    # --- wiring at run time: numba_mi / conduct_feature_ranking per heuristic name, observed through the score (corrected and
    # uncorrected values of the probe pair differ: 0.6507 vs 1.0822) and through the flag handed to the estimator
    if do_wiring:
        on, s_on = c01.eval_float(probe_terms[0])
        off, s_off = c01.eval_float(probe_terms[1])
        bad, seen = [], {}
        wres = out.get("wiring", {})
        for name in names:
            per = wres.get(name) or {"numba_mi": wres.get("__import__") or {"ok": False, "error": "no result"}}
            for via, r in per.items():
                if not r["ok"]:
                    bad.append((name, via, r["error"]))
                    continue
                v = c01.as_float(r["v"])
                is_on = abs(v - on) <= c01.tolerance(s_on)
                is_off = abs(v - off) <= c01.tolerance(s_off)
                flags = [f for f in r.get("flag_seen", []) if f is not None]
                seen.setdefault(name, {})[via] = ("on" if is_on else "off" if is_off else v, flags)
                if name == NAME and (not is_on or False in flags):
                    bad.append((name, via, "score %r (flag passed: %s), expected the corrected score %r" % (v, flags, on)))
                elif NAME not in name and (not is_off or True in flags):
                    bad.append((name, via, "score %r (flag passed: %s), expected the uncorrected score %r" % (v, flags, off)))
                elif not (is_on or is_off):
                    bad.append((name, via, "score %r is neither the corrected nor the uncorrected score" % v))
        how = "ast reader + run-time probe" if ast_ok else "run-time probe only (ast reader refused: %s)" % ast_msg
        run.cov["wiring_decided_by"] = how
        run.cov["wiring_probe"] = {"names": names, "observed": seen}
        run.oblige("wiring: the correction is on for %r and for no heuristic name that does not contain it" % NAME, not bad,
                   json.dumps(bad)[:500] if bad else ("wiring held by " + how + ("; " + ast_msg if ast_ok else ""))[:600])
        if not ast_ok:
            run.notes.append("C03 wiring held by run-time probe only (ast reader refused: %s)" % ast_msg)
        if bad:
            run.violation("counterexample", "heuristic name -> correction flag (importance_estimator.%s)" % bad[0][1],
                          case={"kind": "wiring", "heuristic": bad[0][0], "via": bad[0][1], "Y": WIRING_PAIR["Y"], "X": WIRING_PAIR["X"]},
                          impl=bad[0][2], model={"corrected": on, "uncorrected": off},
                          clause="the correction is on exactly for heuristic MI-numba-randomized")

    # --- histories: the score of every call equals the model value on the buffer contents at call time
    if histories:
        hres = out.get("histories", [])
        k = 0
        hbad = 0
        nsteps = 0
        for hi, h in enumerate(histories):
            steps_r = hres[hi] if hi < len(hres) else []
            for si, st in enumerate(h["steps"]):
                t = hterms[k]
                k += 1
                nsteps += 1
                r = steps_r[si] if si < len(steps_r) else {"ok": False, "error": wres_err(out)}
                okc, info = c01.compare({"Y": st["Y"], "X": st["X"], "flag": True}, r, t)
                run.evaluations += 1
                if not okc:
                    hbad += 1
                    if hbad == 1:
                        small = dict(h)
                        small["steps"] = h["steps"][:si + 1]
                        run.violation("counterexample", "history of calls through importance_estimator.%s on buffers overwritten in place" % h["via"].replace("_1d", ""),
                                      case=small, impl={"step": si, "score": info.get("impl", info.get("impl_error"))},
                                      model={"step": si, "value": info["model"], "tolerance": info["tolerance"]},
                                      clause="the score of a call through the heuristic entry point = H(Y*|X) - H(Y|X) with the TARGET (second "
                                             "vector) as the conditioning side X and Y* displaced by the CURRENT group sizes — a function of the two "
                                             "vectors' contents at call time")
                    break
        run.oblige("history: scores through numba_mi / conduct_feature_ranking on reused, overwritten buffers = model on the "
                   "contents at call time", hbad == 0, "%d of %d histories fail" % (hbad, len(histories)) if hbad else
                   "%d histories, %d calls" % (len(histories), nsteps))
        run.cov["histories"] = {"count": len(histories), "calls": nsteps,
                                "orientation_histories": sum(1 for h in histories if h.get("family") == "orientation"),
                                "via": sorted({h["via"] for h in histories}), "reuse_feature_buffer": sum(1 for h in histories if h.get("reuse_feature"))}

    # --- planted family: identity on every member (a failure here IS a violation), ranking only reported
    if pl:
        pres = res[len(cases):]
        ident_bad = 0
        score = {}
        for c, r in zip(pl, pres):
            t = c01.py_terms(c["Y"], c["X"], c["flag"])
            okc, info = c01.compare(c, r, t)
            run.evaluations += 1
            if not okc:
                ident_bad += 1
                if ident_bad == 1 and nbad == 0:
                    small = c01.shrink_pair_case("C03", {"Y": c["Y"], "X": c["X"], "flag": c["flag"], "fam": "planted"})
                    run.violation("counterexample", "correspondence on the planted family / long self pairs (expected value from "
                                  "the Python transcription of the model)", case=small, impl=info.get("impl", info.get("impl_error")),
                                  model={"value": info["model"], "tolerance": info["tolerance"]},
                                  clause=("a feature scored against itself scores its entropy (C03_self)" if c["Y"] == c["X"] else
                                          "score = H(Y*|X) - H(Y|X) / plug-in MI on a planted-signal pair"))
            score[(c["seed"], c["feat"], c["flag"])] = info.get("impl")
        run.oblige("correspondence:planted family and long self pairs (n = 4000), impl = eval(py_terms) within tolerance", ident_bad == 0,
                   "%d of %d" % (ident_bad, len(pl)) if ident_bad else "")
        stat = {}
        for fl in (True, False):
            wins, margins, worst_card = 0, [], {}
            for s in range(seeds + big_seeds):
                si = score.get((s, "inf", fl))
                ns = {k: score.get((s, "noise%d" % k, fl)) for k in CARDS}
                if si is None or any(v is None for v in ns.values()):
                    continue
                mx = max(ns.values())
                wins += si > mx
                margins.append(si - mx)
                for k, v in ns.items():
                    if v >= si:
                        worst_card[k] = worst_card.get(k, 0) + 1
            stat["corrected" if fl else "uncorrected"] = {
                "seeds": seeds + big_seeds, "informative_outranks_all_noise": int(wins),
                "min_margin": min(margins) if margins else None, "noise_cardinalities_that_won": worst_card}
        run.cov["planted_signal_supporting_statistic"] = dict(
            stat, n=4000, cardinalities=CARDS, extra_seeds_at_n_32768_top_cardinality_n=big_seeds,
            note="SUPPORTING TEST, not a proof and not a pass/fail criterion: the ranking clause of C03 is statistical "
                 "(DESIGN section 3, C03 'partial'); only a break of the exact identity on these pairs is a violation")
    run.cov["input_distribution"] = hist
    run.cov["exhaustive"] = False
    if run.tier == "thorough":
        run.cov["exhaustive_small_scope"] = "all pairs of length <= 5 over 3 codes (66429 pairs), flag on, included"
    run.samples = [{"Y": c["Y"][:40], "X": c["X"][:40], "flag": True, "n": len(c["Y"]), "fam": c.get("fam")} for c in cases[:4]]
    run.assumptions += [
        "codes >= 0 and < 2^20, n >= 1, approximation_factor = float32(1.0) (see C01)",
        "PARTIAL: 'an informative low-cardinality feature outranks independent noise features of any cardinality at n >= 4000' is a "
        "statement about random draws; it is not a theorem and is reported only as planted_signal_supporting_statistic",
        "wiring clause: decided by the run-time probe (numba_mi and conduct_feature_ranking on every probe name incl. the documented "
        "ones; score and the flag handed to the estimator); the sound-but-incomplete ast reader adds the for-all-names statement "
        "when it accepts the source shape, and its refusal alone is not a violation (see coverage.wiring_decided_by)",
    ]
    run.trusted += [
        "harness: tools/props/c03.py (ast reader of numba_mi, planted family), tools/props/c01.py (eval_float mirror, py_terms = "
        "Python transcription of the model used for the n = 4000 supporting cases and cross-checked against every Coq "
        "evaluation, tolerance), tools/impl/impl_c01.py",
        "coqparse.py (reads the terms coqc prints)",
    ]
