"""C10 — interaction features represent joint values faithfully."""
from __future__ import annotations

import itertools
import json
import os

import vlib

LEVEL = "proof"
RULE = ("string frames (2..6 feature columns + label, 5..200 rows) x interaction order 2..4 x cap, run through the real "
        "compute_combined_features with a fresh sampler counter; histories of 2..4 batches in one process with binding caps "
        "(prior counts kept); long cells (>= 10 / >= 100 characters, digit-leading) with tuples built to collide under "
        "length-without-separator, separator-without-length and plain concatenation, orders 2..4; large frames judged Python-side (3e5 distinct tuples; 1.5e5 distinct of 4e5 rows; six scale "
        "frames just above 2^16 rows, orders 2..4, distinct-count products beyond 2^31/2^32/2^63/2^64, num_threads 1/4/8, CLI "
        "default args): tuple -> value a function and injective, every cell non-null, originals and names unchanged; values from prefix/suffix-related, digit, "
        "delimiter-and-digit (adversarial for the length-prefixed encoding), unicode and special families, with planted "
        "tuples whose plain concatenations coincide; non-trivial = some new column whose rows are neither all equal nor "
        "all distinct; distinct = distinct canonical cases")
THEOREMS = ["C10_enc_inj", "C10_equal_iff", "C10_equal_if", "C10_name", "C10_originals_untouched", "C10_new_columns",
            "C10_rows_iff", "C10_score", "C10_score_equal", "C10_no_collision_satisfiable", "C10_prefix_refuted", "C10_nosep_refuted", "C10_old_partition_refuted",
            "C10_candidates", "C10_checker_sound", "C10_partition_test_exact"]

PREFIX_POOL = ["1", "11", "111", "1111", "", "12", "21", "121", "112", "211", "a", "ab", "abc", "b", "bc", "c", "ba",
               "aa", "aaa", "x", "xy", "y"]
DELIM_POOL = [":", "1:", ":1", "1:1", "2:", "2:1", "11:", "1:11", "0:", "3:1:1", "1:12:", "2:110:", "::", "1::", "10:",
              "01", "0", "00", "1:1:1", "2:1:", "1:a", "a1:", "0:0:", "12:", ":2:"]
UNICODE_POOL = ["é", "é", "éa", "ü", "日本", "日", "本", "\U0001d11e",
                "\U0001d11e\U0001d11e", "a\U0001d11e", "​", " ", "  ", "ß", "ss", "İ", "i̇",
                "ا", "א", "\U0001f642", " ", "٣", "３", "1٣", "：", "1："]
SPECIAL_POOL = ["AND", " AND ", "-", ",", "a,b", "a-b", "None", "nan", "NaN", "<NA>", "0.0", "1e3", "\t", "x\ty", "'",
                '"', "\\", "%", "{}", "[]", "\n", "a\nb", "\x00", "1\x00"]
# (NUL cells stay in C10's pools: compute_combined_features hashes the utf-8 BYTES of the length-prefixed cells, so the
#  unchanged code keeps '' / '\x00' and '1' / '1\x00' apart — unlike pandas' category coding, known finding F1 of C05 — and
#  a rewrite that factorizes the cells first (seeded C10-HC) is caught exactly here)
# canonically / compatibly equivalent but distinct strings (NFC vs NFD vs NFKC): different rows must stay different
EQUIV_SETS = [["caf\u00e9", "cafe\u0301"], ["\u00c5", "A\u030a", "\u212b"], ["\ud55c", "\u1112\u1161\u11ab"],
              ["\u00f1", "n\u0303"], ["\ufb01", "fi"], ["\uff13", "3"], ["\u2126", "\u03a9"], ["\u00e9", "e\u0301"],
              ["\u1e9b\u0323", "\u1e9b\u0323".encode().decode(), "\u017f\u0323\u0307"], ["\u00bd", "1\u20442"], ["\u2460", "1"]]
FAMILIES = {"prefix": PREFIX_POOL, "delim": DELIM_POOL, "unicode": UNICODE_POOL, "special": SPECIAL_POOL}
ALPHABETS = {"prefix": "1a", "delim": "0123456789:", "unicode": "éé\U0001d11e1:", "special": "-,:A ",
             "digits": "0123456789"}
NAME_POOL = ["a", "b", "f1", "x", "é", "0", "1", "c d", "u-v", "w|z", "n&m", "AND", "ANDa", "k:"]


def rand_str(rng, alphabet, maxlen):
    return "".join(rng.choice(alphabet) for _ in range(rng.randint(0, maxlen)))


def column_pool(rng, fam):
    if fam == "equiv":
        pool = []
        for grp in rng.sample(EQUIV_SETS, rng.randint(1, 3)):
            pool.extend(grp)
        if rng.random() < 0.5:
            pool = [rng.choice(["", "x", "1"]) + v + rng.choice(["", "y"]) for v in pool] if rng.random() < 0.5 else pool + ["a"]
        return pool
    k = rng.randint(2, 7)
    pool = []
    base = FAMILIES.get(fam)
    for _ in range(k):
        if base is not None and rng.random() < 0.7:
            pool.append(rng.choice(base))
        else:
            pool.append(rand_str(rng, ALPHABETS[fam], 4))
    return pool


def alias_tuples(rng, k):
    """value tuples of arity k whose plain concatenations coincide but which differ"""
    s = rand_str(rng, rng.choice(["1", "12", "1:", "a1", "é1"]), 6) or "1"
    out = []
    for _ in range(rng.randint(2, 4)):
        cuts = sorted(rng.randint(0, len(s)) for _ in range(k - 1))
        cuts = [0] + cuts + [len(s)]
        out.append([s[cuts[i]:cuts[i + 1]] for i in range(k)])
    return out


def gen_case(rng):
    nf = rng.randint(2, 6)
    r = rng.random()
    nrows = rng.randint(5, 30) if r < 0.6 else (rng.randint(30, 100) if r < 0.9 else rng.randint(100, 200))
    if rng.random() < 0.05:
        nrows = rng.randint(1, 2)         # one-row and two-row frames
    names = []
    for i in range(nf):
        nm = rng.choice(NAME_POOL) + str(i)
        names.append(nm)
    label = rng.choice(["label", "y", "target"])
    lab_pos = rng.randint(0, nf)
    fams = [rng.choice(["prefix", "delim", "unicode", "special", "digits", "delim", "prefix", "equiv"]) for _ in range(nf)]
    pools = [column_pool(rng, f) for f in fams]
    cols = [[rng.choice(pools[j]) for _ in range(nrows)] for j in range(nf)]
    order = rng.randint(2, min(4, nf))
    if rng.random() < 0.6:
        k = rng.randint(2, min(order, nf))
        pos = sorted(rng.sample(range(nf), k))
        tuples = alias_tuples(rng, k)
        for i in range(nrows):
            if rng.random() < 0.7:
                t = rng.choice(tuples)
                for q, j in enumerate(pos):
                    cols[j][i] = t[q]
    if rng.random() < 0.15 and nf > order:
        # an INPUT column whose name is the name a generated interaction will get ('site AND zone' next to 'site', 'zone'):
        # the result then has two columns of that name; the frame is judged by position.  Never two GENERATED names alike.
        victim = rng.randrange(nf)
        others = [names[j] for j in range(nf) if j != victim]
        comb = [others[j] for j in sorted(rng.sample(range(len(others)), order))]
        trial = list(names)
        trial[victim] = " AND ".join(comb)
        gen = [" AND ".join(c) for c in itertools.combinations(trial, order)]
        if len(set(gen)) == len(gen) and len(set(trial)) == len(trial):
            names = trial
    labcol = [rng.choice(["0", "1"]) for _ in range(nrows)]
    all_names = names[:lab_pos] + [label] + names[lab_pos:]
    all_cols = cols[:lab_pos] + [labcol] + cols[lab_pos:]
    ncand = len(list(itertools.combinations(range(nf), order)))
    m = rng.random()
    if m < 0.5:
        cap = rng.choice([ncand, ncand + 1, 1000, 2 ** 15])
    elif m < 0.9:
        cap = rng.randint(0, ncand)
    else:
        cap = rng.choice([-1, -2, 1])
    rows = [[all_cols[j][i] for j in range(nf + 1)] for i in range(nrows)]
    case = {"names": all_names, "rows": rows, "label": label, "order": order, "cap": cap, "is3mr": False}
    if rng.random() < 0.08:
        case["is3mr"] = True
    if rng.random() < 0.05:
        case["label"] = "absent"          # no label column in the frame: every column is a feature
    m = rng.random()
    if m < 0.12:                          # rows that were shuffled / sampled: the labels are a permutation
        idx = list(range(nrows))
        rng.shuffle(idx)
        case["index"] = idx
    elif m < 0.24:                        # rows that were filtered: increasing labels with gaps
        case["index"] = sorted(rng.sample(range(nrows * 2 + 3), nrows))
    elif m < 0.30:                        # string row labels
        idx = ["r%d" % i for i in range(nrows)]
        rng.shuffle(idx)
        case["index"] = idx
    return case


# ---- long cells: adversaries of near-miss encodings (harness-side only; they build inputs, they decide nothing) ----
def e_nosep(t):
    return "".join("%d%s" % (len(v), v) for v in t)


def e_seponly(t):
    return "".join(v + ":" for v in t)


def long_str(rng, n, alphabet="0123456789"):
    return "".join(rng.choice(alphabet) for _ in range(n))


def nosep_pair(rng, big):
    """two different pairs (a, b), (a2, b2) with len+value concatenations (no separator) equal: the length of a2 has D >= 2
    digits, the other reading takes only its first e digits as the length.  Cells are digit-leading, >= 10 (big: >= 100) long."""
    for _ in range(200):
        D = 3 if big else 2
        n1 = rng.randint(100, 260) if big else rng.randint(10, 99)
        e = rng.randint(1, D - 1)
        p = int(str(n1)[:e])
        consumed = e + p
        n2 = rng.choice([0, 1, 3, rng.randint(2, 40), rng.randint(10, 150)])
        if consumed < D or consumed > D + n1 - 4:
            continue
        len_r = (D + n1 - consumed) + len(str(n2)) + n2
        m = next((len_r - nd for nd in (1, 2, 3, 4) if len_r - nd >= 0 and len(str(len_r - nd)) == nd), None)
        if m is None or consumed - D + len(str(m)) > n1:
            continue
        alpha = rng.choice(["0123456789", "0123456789", "0123456789A", "01:", "9"])
        a2 = list(long_str(rng, n1, alpha))
        a2[consumed - D:consumed - D + len(str(m))] = list(str(m))
        a2 = "".join(a2)
        b2 = long_str(rng, n2, rng.choice(["0123456789", "xyz9", alpha]))
        S = str(n1) + a2 + str(n2) + b2
        a, b = S[e:e + p], S[consumed + len(str(m)):]
        if (a, b) != (a2, b2) and e_nosep((a, b)) == e_nosep((a2, b2)):
            return [a, b], [a2, b2]
    return None


def seponly_pair(rng, big):
    """(x:y, z) / (x, y:z): equal under value+':' and under ':'.join, long digit-leading parts"""
    n = rng.randint(100, 160) if big else rng.randint(10, 40)
    x, y, z = (long_str(rng, rng.randint(1, n), "0123456789") for _ in range(3))
    return [x + ":" + y, z], [x, y + ":" + z]


def concat_pair(rng, big):
    s = long_str(rng, rng.randint(200, 320) if big else rng.randint(20, 60), rng.choice(["0123456789", "01", "1"]))
    i, j = sorted(rng.sample(range(1, len(s)), 2))
    return [s[:i], s[i:]], [s[:j], s[j:]]


def gen_long(rng):
    """long cells (>= 10 and >= 100 characters, digit-leading / digit-only, prefixes and suffixes of each other across the column
    boundary): for pairs of adjacent constituents the rows carry tuples built to collide under 'length without separator',
    'separator without length' and plain concatenation; orders 2..4; judged by the usual partition comparison"""
    order = rng.randint(2, 4)
    nf = order + (1 if rng.random() < 0.3 else 0)
    names = [rng.choice(NAME_POOL) + str(i) for i in range(nf)]
    label = "label"
    tuples = []
    for _ in range(rng.randint(2, 5)):
        big = rng.random() < 0.4
        maker = rng.choice([nosep_pair, nosep_pair, nosep_pair, seponly_pair, concat_pair])
        pr = maker(rng, big)
        if pr is None:
            continue
        j = rng.randint(0, nf - 2)                      # the two adjacent constituents carrying the pair
        shared = [rng.choice(["5", "", "12", long_str(rng, rng.randint(10, 30)), long_str(rng, 101, "09")]) for _ in range(nf)]
        for half in pr:
            t = list(shared)
            t[j], t[j + 1] = half
            tuples.append(t)
    while len(tuples) < 3:
        tuples.append([long_str(rng, rng.randint(10, 120)) for _ in range(nf)])
    nrows = rng.randint(len(tuples), len(tuples) + 12)
    body = list(tuples) + [rng.choice(tuples) for _ in range(nrows - len(tuples))]
    rng.shuffle(body)
    rows = [t + [rng.choice("01")] for t in body]
    return {"names": names + [label], "rows": rows, "label": label, "order": order, "cap": 2 ** 15, "is3mr": False}


def gen_history(rng):
    """2..4 consecutive batches over the same columns in one process (the sampler's prior counts are NOT cleared
    between them), binding cap: later batches get combinations other than the leading ones"""
    nf = rng.randint(3, 5)
    names = [rng.choice(NAME_POOL) + str(i) for i in range(nf)]
    label = rng.choice(["label", "y"])
    pos = rng.randint(0, nf)
    order = rng.randint(2, min(3, nf - 1))
    ncand = len(list(itertools.combinations(range(nf), order)))
    nb = rng.randint(2, 4)
    cap = rng.randint(1, ncand - 1)
    batches = []
    for _ in range(nb):
        nrows = rng.randint(3, 40)
        fams = [rng.choice(["prefix", "delim", "unicode", "digits", "special"]) for _ in range(nf)]
        pools = [column_pool(rng, f) for f in fams]
        cols = [[rng.choice(pools[j]) for _ in range(nrows)] for j in range(nf)]
        if rng.random() < 0.5:          # the same value domain in every column: joint values of different pairs differ visibly
            shared = column_pool(rng, "prefix")
            cols = [[rng.choice(shared) for _ in range(nrows)] for _ in range(nf)]
        lab = [rng.choice("01") for _ in range(nrows)]
        allc = cols[:pos] + [lab] + cols[pos:]
        batches.append([[allc[j][i] for j in range(nf + 1)] for i in range(nrows)])
    case = {"names": names[:pos] + [label] + names[pos:], "label": label, "order": order, "cap": cap, "is3mr": False,
            "batches": batches}
    if rng.random() < 0.3:
        case["caps"] = [rng.randint(1, ncand) for _ in range(nb)]
    return case


def large_cases(seed):
    """Python-side judged frames.  Row counts just above 2**16 and not multiples of 2, 3, 4, 5, 7, 8; products of the per-column
    distinct counts beyond 2**31, 2**32, 2**63 and 2**64; each run with num_threads 1, 4, 8 and the CLI defaults otherwise."""
    off = seed % 97
    th = [1, 4, 8]
    out = [{"large": {"kind": "grid", "n": 300000, "mod": 1000, "offset": off, "threads": [8]}},
           {"large": {"kind": "dup", "n": 400000, "distinct": 150000, "mod": 500, "offset": off, "threads": [8]}}]
    for n, k, d in ((70003, 4, 300),          # 8.1e9  > 2**32
                    (70003, 2, 66000),        # 4.4e9  > 2**32 (d rows establish the codes, the rest carries the planted pairs)
                    (65537, 3, 1300),         # 2.2e9  > 2**31
                    (67003, 4, 60000),        # 1.3e19 > 2**63
                    (69997, 4, 66000),        # 1.9e19 > 2**64
                    (262147, 2, 200000)):     # 4e10; enough rows for birthday collisions of any 32-bit code
        out.append({"large": {"kind": "scale", "n": n, "k": k, "distinct": d, "offset": off, "seed": seed, "threads": th}})
    return out


def fixed_cases():
    """the witness of the repaired defect, and its relatives"""
    out = []
    out.append({"names": ["a", "b", "label"], "rows": [["caf\u00e9", "\u00c5", "0"], ["cafe\u0301", "\u00c5", "1"],
                                                      ["caf\u00e9", "A\u030a", "0"], ["caf\u00e9", "\u212b", "1"],
                                                      ["\ud55c", "3", "0"], ["\u1112\u1161\u11ab", "\uff13", "1"]],
                "label": "label", "order": 2, "cap": 100, "is3mr": False})
    out.append({"names": ["site", "zone", "site AND zone", "label"],
                "rows": [["s1", "z1", "keep-1", "0"], ["s1", "z2", "keep-2", "1"], ["s2", "z1", "keep-3", "0"]],
                "label": "label", "order": 2, "cap": 100, "is3mr": False})
    out.append({"names": ["a", "b", "label"], "rows": [["0", "AAAAAAAA3xyz", "0"], ["12AAAAAAAA", "xyz", "1"], ["0", "AAAAAAAA3xyz", "1"]],
                "label": "label", "order": 2, "cap": 100, "is3mr": False})
    out.append({"names": ["a", "b", "c", "label"], "rows": [["5", "0", "000000003999", "0"], ["5", "1200000000", "999", "1"]],
                "label": "label", "order": 3, "cap": 100, "is3mr": False})
    out.append({"names": ["a", "b", "label"], "rows": [["1", "11", "x"], ["11", "1", "x"], ["1", "11", "y"]],
                "label": "label", "order": 2, "cap": 100, "is3mr": False})
    out.append({"names": ["a", "b", "c", "label"],
                "rows": [["1:", "1", "", "0"], ["1", ":1", "", "0"], ["", "1:1", "", "1"], ["1", "", ":1", "1"],
                         ["2:1", "", "1", "0"], ["", "2:11", "", "1"], ["3:2:1", "0:", "", "1"]],
                "label": "label", "order": 3, "cap": 100, "is3mr": False})
    out.append({"names": ["a", "b", "label"], "rows": [["", "", "0"], ["", "0:", "0"], ["0:", "", "1"], ["0", ":", "1"],
                                                      ["0:0", ":", "1"]],
                "label": "label", "order": 2, "cap": 1, "is3mr": False})
    return out


def exhaustive_cases():
    """every 2-row frame of two feature columns over six values that stress both encodings (6^4 frames)"""
    V = ["", "1", "11", "1:", ":1", "2:"]
    out = []
    for a0, b0, a1, b1 in itertools.product(V, repeat=4):
        out.append({"names": ["a", "b", "label"], "rows": [[a0, b0, "0"], [a1, b1, "1"]], "label": "label", "order": 2,
                    "cap": 10, "is3mr": False})
    return out


def load_corpus(pid):
    d = os.path.join(vlib.VERIF, "corpus", pid)
    out = []
    if os.path.isdir(d):
        for f in sorted(os.listdir(d)):
            if f.endswith(".json"):
                out.append(json.load(open(os.path.join(d, f))))
    return out


# ---------------------------------------------------------------------------
def columns_of(case):
    n = len(case["names"])
    return [[row[j] for row in case["rows"]] for j in range(n)]


def frame_lit(names, cols):
    return "[" + "; ".join("(%s, %s)" % (vlib.strlit(nm), vlib.strlist(c)) for nm, c in zip(names, cols)) + "]"


def relabel(cells):
    ids = {}
    out = []
    for c in cells:
        if c not in ids:
            ids[c] = len(ids)
        out.append(ids[c])
    return out


def candidate_names(case):
    feats = [n for n in case["names"] if n != case["label"]]
    k = 2 if case.get("is3mr") else case["order"]
    if case["order"] <= 1:
        return {}
    sep = " AND_REL " if case.get("is3mr") else " AND "
    return {sep.join(c): c for c in itertools.combinations(feats, k)}


# the real estimator returns float32 and sums its strata in code order: 1e-6 (relative to max(1, |score|)) is ~8 float32 ulps
SCORE_TOL = 1e-6

HEADER = ("From Coq Require Import List NArith ZArith.\nFrom Outrank Require Import Features.Interact.\n"
          "Import ListNotations.\nOpen Scope N_scope.")


LARGE_CLAUSES = {
    "rows": "the original rows are left untouched (row count / row labels of the returned frame)",
    "names": 'named by joining its constituent feature names with " AND " (and the original names kept)',
    "originals": "the original columns are left untouched",
    "null": "the interaction feature takes a value on every row (one non-null string per row)",
    "function": "equal values on two rows IF the rows agree on every constituent feature",
    "injective": "equal values on two rows ONLY IF the rows agree on every constituent feature (up to 64-bit hash collisions)",
    "raises": "the call terminates normally",
}


def large_verdict(c, r):
    """large frames, decided Python-side (in impl_c10.judge_large): originals / names unchanged, every new cell a non-null
    string, tuple -> value a function and injective; each frame is run with num_threads 1, 4 and 8"""
    fail = None
    for run in r["runs"]:
        pr = run.get("problem")
        if pr:
            fail = (LARGE_CLAUSES.get(pr["clause"], pr["clause"]),
                    {"num_threads": run["num_threads"], "offending": {k: v for k, v in pr.items() if k != "clause"}})
            break
    return {"fail": fail, "impl": r, "large": True}


def evaluate_units(cases):
    """Run implementation and Coq checker on single frames (a unit with keep_state continues the previous unit's
    sampler history); returns per unit a dict {fail: None | (clause, detail), ...}."""
    res = vlib.run_impl("impl_c10.py", {"cases": cases})["results"]
    exprs, idx = [], []
    verdicts = [None] * len(cases)
    for i, (c, r) in enumerate(zip(cases, res)):
        if not r["ok"]:
            verdicts[i] = {"fail": ("the call terminates normally", r["error"]), "impl": r}
            continue
        if "large" in c:
            verdicts[i] = large_verdict(c, r)
            continue
        nd = len(c["names"])
        cols = columns_of(c)
        prefix_names, prefix_cols = r["names"][:nd], r["cols"][:nd]
        new_names, new_cols = r["names"][nd:], r["cols"][nd:]
        new_lit = "[" + "; ".join("(%s, %s)" % (vlib.strlit(nm), vlib.nlist(relabel(col)))
                                  for nm, col in zip(new_names, new_cols)) + "]"
        sep = "SEP_AND_REL" if c.get("is3mr") else "SEP_AND"
        exprs.append("let df := %s in let v := C10_verdicts %s df %s %d%%nat %s (%s)%%Z %s %s in "
                     "(v_prefix v, v_count v, v_distinct v, v_names v, v_parts v, "
                     "length (candidates df %s %d%%nat %s))" % (
                         frame_lit(c["names"], cols), sep, vlib.strlit(c["label"]), c["order"],
                         vlib.blit(c.get("is3mr", False)), c["cap"], frame_lit(prefix_names, prefix_cols), new_lit,
                         vlib.strlit(c["label"]), c["order"], vlib.blit(c.get("is3mr", False))))
        idx.append(i)
    vals = vlib.coq_eval("C10", HEADER, exprs, shard=12) if exprs else []
    for i, v in zip(idx, vals):
        c, r = cases[i], res[i]
        vp, vc, vd, vn, vparts, ncand = v
        nd = len(c["names"])
        new_names, new_cols = r["names"][nd:], r["cols"][nd:]
        fail = None
        if not r["index_ok"] or r["nrows"] != len(c["rows"]):
            fail = ("original rows untouched (the returned frame keeps the input's rows, in order, under the input's row labels)",
                    "nrows=%d index_ok=%s" % (r["nrows"], r["index_ok"]))
        elif not vp:
            fail = ("the original columns are left untouched", "first %d columns of the result differ from the input" % nd)
        elif not all(vn):
            bad = [new_names[k] for k, b in enumerate(vn) if not b]
            fail = ('named by joining its constituent feature names with " AND "',
                    "new column names that are not the join of a candidate combination: %r" % bad[:5])
        elif not vd or not vc:
            fail = ("interaction orders x cap values: one column per sampled combination",
                    "%d new columns (distinct=%s) for %d candidates under cap %d" % (len(new_names), vd, ncand, c["cap"]))
        elif not all(vparts):
            k = vparts.index(False)
            fail = ("equal values on two rows iff the rows agree on every constituent feature",
                    {"column": new_names[k], "witness": witness(c, new_names[k], new_cols[k])})
        elif r.get("nonstr"):
            fail = ("values of the new columns are strings (hash digests)", "non-str cells: %d" % r["nonstr"])
        elif r.get("score_agreement") and r["score_agreement"][0] > SCORE_TOL * r["score_agreement"][1]:
            sa = r["score_agreement"]
            fail = ("hence its score equals the score of the explicit value tuple",
                    {"column": sa[2], "scorer": sa[3], "score_of_interaction_column": sa[4], "score_of_tuple_coded_column": sa[5]})
        verdicts[i] = {"fail": fail, "impl": r, "coq": v, "ncand": ncand}
    return verdicts


def units_of(case):
    if "batches" in case:
        caps = case.get("caps") or [case["cap"]] * len(case["batches"])
        out = []
        for b, rows in enumerate(case["batches"]):
            u = {"names": case["names"], "rows": rows, "label": case["label"], "order": case["order"], "cap": caps[b],
                 "is3mr": case.get("is3mr", False)}
            if b > 0:
                u["keep_state"] = True
            out.append(u)
        return out
    return [case]


def evaluate(cases):
    """cases may be single frames, histories ({"batches": [...]}: consecutive calls in one process sharing the sampler's
    prior counts) or large-cardinality frames ({"large": params}).  Per case: first failing unit decides."""
    flat, owner = [], []
    for i, c in enumerate(cases):
        for u in units_of(c):
            flat.append(u)
            owner.append(i)
    uv = evaluate_units(flat)
    verdicts = [{"fail": None, "units": []} for _ in cases]
    for u, o, v in zip(flat, owner, uv):
        d = verdicts[o]
        b = len(d["units"])
        d["units"].append((u, v))
        if v["fail"] and not d["fail"]:
            d["fail"] = v["fail"]
            d["batch"] = b
            d["impl"] = v["impl"]
            d["coq"] = v.get("coq")
            d["unit"] = u
    for d in verdicts:
        d.setdefault("impl", d["units"][-1][1]["impl"])
    return verdicts


def witness(case, name, col):
    comb = candidate_names(case).get(name)
    if comb is None:
        return None
    pos = [case["names"].index(f) for f in comb]
    tup = [tuple(row[p] for p in pos) for row in case["rows"]]
    n = len(tup)
    for i in range(n):
        for j in range(i + 1, n):
            if i < len(col) and j < len(col) and (col[i] == col[j]) != (tup[i] == tup[j]):
                return {"rows": [i, j], "tuples": [list(tup[i]), list(tup[j])], "values": [col[i], col[j]],
                        "combination": list(comb)}
    return None


def shrinks(case, fail, batch=0):
    if "large" in case:
        return []
    if "batches" in case:
        out = []
        hist = dict(case, batches=case["batches"][:batch + 1])
        if case.get("caps"):
            hist["caps"] = case["caps"][:batch + 1]
        out.append(hist)
        w = fail[1].get("witness") if isinstance(fail[1], dict) else None
        small = [rows[:2] for rows in hist["batches"][:-1]]
        if w:
            out.append(dict(hist, batches=small + [[hist["batches"][-1][i] for i in w["rows"]]]))
        out.append(dict(hist, batches=small + [hist["batches"][-1]]))
        return out
    out = []
    w = fail[1].get("witness") if isinstance(fail[1], dict) else None
    if w:
        comb = w["combination"]
        keep = [case["names"].index(f) for f in comb]
        if case["label"] in case["names"]:
            keep.append(case["names"].index(case["label"]))
        rows = [[case["rows"][i][p] for p in keep] for i in w["rows"]]
        sub = {"names": [case["names"][p] for p in keep], "rows": rows, "label": case["label"],
               "order": len(comb), "cap": 1000, "is3mr": False if len(comb) != 2 else case.get("is3mr", False)}
        if "index" in case:
            sub["index"] = [case["index"][i] for i in w["rows"]]
        out.append(sub)
        out.append(restrict(case, w["rows"]))
        if "index" in case:
            out.append({k: v for k, v in sub.items() if k != "index"})
    out.append(restrict(case, range(min(3, len(case["rows"])))))
    out.append(restrict(case, range(max(3, len(case["rows"]) // 2))))
    return out


def restrict(case, rows):
    rows = [i for i in rows if i < len(case["rows"])]
    c = dict(case, rows=[case["rows"][i] for i in rows])
    if "index" in case:
        c["index"] = [case["index"][i] for i in rows]
    return c


def old_encoding_aliases(case):
    """does plain concatenation merge two different tuples of some candidate combination in this frame?"""
    for name, comb in candidate_names(case).items():
        pos = [case["names"].index(f) for f in comb]
        seen = {}
        for row in case["rows"]:
            t = tuple(row[p] for p in pos)
            s = "".join(t)
            if seen.setdefault(s, t) != t:
                return True
    return False


def nontrivial(case, r):
    nd = len(case["names"])
    for col in r.get("cols", [])[nd:]:
        k = len(set(col))
        if 1 < k < len(col):
            return True
    return False


def check(run, replay):
    ok, log = vlib.build(["Features/Interact.vo"])
    run.oblige("build:model Features/Interact.vo", ok, "" if ok else log[-1500:])
    if not ok:
        raise vlib.Broken("build:Features/Interact.vo", log)
    if vlib.standard_proof_phase(run, ["Props/C10.vo"], "Outrank.Props.C10", THEOREMS):
        # the one theorem over R (MI estimator of MI/Model.v): exactly the four standard Reals axioms are allowed, for it only
        try:
            ax = vlib.audit(run.pid, "Outrank.Props.C10", ["C10_score_MI"], vlib.STD_REAL_AXIOMS)
            run.oblige("theorem:C10_score_MI", True, "axioms: " + ", ".join(ax["C10_score_MI"]))
            run.cov.setdefault("axioms_per_theorem", {})["C10_score_MI"] = ax["C10_score_MI"]
            run.trusted.append("C10_score_MI only: standard-library Reals axioms " + ", ".join(ax["C10_score_MI"]))
        except vlib.Broken as b:
            run.oblige(b.obligation, False, b.detail)
            run.violation("broken-obligation", b.obligation, found_input=False, extra=b.detail[-3000:])

    if replay is not None:
        cases = [replay["case"]]
    else:
        cases = load_corpus("C10") + fixed_cases()
        n = 170 if run.tier == "quick" else 1500
        for _ in range(n):
            cases.append(gen_case(run.rng))
        for _ in range(40 if run.tier == "quick" else 400):
            cases.append(gen_history(run.rng))
        for _ in range(30 if run.tier == "quick" else 300):
            cases.append(gen_long(run.rng))
        cases.extend(large_cases(run.seed))
        if run.tier == "thorough":
            cases.extend(exhaustive_cases())
    verdicts = evaluate(cases)

    # informational: the Python mirror of enc used by impl_c10.digest_exact is the Coq enc (sample tuples)
    sample = []
    for c in cases[:40]:
        for row in c.get("rows", [])[:3]:
            sample.append(list(row))
    sample = sample[:100] + [[], [""], ["", ""], ["0123456789"], ["x" * 10, "y" * 100]]
    try:
        got = vlib.coq_eval("C10", HEADER, ["map enc [%s]" % "; ".join(vlib.strlist(t) for t in sample)])[0]
        mirror = ["".join("%d:%s" % (len(v), v) for v in t) for t in sample]
        run.cov["python_mirror_of_enc_equals_coq_enc_on_samples"] = [vlib.from_codes(x) for x in got] == mirror
    except vlib.Broken:
        run.cov["python_mirror_of_enc_equals_coq_enc_on_samples"] = None

    hist = {"rows": {}, "order": {}, "non_default_row_index": sum(1 for c in cases if "index" in c), "histories": 0,
            "history_batches": 0, "large_frames": [], "binding_cap": 0, "is3mr": 0, "impl_errors": 0, "new_columns": 0,
            "plain_concatenation_would_alias": 0, "selection_is_first_cap_in_itertools_order": 0,
            "history_selection_differs_from_first_cap": 0}
    failing = []
    for c, v in zip(cases, verdicts):
        nontriv = False
        if "batches" in c:
            hist["histories"] += 1
            hist["history_batches"] += len(c["batches"])
        for u, uvd in v["units"]:
            r = uvd["impl"]
            if "large" in u:
                hist["large_frames"].append({"params": u["large"], "runs": [
                    {"num_threads": x.get("num_threads"), "rows": x.get("nrows"), "columns": x.get("columns"),
                     "problem": (x.get("problem") or {}).get("clause")} for x in r.get("runs", [])],
                    "cli_defaults_from_parser": r.get("cli_defaults_from_parser")})
                nontriv = nontriv or bool(r.get("ok"))
                continue
            b = min(len(u["rows"]) // 25 * 25, 200)
            hist["rows"]["%d+" % b] = hist["rows"].get("%d+" % b, 0) + 1
            hist["order"][u["order"]] = hist["order"].get(u["order"], 0) + 1
            hist["is3mr"] += 1 if u.get("is3mr") else 0
            if not r.get("ok"):
                hist["impl_errors"] += 1
            else:
                nd = len(u["names"])
                hist["new_columns"] += len(r["names"]) - nd
                if r.get("score_agreement"):
                    sa = r["score_agreement"]
                    hist["columns_scored_against_tuple_coding"] = hist.get("columns_scored_against_tuple_coding", 0) + (len(r["names"]) - nd)
                    hist["worst_score_difference"] = max(hist.get("worst_score_difference", 0.0), sa[0] / sa[1])
                if r.get("digest_exact"):
                    hist["columns_equal_to_xxh64_of_model_enc"] = hist.get("columns_equal_to_xxh64_of_model_enc", 0) + r["digest_exact"][0]
                if 0 <= u["cap"] < uvd.get("ncand", 0) or u["cap"] < 0:
                    hist["binding_cap"] += 1
                exp = list(candidate_names(u).keys())
                k = len(r["names"]) - nd
                if r["names"][nd:] == exp[:k]:
                    hist["selection_is_first_cap_in_itertools_order"] += 1
                elif u.get("keep_state"):
                    hist["history_selection_differs_from_first_cap"] += 1
                nontriv = nontriv or nontrivial(u, r)
            if old_encoding_aliases(u):
                hist["plain_concatenation_would_alias"] += 1
        run.count_case(c, nontriv)
        if v["fail"]:
            failing.append((c, v))
    run.oblige("correspondence:compute_combined_features output passes C10_check (prefix, names, count, partitions), "
               "single frames, batch histories and large-cardinality frames",
               not failing, "%d of %d cases rejected" % (len(failing), len(cases)))

    # shrink the first few failing cases (one more implementation + Coq round)
    if failing:
        todo = failing[:4]
        cand = []
        owner = []
        if replay is None:
            for k, (c, v) in enumerate(todo):
                for s in shrinks(c, v["fail"], v.get("batch", 0)):
                    cand.append(s)
                    owner.append(k)
        sv = []
        if cand:
            try:
                sv = evaluate(cand)
            except vlib.Broken:
                sv = []
        for k, (c, v) in enumerate(todo):
            best, bestv = c, v
            for s, o, w in zip(cand, owner, sv):
                if o == k and w and w["fail"] and w["fail"][0] == v["fail"][0]:
                    if len(json.dumps(s)) < len(json.dumps(best)):
                        best, bestv = s, w
            r = bestv["impl"]
            if "large" in best:
                best = dict(best, observed=bestv["fail"][1])      # generator parameters + the colliding tuples
            nd = len(best.get("names", []))
            run.violation("counterexample", "C10_check on compute_combined_features output", case=best,
                          impl={"names": r.get("names"), "new_columns": r.get("cols", [])[nd:nd + 6],
                                "error": r.get("error"), "failing_batch(0-based)": bestv.get("batch", 0)},
                          model={"coq_verdicts(prefix,count,distinct,names,partitions,ncandidates)": repr(bestv.get("coq"))[:600],
                                 "detail": bestv["fail"][1]},
                          clause=bestv["fail"][0])
    run.cov["input_distribution"] = hist
    run.cov["exhaustive"] = False
    if run.tier == "thorough" and replay is None:
        run.cov["exhaustive_small_scope"] = "all 1296 two-row frames of two feature columns over ['', '1', '11', '1:', ':1', '2:']"
    run.samples = cases[:2]
    run.assumptions += [
        "hash cells of each new column are relabelled to ids by a Python dict (equal id <-> equal cell); "
        "hash values are never compared",
        "the sampler counter GLOBAL_PRIOR_COMB_COUNTS (and any other GLOBAL_* container of the module) is cleared before each "
        "case and kept between the batches of a history case; which combinations are kept under a "
        "binding cap is checked as: distinct, each the join of a candidate, cap_len many (the choice among ties is C07's)",
        "column names contain no ' AND ' (names of distinct combinations are then distinct)",
        "C10_equal_iff / C10_rows_iff / C10_score* assume no collision among the strings hashed for the frame at hand "
        "(no_collision; 64-bit collisions are outside the statement); global injectivity of the hash is not assumed",
        "supporting comparison (not a proof): every new column of a small frame and an explicitly tuple-coded column are scored "
        "by the real numba MI estimator (correction off/on) and max-value-coverage against the label; equal to 1e-6 relative",
    ]
    run.assumptions.append("args namespaces start from the defaults of outrank/__main__.py's parser (num_threads=8, ...) "
                           "and override label / order / cap; large frames are additionally run with num_threads 1 and 4")
    run.trusted += ["harness: tools/props/c10.py (generator, relabelling of hash cells, witness search), "
                    "tools/impl/impl_c10.py (drives the real code, reads the frame by position)",
                    "coqparse.py (reads the terms coqc prints)",
                    "pandas .str.len() = number of code points and str(int) = decimal digits (held by the correspondence)"]
