"""C12 — transformations compute what their names say; degenerate ones are dropped."""
from __future__ import annotations

import json
import math
import os
import re
import sys
from collections import Counter
from fractions import Fraction

import vlib

sys.path.insert(0, os.path.join(vlib.VERIF, "tools"))
import translate_presets as TP  # noqa: E402

LEVEL = "proof"
RULE = ("frames of 1-3 numeric string columns (negatives, zeros, 1e300, empties, quoted numbers, constants, columns whose "
        "majority / nan share sits at 80% / 75% +-1 row, int / float typed columns) x preset lists over minimal, default, "
        "fw-transformers, run through FeatureTransformerGeneric.construct_new_features; non-trivial = some column has both "
        "kept and dropped transformers; distinct = distinct (preset, columns)")
THEOREMS = ["C12_fw_family", "C12_fw_function", "C12_fw_closed",
            "C12_named_sqrt", "C12_named_log_x1", "C12_named_sqrt_abs", "C12_named_log_abs1", "C12_named_sign_log",
            "C12_named_arcsinh", "C12_named_log_sqrt", "C12_named_log100", "C12_named_nonzero",
            "C12_named_round_div_max", "C12_named_cover", "C12_presets_nested", "C12_round_half_even",
            "C12_column_max", "C12_conditions_total", "C12_sizes", "C12_keep", "C12_keep_meaning", "C12_parse",
            "C12_parse_quotes", "C12_parse_digits", "C12_union", "C12_union_last_wins", "C12_union_nodup",
            "C12_split_join", "C12_check_sound", "C12_model_emitted",
            "C12_emitted_iff", "C12_text_classes", "C12_denQ_sound", "C12_exact_model_sound", "C12_den3_refines_den",
            "C12_parse3", "C12_parse_numeral", "C12_parse_print", "C12_float_thresholds", "C12_registry_subset"]
MODEL_TARGETS = ["Features/Transform.vo", "Features/Transform3.vo", "Gen/Presets.vo", "Gen/TransformConstants.vo", "Features/TransformTables.vo"]
HEADER = ("From Coq Require Import List NArith ZArith QArith.\n"
          "From Outrank Require Import Features.Transform Features.Transform3 Gen.Presets Gen.TransformConstants "
          "Features.TransformTables.\n"
          "Import ListNotations.\nLocal Close Scope Q_scope.\nOpen Scope N_scope.")
TOL = 1e-9
NAN = float("nan")
INF = float("inf")

# ---------------------------------------------------------------------------
# IEEE double primitives (what numpy does element-wise), used by the two Python evaluators


def f_sqrt(x):
    if x != x or x < 0:
        return NAN
    return math.sqrt(x)


def f_log(x):
    if x != x or x < 0:
        return NAN
    if x == 0:
        return -INF
    if x == INF:
        return INF
    return math.log(x)


def f_div(a, b):
    if a != a or b != b:
        return NAN
    if b == 0:
        if a == 0:
            return NAN
        return math.copysign(INF, a) * math.copysign(1.0, b)
    if math.isinf(a) and math.isinf(b):
        return NAN
    return a / b


def f_pow(a, n):
    r = 1.0
    for _ in range(n):
        r = r * a
    return r


def f_round(x, d=0):
    """numpy rint (half to even), keeping the sign of zero; d > 0 as numpy: rint(x * 10^d) / 10^d"""
    if x != x or math.isinf(x):
        return x
    if d:
        s = float(10 ** d)
        return f_round(x * s) / s
    if abs(x) >= 2.0 ** 52:
        return x
    return math.copysign(float(round(x)), x)


class Fragile:
    """collects places where a result hinges on the last bits of a float (rounding ties, near-equal comparisons)"""

    def __init__(self):
        self.hit = False

    def tie(self, v):
        if v == v and not math.isinf(v) and abs(v) < 2.0 ** 52:
            d = v - math.floor(v)
            if abs(d - 0.5) <= 1e-9 * max(1.0, abs(v)):
                self.hit = True

    def near(self, a, b):
        if a != b and a == a and b == b and not math.isinf(a) and not math.isinf(b):
            if abs(a - b) <= 1e-12 * max(abs(a), abs(b)):
                self.hit = True


_CMPF = {"CLt": lambda a, b: a < b, "CLe": lambda a, b: a <= b, "CGt": lambda a, b: a > b,
         "CGe": lambda a, b: a >= b, "CEq": lambda a, b: a == b, "CNe": lambda a, b: a != b}


def ev(t, xs, x, fr):
    """independent evaluation of a translated expression tree in IEEE doubles (mirror of Transform.den, but with
    nan / inf kept apart as numpy does)"""
    k = t[0]
    if k == "X":
        return x
    if k == "Lit":
        return float(Fraction(t[2], t[3]))
    if k == "Add":
        return ev(t[1], xs, x, fr) + ev(t[2], xs, x, fr)
    if k == "Sub":
        return ev(t[1], xs, x, fr) - ev(t[2], xs, x, fr)
    if k == "Mul":
        return ev(t[1], xs, x, fr) * ev(t[2], xs, x, fr)
    if k == "Div":
        return f_div(ev(t[1], xs, x, fr), ev(t[2], xs, x, fr))
    if k == "Neg":
        return -ev(t[1], xs, x, fr)
    if k == "Sqrt":
        return f_sqrt(ev(t[1], xs, x, fr))
    if k == "Log":
        return f_log(ev(t[1], xs, x, fr))
    if k == "Abs":
        return abs(ev(t[1], xs, x, fr))
    if k == "Pow":
        return f_pow(ev(t[1], xs, x, fr), t[2])
    if k == "Round":
        v = ev(t[1], xs, x, fr)
        fr.tie(v * 10 ** t[2] if t[2] else v)
        return f_round(v, t[2])
    if k == "Where":
        a, b = ev(t[2], xs, x, fr), ev(t[3], xs, x, fr)
        fr.near(a, b)
        vt, vf = ev(t[4], xs, x, fr), ev(t[5], xs, x, fr)   # numpy evaluates both branches
        return vt if _CMPF[t[1]](a, b) else vf
    if k == "MaxX":
        m = xs[0]
        for y in xs[1:]:
            if y != y:
                return NAN
            if y > m:
                m = y
        return m
    raise ValueError("unknown tree node %r" % (k,))


# the same trees over the reals (mirror of Transform.den: None = not a finite real), computed with 60 significant
# digits on the exact decimal value of the cell; informational: measures where double arithmetic departs from the
# real-number reading (overflow, cancellation, rounding ties)
import decimal  # noqa: E402

_DCTX = decimal.Context(prec=60, Emax=10 ** 9, Emin=-10 ** 9, rounding=decimal.ROUND_HALF_EVEN)
_CMPD = _CMPF


def evR(t, xs, x):
    k = t[0]
    D = decimal.Decimal
    if k == "X":
        return x
    if k == "Lit":
        return _DCTX.divide(D(t[2]), D(t[3]))
    if k in ("Add", "Sub", "Mul", "Div"):
        a, b = evR(t[1], xs, x), evR(t[2], xs, x)
        if a is None or b is None:
            return None
        if k == "Add":
            return _DCTX.add(a, b)
        if k == "Sub":
            return _DCTX.subtract(a, b)
        if k == "Mul":
            return _DCTX.multiply(a, b)
        return None if b == 0 else _DCTX.divide(a, b)
    a = evR(t[1], xs, x) if k in ("Neg", "Sqrt", "Log", "Abs", "Pow", "Round") else None
    if k in ("Neg", "Sqrt", "Log", "Abs", "Pow", "Round"):
        if a is None:
            return None
        if k == "Neg":
            return _DCTX.minus(a)
        if k == "Sqrt":
            return None if a < 0 else _DCTX.sqrt(a)
        if k == "Log":
            return _DCTX.ln(a) if a > 0 else None
        if k == "Abs":
            return _DCTX.abs(a)
        if k == "Pow":
            return _DCTX.power(a, t[2])
        s = D(10) ** t[2]
        return _DCTX.divide(_DCTX.multiply(a, s).to_integral_value(rounding=decimal.ROUND_HALF_EVEN), s)
    if k == "Where":
        a, b = evR(t[2], xs, x), evR(t[3], xs, x)
        if a is None or b is None:
            return None
        return evR(t[4], xs, x) if _CMPD[t[1]](a, b) else evR(t[5], xs, x)
    if k == "MaxX":
        return max(xs) if xs else None
    raise ValueError(k)


# hand-written reading of the names (mirrors Transform.rd_* / fw_fun; the Coq theorems C12_named_* and C12_fw_family
# tie the translated formulas to these readings over R; here they are evaluated in doubles on the same inputs as the
# implementation so that a wrong formula yields a concrete failing input)
_FW = re.compile(r"^_tr_fw_(prob_)?(sqrt|log)_res_(\d+)_gt_(\d+(?:\.\d+)?)$")


def _rd_fw(m):
    f = f_sqrt if m.group(2) == "sqrt" else f_log
    res = float(int(m.group(3)))
    thr = float(m.group(4))

    def g(xs, x, fr):
        if x < thr:
            return x
        if x > thr:
            v = f(x - thr) * res
            fr.tie(v)
            return f_round(v)
        return 0.0
    return g


def _rd_log100(xs, x, fr):
    v = f_log(x + 1.0) * 100.0
    fr.tie(v)
    return f_round(v)


def _rd_round_div_max(xs, x, fr):
    v = f_div(x, ev(["MaxX"], xs, x, fr))
    fr.tie(v)
    return f_round(v)


def _rd_sign_log(xs, x, fr):
    # the name, literally: div(x, abs(x)) * log(abs(x)); = sign(x) * log|x| on finite x != 0, nan at 0 and at +-inf
    return f_div(x, abs(x)) * f_log(abs(x))


READING = {
    "_tr_sqrt": lambda xs, x, fr: f_sqrt(x),
    "_tr_log(x+1)": lambda xs, x, fr: f_log(x + 1.0),
    "_tr_sqrt(abs(x))": lambda xs, x, fr: f_sqrt(abs(x)),
    "_tr_log(abs(x)+1)": lambda xs, x, fr: f_log(abs(x) + 1.0),
    "_tr_div(x,abs(x))*log(abs(x))": _rd_sign_log,
    "_tr_log(x + sqrt(pow(x,2), 1)": lambda xs, x, fr: f_log(x + f_sqrt(x * x + 1.0)),
    "_tr_log*sqrt": lambda xs, x, fr: f_log(x + 1.0) * f_sqrt(x),
    "_tr_log*100": _rd_log100,
    "_tr_nonzero": lambda xs, x, fr: 1.0 if x != 0 else 0.0,
    "_tr_round(div(x,max))": _rd_round_div_max,
}


def reading_of(name):
    if name in READING:
        return READING[name]
    m = _FW.match(name)
    if m:
        return _rd_fw(m)
    return None


def close(a, b):
    """comparison with relative tolerance on finite values; nan only equals nan and an infinity only the same infinity
    (IEEE classes are deterministic: den3 in Coq and the Python evaluators specify them)"""
    fa = a == a and not math.isinf(a)
    fb = b == b and not math.isinf(b)
    if not fa or not fb:
        return (a != a and b != b) or (math.isinf(a) and math.isinf(b) and (a > 0) == (b > 0))
    if a == b:
        return True
    return abs(a - b) <= TOL * max(abs(a), abs(b))


def keep_py(strs):
    n = len(strs)
    c = Counter(strs)
    return len(c) > 1 and 5 * max(c.values()) < 4 * n and 4 * c.get("nan", 0) < 3 * n


def near_dupes(vals):
    """two different values within the tolerance of each other: the number of distinct rendered values then
    hinges on the last bits"""
    fs = sorted(v for v in vals if v == v and not math.isinf(v))
    for a, b in zip(fs, fs[1:]):
        if a != b and abs(a - b) <= TOL * max(abs(a), abs(b)):
            return True
    return False


# ---------------------------------------------------------------------------
# generators

PRESET_LISTS = [("minimal", 18), ("default", 26), ("fw-transformers", 12), ("default,minimal", 9), ("minimal,default", 9),
                ("fw-transformers,minimal", 5), ("minimal,fw-transformers", 4), ("default,fw-transformers", 3),
                ("minimal,minimal", 3), ("fw-transformers,default,minimal", 3), ("default,default,minimal", 2)]
# (names containing the project's own separator '_tr_' are ordinary feature names)
COLNAMES = ["f1", "price", "x_2", "ctr", "é", "a b", "col-3", "Q", "n_tr", "clicks_tr_raw", "_tr_", "n_tr_1"]
GRID = [1, 2, 4, 8, 16, 32, 64, 96]


def _pick_preset(rng):
    tot = sum(w for _, w in PRESET_LISTS)
    r = rng.uniform(0, tot)
    for p, w in PRESET_LISTS:
        r -= w
        if r <= 0:
            return p
    return PRESET_LISTS[0][0]


def _num(rng):
    k = rng.random()
    if k < 0.25:
        return str(rng.randint(-20, 120))
    if k < 0.40:
        return "%.2f" % rng.uniform(-5, 100)
    if k < 0.52:
        return "0.%02d" % rng.randint(0, 99)
    if k < 0.64:
        g = rng.choice(GRID)
        return rng.choice([str(g), str(g), "%d.0" % g, str(g + 1), str(g - 1), "%d.5" % g, "0.%02d" % g, "0.%02d" % g])
    if k < 0.72:
        return rng.choice(["0", "0.0", "0", "00", "-0.0", "0e0"])
    if k < 0.80:
        return rng.choice(["1e300", "-1e300", "1e-300", "1.5e308", "1e154", "1e155", "-1e155", "123456789012345678",
                           "-1e9", "-3e8", "1e16"])
    if k < 0.86:
        return rng.choice(["3e2", "2.5E-3", "+7", "7.", ".5", "-.25", "1E+2", "-12.50e1", "0.1", "0.3"])
    if k < 0.92:       # edge values float() accepts: infinities, nan, largest / subnormal magnitudes, negative zero
        return rng.choice(["inf", "-inf", "inf", "-inf", "nan", "1e308", "-1e308", "-0.0", "1e-320", "Infinity", "-INF"])
    return str(rng.randint(-3, 3))


def _quote(rng, t):
    k = rng.random()
    if k < 0.16:
        return '"' + t + '"'
    if k < 0.18 and len(t) > 1:
        return t[0] + '"' + t[1:]
    return t


def _distinct_pos(rng, k, avoid=()):
    out = []
    seen = set(avoid)
    while len(out) < k:
        v = rng.choice(["%d" % rng.randint(2, 5000), "%.3f" % rng.uniform(1.5, 900)])
        if float(v) not in seen:
            seen.add(float(v))
            out.append(v)
    return out


def gen_column(rng, style):
    if style == "mixed":
        n = rng.randint(2, 40)
        cells = [("" if rng.random() < 0.09 else _quote(rng, _num(rng))) for _ in range(n)]
    elif style == "prob":
        n = rng.randint(3, 40)
        cells = [rng.choice(["0.%02d" % rng.randint(0, 99), "0.%03d" % rng.randint(0, 999), "1", "0", "",
                             "0.%02d" % rng.choice(GRID)]) for _ in range(n)]
    elif style == "counts":
        n = rng.randint(3, 40)
        cells = [str(rng.choice([rng.randint(0, 200), rng.choice(GRID), rng.randint(0, 10)])) for _ in range(n)]
    elif style == "constant":
        n = rng.randint(1, 12)
        v = rng.choice(["", "0", "5", "-2.5", '"7"', "1e300"])
        cells = [v] * n
        if rng.random() < 0.3 and n > 1:   # same number written differently: one distinct value after parsing
            cells[0] = {"": "0", "0": "", "5": "5.0", "-2.5": "-2.50", '"7"': "7", "1e300": "1E300"}[v]
    elif style == "majority":
        n = rng.choice([5, 10, 15, 20, 25, 40, 50])
        m = min(n, max(1, 4 * n // 5 + rng.choice([-1, 0, 1])))
        a = rng.choice(["3", "0", "", "17.5", "1", "0.5"])
        cells = [a] * m + _distinct_pos(rng, n - m, avoid=[float(a or 0)])
        rng.shuffle(cells)
    elif style == "nanshare":
        n = rng.choice([4, 8, 12, 20, 40])
        q = min(n, max(0, 3 * n // 4 + rng.choice([-1, 0, 1])))
        neg = []
        seen = set()
        while len(neg) < q:
            v = "-%d" % rng.randint(2, 9000)
            if v not in seen:
                seen.add(v)
                neg.append(v)
        cells = neg + _distinct_pos(rng, n - q)
        rng.shuffle(cells)
    elif style == "tiny":
        n = rng.randint(1, 3)
        cells = [rng.choice(["", "1", "2", "-1", "0", '"4"', "100"]) for _ in range(n)]
    elif style == "ints":
        n = rng.randint(2, 30)
        cells = [rng.choice([rng.randint(-10, 150), rng.choice(GRID), 0]) for _ in range(n)]
    elif style == "floats":
        n = rng.randint(2, 30)
        cells = [rng.choice([round(rng.uniform(-3, 120), 2), float(rng.choice(GRID)), rng.choice(GRID) / 100, 0.0, 1e300,
                             -2.5]) for _ in range(n)]
    elif style == "int64_huge":      # epoch milliseconds, byte counts, ids: 1e10 .. 1e15, both signs
        n = rng.randint(3, 20)
        k = rng.random()
        if k < 0.4:
            base = rng.randint(1_500_000_000_000, 1_800_000_000_000)
            step = rng.choice([86_400_000, 3_600_000, 1000, 1])
            cells = [base + i * step for i in range(n)]
        elif k < 0.8:
            cells = [rng.choice([1, -1]) * rng.randint(10 ** rng.randint(10, 14), 10 ** 15) for _ in range(n)]
        else:
            cells = [rng.choice([3_037_000_499, 3_037_000_500, 3_037_000_501, -3_037_000_500, 4_294_967_296,
                                 rng.randint(3 * 10 ** 9, 10 ** 11)]) for _ in range(n)]
    elif style == "int32_big":       # around and above sqrt(2^31) = 46340.95
        n = rng.randint(3, 20)
        cells = [rng.choice([46340, 46341, 46342, -46341, 65536, rng.randint(46000, 47000),
                             rng.randint(50_000, 2_000_000_000), -rng.randint(50_000, 2_000_000_000)]) for _ in range(n)]
    elif style == "uint_big":
        n = rng.randint(3, 20)
        cells = [rng.choice([65535, 65536, 4_294_967_295, rng.randint(70_000, 4_000_000_000), rng.randint(0, 50)])
                 for _ in range(n)]
    elif style == "int_mixed":       # small and huge values in one integer column
        n = rng.randint(4, 24)
        cells = [rng.choice([rng.randint(-20, 120), rng.choice(GRID), 0, rng.randint(10 ** 10, 10 ** 15),
                             -rng.randint(10 ** 10, 10 ** 13), rng.randint(1_600_000_000_000, 1_800_000_000_000)])
                 for _ in range(n)]
    elif style == "float32":         # values exactly representable in float32
        n = rng.randint(3, 20)
        cells = [rng.choice([rng.randint(-400, 4000) / 4.0, float(rng.choice(GRID)), 0.0, 16777216.0, -0.5, 17179869184.0])
                 for _ in range(n)]
    elif style == "pyfloat":         # everything Python's float() accepts that a text column can carry
        n = rng.randint(3, 16)
        pool = [" 12 ", "1_000", "\t3.5", "7\n", "nan", "NaN", "-nan", "inf", "-inf", "Infinity", "+INF", "-INFINITY",
                "1e5", "1_0.2_5", "1E1_0", " -0.0 ", "\" 4\"", "+.5e1", "2", "0", "", "16", "9"]
        cells = [rng.choice(pool) for _ in range(n)]
        if rng.random() < 0.25:      # one cell that makes float() raise: the construction must fail, nothing else
            cells[rng.randrange(n)] = rng.choice(["abc", "1__0", "_1", "1_", "1 2", "1._5", "1_.5", "0x10", "e5", ".", "--1",
                                                  "in f", "nane", "1e", "1e+"])
    elif style == "squares":         # values on which the composed model is computable in Q (exact square roots)
        n = rng.randint(3, 24)
        g = rng.choice(GRID)
        cells = [rng.choice([str(rng.randint(0, 30) ** 2), str(rng.randint(0, 30) ** 2), str(g + rng.randint(0, 12) ** 2),
                             "%s" % (rng.randint(0, 40) ** 2 / 4.0), "-%d" % rng.randint(1, 9), "0", "", "-0.0", str(g),
                             "0.%02d" % rng.choice(GRID), "1", "2"]) for _ in range(n)]
    else:
        raise ValueError(style)
    return cells


# numpy dtype a typed style is stored with (None: pandas' default for Python ints / floats)
STYLE_DTYPES = {"int64_huge": ["int64"], "int32_big": ["int32"], "uint_big": ["uint32", "uint64"],
                "int_mixed": ["int64", None], "float32": ["float32"], "ints": [None, "int64", "int32", "int16"],
                "floats": [None, "float64"]}


STYLES = [("mixed", 28), ("prob", 9), ("counts", 9), ("constant", 6), ("majority", 13), ("nanshare", 11), ("tiny", 5),
          ("ints", 5), ("floats", 4), ("int64_huge", 6), ("int32_big", 4), ("uint_big", 2), ("int_mixed", 4), ("float32", 2),
          ("pyfloat", 7), ("squares", 9)]


def _pick_style(rng):
    tot = sum(w for _, w in STYLES)
    r = rng.uniform(0, tot)
    for s, w in STYLES:
        r -= w
        if r <= 0:
            return s
    return "mixed"


def gen_case(rng, big=False):
    preset = _pick_preset(rng)
    ncols = rng.choice([1, 1, 2, 3]) if "fw" not in preset else rng.choice([1, 1, 2] if big else [1])
    names = rng.sample(COLNAMES, ncols)
    styles = [_pick_style(rng) for _ in range(ncols)]
    cols = [gen_column(rng, s) for s in styles]
    n = min(len(c) for c in cols)
    if "fw" in preset and not big:
        n = min(n, 12)
    cols = [c[:n] for c in cols]
    case = {"preset": preset, "columns": [[nm, c] for nm, c in zip(names, cols)], "styles": styles}
    dtypes = {}
    for nm, s in zip(names, styles):
        dt = rng.choice(STYLE_DTYPES[s]) if s in STYLE_DTYPES else None
        if dt:
            dtypes[nm] = dt
    if dtypes:
        case["dtypes"] = dtypes
    if rng.random() < 0.5:
        case["extra"] = [["label", [rng.choice(["a", "b", ""]) for _ in range(n)]]]
    if rng.random() < 0.10:      # a raw column that already carries a name the construction will generate
        k = rng.choice(["_tr_sqrt", "_tr_log(x+1)", "_tr_sqrt(abs(x))", "_tr_log(abs(x)+1)"])
        case.setdefault("extra", []).append([names[0] + k, ["raw%d" % rng.randint(0, 3) for _ in range(n)]])
    return case


def exhaustive_cases():
    """all columns of length 1..4 over five kinds of cell, default preset"""
    import itertools
    alpha = ["", "0", "1", "-2", '"3"']
    out = []
    for ln in range(1, 5):
        for cells in itertools.product(alpha, repeat=ln):
            out.append({"preset": "default", "columns": [["c", list(cells)]], "styles": ["exhaustive"]})
    return out


def load_corpus(pid):
    d = os.path.join(vlib.VERIF, "corpus", pid)
    out = []
    if os.path.isdir(d):
        for f in sorted(os.listdir(d)):
            if f.endswith(".json"):
                out.append(json.load(open(os.path.join(d, f))))
    return out


_EXPO = re.compile(r"[eE]([+-]?)(\d[\d_]*)")


def _moderate(t):
    """cells on which exact rational arithmetic in Coq stays cheap (the composed model is evaluated on these only;
    integer square roots of 300-digit numbers take seconds in vm_compute)"""
    if len(t) > 24:
        return False
    m = _EXPO.search(t)
    return not (m and len(m.group(2).replace("_", "")) > 0 and int(m.group(2).replace("_", "") or 0) > 15)


def cell_text(c):
    """what str(x) gives inside get_vals for a cell of the frame"""
    if isinstance(c, str):
        return c
    if isinstance(c, bool):
        return str(c)
    if isinstance(c, int):
        return str(c)
    return repr(float(c))


# ---------------------------------------------------------------------------

def enc_str(s):
    """strings travel as literal code-point lists (one big numeral per string is 3x slower for coqc to read)"""
    return vlib.strlit(s)


def enc_list(ss):
    return "[" + "; ".join(enc_str(s) for s in ss) + "]"


# ---------------------------------------------------------------------------
# pipeline level: the transformed columns must reach the ranking

PIPE_FAM = "pipeline: transformed columns reach the ranking (compute_batch_ranking / ranking task)"
PIPE_PRESETS = ["minimal", "default", "minimal,default", "default,minimal", "minimal,minimal", "fw-transformers,minimal"]


def gen_pipe_case(rng):
    level = "batch" if rng.random() < 0.62 else "task"
    n = rng.randint(12, 48)
    numeric = rng.sample(["x", "price", "ctr"], rng.choice([1, 1, 2]))
    cats = rng.sample(["cat", "site", "geo"], rng.choice([1, 2]))
    cols = ["label"] + numeric + cats
    rng.shuffle(cols)
    rows = []
    styles = {c: rng.choice(["quarters", "ints", "signed", "prob", "sparse"]) for c in numeric}
    for i in range(n):
        row = []
        for c in cols:
            if c == "label":
                row.append(str(i % 2))
            elif c in numeric:
                s = styles[c]
                if s == "quarters":
                    v = repr(rng.randint(0, 60) * 0.25)
                elif s == "ints":
                    v = str(rng.randint(0, 200))
                elif s == "signed":
                    v = rng.choice([str(rng.randint(-30, 90)), "%.2f" % rng.uniform(-3, 50), "0"])
                elif s == "prob":
                    v = "0.%02d" % rng.randint(0, 99)
                else:                                      # mostly zero: several transformers become degenerate
                    v = rng.choice(["0", "0", "0", "0", "0", "0", str(rng.randint(1, 9))])
                if level == "batch" and rng.random() < 0.05:
                    v = ""                                 # (the direct entry takes the parsed rows; '' = 0)
                row.append(v)
            else:
                row.append("%s%d" % (c[0], rng.randint(0, 4)))
        rows.append(row)
    preset = rng.choice(PIPE_PRESETS if level == "batch" or rng.random() < 0.8 else ["minimal", "default"])
    if "fw" in preset and level == "task":
        preset = "default,minimal"
    focus = None
    if rng.random() < 0.55:          # a focus set that retains every numeric feature (the unchanged code needs that)
        f = numeric + [c for c in cats if rng.random() < 0.5]
        rng.shuffle(f)
        focus = ",".join(f)
    return {"level": level, "columns": cols, "rows": rows, "numeric": numeric, "label": "label",
            "transformers": preset, "focus": focus,
            # (the task with --heuristic Constant never writes the checkpoint it later reads: not a case)
            "heuristic": "Constant" if level == "batch" else "MI-numba-randomized"}


def pipeline_family(run, pipe_cases, exprs_of, viol):
    """Names only (values are covered by the direct family): the set of <feature><transformer> columns that reach
    mixed_rank_graph / pairwise_ranks.tsv = the non-degenerate ones of the union preset, and the input columns are kept.
    Expected side: union from Coq `select`; keep decision by Coq `keep_row` on the strings of the independent IEEE
    evaluation of the translated formulas on the float parse of the cells."""
    st = {"cases": len(pipe_cases), "batch": 0, "task": 0, "with_focus": 0, "preset_lists": 0, "expected_transformed": 0,
          "expected_dropped": 0, "excluded_rounding_sensitive": 0, "impl_errors": 0}
    if not pipe_cases:
        return st
    scratch = os.path.join("/root/scratch", "c12_pipe_%d" % os.getpid())
    res = vlib.run_impl("impl_c12_pipe.py", {"scratch": scratch, "cases": pipe_cases})["results"]
    presets = sorted({c["transformers"] for c in pipe_cases})
    exprs = ["sel_names %s" % vlib.strlit(p) for p in presets]
    info = {}
    for i, c in enumerate(pipe_cases):
        for col in c["numeric"]:
            j = c["columns"].index(col)
            xs = []
            for r in c["rows"]:
                tx = r[j].replace('"', "")
                xs.append(float(tx) if tx else 0.0)
            info[(i, col)] = xs
    sel = dict(zip(presets, vlib.coq_eval("C12p", HEADER, exprs)))
    exprs, keys = [], []
    for i, c in enumerate(pipe_cases):
        s = sel[c["transformers"]]
        names = None if s is None else ["".join(chr(x) for x in nm) for nm in s[1]]
        for col in c["numeric"]:
            xs = info[(i, col)]
            pats, sens = [], []
            for k in names or []:
                tre = exprs_of.get(k)
                if tre is None:
                    pats.append(None)
                    sens.append(True)
                    continue
                fr = Fragile()
                mvs = [ev(tre[1], xs, x, fr) for x in xs]
                strs = [repr(v) for v in mvs]
                tbl = sorted(set(strs))
                ix = {s_: n_ for n_, s_ in enumerate(tbl)}
                pats.append("expandN %s %s" % (enc_list(tbl), vlib.nlist([ix[s_] for s_ in strs])))
                sens.append(fr.hit or near_dupes(mvs))
            exprs.append("map keep_row [%s]" % "; ".join(p for p in pats if p is not None))
            keys.append((i, col, names, pats, sens))
    vals = vlib.coq_eval("C12p", HEADER, exprs, shard=16) if exprs else []
    expected = {}
    for (i, col, names, pats, sens), rowsv in zip(keys, vals):
        it = iter(rowsv)
        for k, p, sflag in zip(names, pats, sens):
            row = next(it) if p is not None else None
            expected.setdefault(i, {})[col + k] = None if (sflag or row is None) else bool(row[0])
    for i, (c, r) in enumerate(zip(pipe_cases, res)):
        st[c["level"]] += 1
        st["with_focus"] += 1 if c["focus"] else 0
        st["preset_lists"] += 1 if "," in c["transformers"] else 0
        case = {k: c[k] for k in ("level", "columns", "rows", "numeric", "label", "transformers", "focus", "heuristic")}
        nontrivial = bool(c["focus"]) or "," in c["transformers"]
        run.count_case(["pipe", c["level"], c["transformers"], c["focus"], c["rows"]], nontrivial)
        if not r.get("ok"):
            st["impl_errors"] += 1
            viol(PIPE_FAM, case, impl=r.get("error"), clause="the %s runs with --transformers %s%s" % (
                "ranking task" if c["level"] == "task" else "batch ranking", c["transformers"],
                " --feature_set_focus %s" % c["focus"] if c["focus"] else ""))
            continue
        exp = expected.get(i, {})
        must = {n_ for n_, v in exp.items() if v is True}
        never = {n_ for n_, v in exp.items() if v is False}
        st["expected_transformed"] += len(must)
        st["expected_dropped"] += len(never)
        st["excluded_rounding_sensitive"] += sum(1 for v in exp.values() if v is None)
        keep_inputs = [x for x in c["columns"] if not c["focus"] or x in set(c["focus"].split(",")) | {c["label"]}]
        seen = r.get("columns") if c["level"] == "batch" else r.get("ranked")
        where = "the frame handed to mixed_rank_graph" if c["level"] == "batch" else "pairwise_ranks.tsv"
        if seen is None:
            viol(PIPE_FAM, case, impl=r, clause="the ranking task writes pairwise_ranks.tsv")
            continue
        got_tr = {x for x in seen if x not in c["columns"]}
        missing = sorted(must - got_tr)
        extra = sorted(x for x in got_tr if x in never or x not in exp)
        lost_inputs = [x for x in keep_inputs if x not in seen]
        if missing or extra or lost_inputs:
            viol(PIPE_FAM, case, impl={"transformed columns in " + where: sorted(got_tr),
                                       "args.transformers seen by compute_batch_ranking": r.get("transformers_seen")},
                 model={"non-degenerate transformers of the selected presets": sorted(must)},
                 clause=("%s lacks %s" % (where, missing[:4]) if missing else
                         "%s has unexpected %s" % (where, extra[:4]) if extra else
                         "input columns %s are not kept" % lost_inputs)
                        + " (--transformers %s, --feature_set_focus %s)" % (c["transformers"], c["focus"]))
        elif c["level"] == "batch" and r.get("ranked") is not None and set(r["ranked"]) != set(seen):
            viol(PIPE_FAM, case, impl=sorted(set(seen) ^ set(r["ranked"])),
                 clause="every column of the enriched frame is ranked")
    return st


def tables_python(tr):
    """python-side encoding of the translated tables, same prefix code as TransformTables.expr_code"""
    cmpi = {"CLt": 0, "CLe": 1, "CGt": 2, "CGe": 3, "CEq": 4, "CNe": 5}

    def code(t):
        k = t[0]
        if k == "X":
            return [0]
        if k == "Lit":
            f = Fraction(t[2], t[3])
            return [1, ("Q", f)]
        if k in ("Add", "Sub", "Mul", "Div"):
            return [{"Add": 2, "Sub": 3, "Mul": 4, "Div": 5}[k]] + code(t[1]) + code(t[2])
        if k in ("Neg", "Sqrt", "Log", "Abs"):
            return [{"Neg": 6, "Sqrt": 7, "Log": 8, "Abs": 9}[k]] + code(t[1])
        if k in ("Pow", "Round"):
            return [{"Pow": 10, "Round": 11}[k], t[2]] + code(t[1])
        if k == "Where":
            return [12, cmpi[t[1]]] + code(t[2]) + code(t[3]) + code(t[4]) + code(t[5])
        if k == "MaxX":
            return [13]
        raise ValueError(k)
    return {p: [(r["name"], code(r["expr"])) for r in rows] for p, rows in tr["tables"].items()}


def same_code(py, cq):
    """py: python prefix code with ('Q', Fraction) literals; cq: list of ints from Coq (literal = 1, num, den)"""
    i = 0
    for item in py:
        if isinstance(item, tuple):
            if i + 1 >= len(cq) or cq[i + 1] == 0 or Fraction(cq[i], cq[i + 1]) != item[1]:
                return False
            i += 2
        else:
            if i >= len(cq) or cq[i] != item:
                return False
            i += 1
    return i == len(cq)


def check(run, replay):
    # one C12 run at a time: the translator rewrites coq/Gen/*.v, which the case files of this run load later
    with vlib._Lock("c12.lock"):
        _check(run, replay)


def _check(run, replay):
    # ---- 1. translator, build, proofs ----------------------------------------------------------------------
    if True:   # (block kept for the indentation of the serialised section)
        tr = None
        try:
            tr = TP.translate(vlib.REPO)
            problems = tr["problems"]
        except TP.Refuse as e:
            problems = [str(e)]
        tr_ok = not problems
        run.oblige("translator:presets+constants (fail-closed)", tr_ok, "; ".join(problems)[:1500])
        if tr_ok:
            unread = (tr.get("constants") or {}).get("unread", {})
            run.cov["glue_constants_read_from_source"] = {
                "keep rule": "keep rule" not in unread, "numeric parse (get_vals)": "numeric parse (get_vals)" not in unread,
                "separator": "separator" not in unread}
            for item, why in unread.items():
                # an unrecognised SHAPE of glue is not an alarm: the correspondence decides (boundary columns at exactly
                # 80 % / 75 %, 1 and 2 distinct values, empty / quoted cells and preset lists are in every run); a
                # recognised shape with other operators / constants breaks C12_keep / C12_parse3 instead
                run.notes.append("translator: %s not recognised in the source (%s); its constants are held by the "
                                 "correspondence only in this run" % (item, why[:300]))
            changed = TP.write(tr)
            run.notes.append("translator: %s" % ("rewrote " + ", ".join(changed) if changed else "generated files unchanged"))
        else:
            run.violation("broken-obligation", "translator refuses: " + "; ".join(problems)[:600], found_input=False,
                          extra=problems[:20])
            run.notes.append("translator refused; the previously generated coq/Gen files are used for the failing-input search")
        model_ok, log = vlib.build(MODEL_TARGETS)
        run.oblige("build:model Features/Transform.vo + Gen + TransformTables.vo", model_ok, "" if model_ok else log[-1500:])
        if not model_ok:
            raise vlib.Broken("build:Features/TransformTables.vo", log)
        vlib.standard_proof_phase(run, ["Props/C12.vo"], "Outrank.Props.C12", THEOREMS, allowed=vlib.STD_REAL_AXIOMS)

        # the tables Coq compiled are the ones evaluated below in Python
        if tr_ok:
            pyt = tables_python(tr)
            cq = vlib.coq_eval("C12t", HEADER, ["table_code minimal_table", "table_code default_table", "table_code fw_table",
                                                "(resolution_range, greater_than_range)"])
            same = True
            for p, got in zip(TP.PRESETS, cq[:3]):
                exp = pyt[p]
                if len(exp) != len(got):
                    same = False
                    continue
                for (n1, c1), (n2, c2) in zip(exp, got):
                    if [ord(ch) for ch in n1] != list(n2) or not same_code(c1, list(c2)):
                        same = False
            if (list(cq[3][0]), list(cq[3][1])) != (tr["resolution_range"], tr["greater_than_range"]):
                same = False
            run.oblige("translator:tables compiled by Coq = trees evaluated in Python", same)
            if not same:
                run.violation("broken-obligation", "translator: Coq tables differ from the Python trees", found_input=False)

    if tr is not None:
        unmodelled = [k for k in tr.get("registry_keys", []) if k not in TP.PRESETS]
        run.cov["registry"] = {"modelled": TP.PRESETS, "vault_keys_not_modelled": unmodelled}
        run.oblige("registry: modelled presets are keys of the vault registry (others recorded, outside C12)",
                   all(p in tr.get("registry_keys", []) for p in TP.PRESETS), "not modelled: %s" % unmodelled)
    exprs_of = {}
    if tr is not None:
        for p in TP.PRESETS:
            for r in tr["tables"].get(p, []):
                if r["expr"] is not None:
                    exprs_of.setdefault(r["name"], (r["formula"], r["expr"]))

    # ---- 2. cases, implementation ------------------------------------------------------------------------------
    pipe_cases = []
    if replay is not None and replay.get("case"):
        if "level" in replay["case"]:
            cases, pipe_cases = [], [replay["case"]]
        else:
            cases = [replay["case"]]
    else:      # (a replay of a broken obligation without input re-runs the whole check)
        cases = [c for c in load_corpus("C12") if "level" not in c]
        pipe_cases = [c for c in load_corpus("C12") if "level" in c]
        for _ in range(26 if run.tier == "quick" else 160):
            pipe_cases.append(gen_pipe_case(run.rng))
        n = 130 if run.tier == "quick" else 1500
        for _ in range(n):
            cases.append(gen_case(run.rng, big=(run.tier == "thorough")))
        if run.tier == "thorough":
            cases.extend(exhaustive_cases())
    res = vlib.run_impl("impl_c12.py", {"cases": cases})["results"]

    # ---- 3. model in Coq ------------------------------------------------------------------------------------
    presets = sorted({c["preset"] for c in cases})
    exprs = ["sel_names %s" % vlib.strlit(p) for p in presets]
    keys = []
    confirm = {}
    which_of = {}
    for i, (c, r) in enumerate(zip(cases, res)):
        if not r.get("ok"):
            if r.get("stage") != "init":     # did the construction fail because a cell is not a number?
                for col, cells in c["columns"]:
                    exprs.append("map (fun s => pres_code (parse_cell3 s)) %s" % enc_list([cell_text(x) for x in cells]))
                    keys.append(("p", i, col))
            continue
        coll_names = [k for k, _ in r["collection"]]
        new_names = [nm for nm, _ in r["new"]]
        for col, cells in c["columns"]:
            rend = r["rendered"][col]
            if any(isinstance(x, dict) for x in rend):
                continue
            cand = {col + k for k in coll_names}
            obs = [nm for nm in new_names if nm in cand]
            tbl = []
            ix = {}
            pats = []
            pix = {}
            which = []
            for strs in rend:
                idx = []
                for s in strs:
                    if s not in ix:
                        ix[s] = len(tbl)
                        tbl.append(s)
                    idx.append(ix[s])
                key = tuple(idx)
                if key not in pix:      # identical rendered columns (frequent in the fw family) travel once
                    pix[key] = len(pats)
                    pats.append("expandN tbl %s" % vlib.nlist(idx))
                which.append(pix[key])
            small = len(rend) * len(cells) <= 250
            full = ("C12_check (%s, %s, map (fun i => nth (N.to_nat i) pats []) %s) %s"
                    % (vlib.strlit(c["preset"]), vlib.strlit(col), vlib.nlist(which), vlib.strlist(obs)))
            confirm[(i, col)] = "let tbl := %s in let pats := [%s] in %s" % (enc_list(tbl), "; ".join(pats), full)
            exprs.append(
                "let tbl := %s in let pats := [%s] in let cells := %s in (%s, map keep_row pats, "
                "map (fun s => pres_code (parse_cell3 s)) cells, %s)"
                % (enc_list(tbl), "; ".join(pats), enc_list([cell_text(x) for x in cells]), full if small else "true",
                   ("keepQ_column %s cells" % vlib.strlit(c["preset"])) if all(_moderate(cell_text(x)) for x in cells)
                   else "@None (list (option bool))"))
            which_of[(i, col)] = (which, small)
            keys.append((i, col))
    vals = vlib.coq_eval("C12", HEADER, exprs, shard=24 if run.tier == "quick" else 40, jobs=12)
    model_sel = dict(zip(presets, vals[:len(presets)]))
    model_col = dict(zip(keys, vals[len(presets):]))

    # ---- 4. comparison ------------------------------------------------------------------------------------------
    hist = {"presets": {}, "styles": {}, "rows": {}, "kept": 0, "dropped_constant": 0, "dropped_majority": 0,
            "dropped_nan": 0, "majority_exactly_80pct": 0, "majority_one_row_below": 0, "nan_exactly_75pct": 0,
            "nan_one_row_below": 0, "nan_rule_decisive": 0, "impl_errors": 0, "quoted_cells": 0, "empty_cells": 0,
            "frames_with_a_non_numeric_cell (both raise)": 0, "nan_cells": 0, "inf_cells": 0, "blank_or_underscore_cells": 0}
    stats = {"columns": 0, "transformed_columns": 0, "values_vs_translated_expr": 0, "values_vs_reading": 0,
             "nonfinite_values": 0, "decisions_vs_independent_values": 0, "excluded_rounding_sensitive_values": 0,
             "excluded_rounding_sensitive_decisions": 0, "names_without_reading": 0, "names_without_translation": 0,
             "parse_cells": 0, "C12_check_in_coq": 0, "real_number_reading_agrees": 0,
             "real_number_reading_differs_float_effect": 0, "composed_model_decisions": 0,
             "composed_model_not_computable_in_Q": 0, "composed_model_excluded_not_exactly_representable": 0}
    real_budget = [60000 if run.tier == "quick" else 400000]
    float_effects = []
    fe_seen = set()
    fam_ok = {"pipeline: transformed columns reach the ranking (compute_batch_ranking / ranking task)": True,
              "names (C12_check on the implementation's rendered values)": True, "union (transformer_collection)": True,
              "parse (get_vals)": True, "values vs translated formula": True, "values vs reading of the name": True,
              "keep/drop vs independently computed values": True, "appended columns carry the rendered values": True,
              "names vs the composed Coq model evaluated on the raw cells": True}
    MAXV = 12

    def viol(fam, case, **kw):
        fam_ok[fam] = False
        if len(run.violations) < MAXV:
            run.violation("counterexample", fam, case=case, **kw)

    def one_col(c, col):
        return _with_dtype(c, col, {"preset": c["preset"], "columns": [[n_, v_] for n_, v_ in c["columns"] if n_ == col]})

    for i, (c, r) in enumerate(zip(cases, res)):
        hist["presets"][c["preset"]] = hist["presets"].get(c["preset"], 0) + 1
        for s in c.get("styles", []):
            hist["styles"][s] = hist["styles"].get(s, 0) + 1
        nrows = len(c["columns"][0][1]) if c["columns"] else 0
        b = "1" if nrows == 1 else "2-5" if nrows <= 5 else "6-20" if nrows <= 20 else "21+"
        hist["rows"][b] = hist["rows"].get(b, 0) + 1
        msel = model_sel[c["preset"]]
        msel = None if msel is None else ["".join(chr(x) for x in nm) for nm in msel[1]]
        nontrivial = False
        if not r.get("ok"):
            hist["impl_errors"] += 1
            if r.get("stage") == "init" and msel is None:
                run.count_case([c["preset"], c["columns"]], False)
                continue
            if r.get("stage") != "init" and "ValueError" in str(r.get("error", "")) and any(
                    pc[0] == 3 for col_, _ in c["columns"] for pc in model_col.get(("p", i, col_), [])):
                # the model says float() raises on some cell of this frame: the failure is the specified behaviour
                hist["frames_with_a_non_numeric_cell (both raise)"] += 1
                run.count_case([c["preset"], c["columns"]], False)
                continue
            viol("union (transformer_collection)" if r.get("stage") == "init" else
                 "names (C12_check on the implementation's rendered values)", c, impl=r.get("error"),
                 model="selection of %d transformers" % len(msel) if msel is not None else "NotImplementedError",
                 clause="construction terminates normally on numeric columns")
            run.count_case([c["preset"], c["columns"]], False)
            continue
        coll = r["collection"]
        coll_names = [k for k, _ in coll]
        # union: same names in the same order; formula of each name = formula of the last listed preset defining it
        if msel is None or msel != coll_names:
            viol("union (transformer_collection)", {"preset": c["preset"], "columns": [["c", ["1", "2", "3"]]]},
                 impl=coll_names[:12] + (["... %d names" % len(coll_names)] if len(coll_names) > 12 else []),
                 model=(msel[:12] + ["... %d names" % len(msel)]) if msel is not None else None,
                 clause="a comma-separated preset list selects the union of the presets (got %d names, union has %s)"
                        % (len(coll_names), len(msel) if msel is not None else "an error"))
        if tr is not None:
            src = {}
            for p in c["preset"].split(","):
                for row in tr["tables"].get(p, []):
                    src[row["name"]] = row["formula"]
            for k, v in coll:
                if k in src and src[k] != v:
                    viol("union (transformer_collection)", {"preset": c["preset"], "columns": [["c", ["1", "2", "3"]]]},
                         impl=[k, v], model=[k, src[k]], clause="later presets override earlier ones")
        new = {nm: vs for nm, vs in r["new"]}
        if r.get("originals_intact") is False:
            viol("appended columns carry the rendered values", c, impl="an original column changed",
                 clause="the input columns are kept as they are (judged by position)")
        if r.get("rows_after") != nrows:
            viol("appended columns carry the rendered values", c, impl=r.get("rows_after"), model=nrows,
                 clause="appended columns are row-aligned")
        claimed = set()
        for col, cells in c["columns"]:
            stats["columns"] += 1
            rend = r["rendered"][col]
            bad = [(k, x["error"]) for (k, _), x in zip(coll, rend) if isinstance(x, dict)]
            if bad:
                viol("values vs translated formula", one_col(c, col), impl=bad[0][1],
                     clause="formula %r evaluates to a column" % bad[0][0])
                continue
            chk, prow, parses, kq_col = model_col[(i, col)]
            which, small = which_of[(i, col)]
            rows = [prow[w] for w in which]
            stats["C12_check_in_coq"] += 1 if small else 0
            # -- parse (four-way: value / nan / inf / ValueError)
            xs = []
            xq = []
            exact_cells = True
            for cell, pc, iv in zip(cells, parses, r["vals"][col]):
                t = cell_text(cell)
                tag, pnum, pden, pneg = pc
                hist["quoted_cells"] += 1 if '"' in t else 0
                hist["empty_cells"] += 1 if t.replace('"', "") == "" else 0
                hist["blank_or_underscore_cells"] += 1 if (t != t.strip() or "_" in t) else 0
                stats["parse_cells"] += 1
                fiv = float(iv)
                if tag == 3:
                    viol("parse (get_vals)", _with_dtype(c, col, {"preset": c["preset"], "columns": [[col, [cell]]]}),
                         impl=iv, model="ValueError", clause="float() of the cell raises; the implementation returned a value")
                    xs.append(fiv)
                    xq = None
                    continue
                if tag == 1:
                    hist["nan_cells"] += 1
                    xv, q = NAN, None
                elif tag == 2:
                    hist["inf_cells"] += 1
                    xv, q = (-INF if pneg else INF), None
                else:
                    q = Fraction(pnum, pden) * (-1 if pneg else 1)
                    try:
                        xv = float(q)
                    except OverflowError:
                        xv = -INF if pneg else INF
                    if xv == 0 and pneg:
                        xv = -0.0
                    if math.isinf(xv) or Fraction(xv) != q:
                        exact_cells = False
                same = (fiv != fiv and xv != xv) or fiv == xv or (
                    not math.isinf(fiv) and not math.isinf(xv) and abs(fiv - xv) <= 1e-12 * abs(xv))
                if not same:
                    viol("parse (get_vals)", _with_dtype(c, col, {"preset": c["preset"], "columns": [[col, [cell]]]}), impl=iv,
                         model=repr(xv), clause="numeric parse of the cell (empty string = 0, quotes stripped, Python float())")
                xs.append(xv)
                if xq is not None:
                    xq = xq + [_DCTX.divide(decimal.Decimal(q.numerator), decimal.Decimal(q.denominator))] \
                        if q is not None else None
            # -- names: the Coq checker on the implementation's own rendered values
            cand = {col + k: k for k in coll_names}
            obs = sorted(nm for nm in new if nm in cand)
            claimed.update(obs)
            exp = sorted(col + k for k, row in zip(coll_names, rows) if row[0])
            if chk and exp != obs:
                # large columns: the per-column set comparison is done here on the Coq-computed keep verdicts; a
                # disagreement is confirmed by the Coq checker C12_check itself
                chk = vlib.coq_eval("C12c", HEADER, [confirm[(i, col)]])[0]
                stats["C12_check_in_coq"] += 1
                if chk:
                    raise vlib.Broken("harness: C12_check accepts what the per-row verdicts reject", repr((exp, obs))[:1500])
            if not chk:
                diff = sorted(set(exp) ^ set(obs))
                k0 = cand.get(diff[0]) if diff else None
                j = coll_names.index(k0) if k0 in coll_names else 0
                d, mx, nn, ln = rows[j][2]
                viol("names (C12_check on the implementation's rendered values)", one_col(c, col),
                     impl={"appended": obs}, model={"expected": exp},
                     clause="%s is %s although its rendered column has %d distinct values, most frequent value %d of %d "
                            "rows, %d nan" % (diff[0] if diff else "?", "appended" if diff and diff[0] in obs else "dropped",
                                              d, mx, ln, nn),
                     extra={"rendered": rend[j][:60]})
            kept_here = dropped_here = 0
            for j, ((k, formula), strs, row) in enumerate(zip(coll, rend, rows)):
                stats["transformed_columns"] += 1
                kspec, kcode, (d, mx, nn, ln) = row
                name = col + k
                emitted = name in new
                if kspec:
                    hist["kept"] += 1
                    kept_here += 1
                else:
                    dropped_here += 1
                    if d <= 1:
                        hist["dropped_constant"] += 1
                    elif not 5 * mx < 4 * ln:
                        hist["dropped_majority"] += 1
                    else:
                        hist["dropped_nan"] += 1
                hist["majority_exactly_80pct"] += 1 if 5 * mx == 4 * ln else 0
                hist["majority_one_row_below"] += 1 if 5 * mx < 4 * ln <= 5 * (mx + 1) else 0
                hist["nan_exactly_75pct"] += 1 if 4 * nn == 3 * ln else 0
                hist["nan_one_row_below"] += 1 if 4 * nn < 3 * ln <= 4 * (nn + 1) else 0
                hist["nan_rule_decisive"] += 1 if (d > 1 and 5 * mx < 4 * ln and not 4 * nn < 3 * ln) else 0
                if emitted and new[name] != strs:
                    viol("appended columns carry the rendered values", one_col(c, col), impl=new[name][:40], model=strs[:40],
                         clause="column %s holds, as text, the transformer's formula applied to the parsed feature" % name)
                # -- values
                try:
                    ivs = [float(s) for s in strs]
                except ValueError:
                    viol("values vs translated formula", one_col(c, col), impl=strs[:40],
                         clause="rendered values of %s are numbers" % name)
                    continue
                tre = exprs_of.get(k)
                rd = reading_of(k)
                if tre is None:
                    stats["names_without_translation"] += 1
                if rd is None:
                    stats["names_without_reading"] += 1
                fr_col = Fragile()
                fr_rd = Fragile()
                rvs = []
                mvs = []
                for rix, (x, iv) in enumerate(zip(xs, ivs)):
                    if iv != iv or math.isinf(iv):
                        stats["nonfinite_values"] += 1
                    if tre is not None and tre[0] == formula:
                        fr = Fragile()
                        mv = ev(tre[1], xs, x, fr)
                        mvs.append(mv)
                        fr_col.hit = fr_col.hit or fr.hit
                        if fr.hit and not close(iv, mv):
                            stats["excluded_rounding_sensitive_values"] += 1
                        else:
                            stats["values_vs_translated_expr"] += 1
                            if not close(iv, mv):
                                viol("values vs translated formula", _value_case(c, col, cells, xs, rix, tre[1]),
                                     impl=strs[rix], model=repr(mv),
                                     clause="%s at X=%r: implementation %s, independent evaluation of %r gives %r"
                                            % (name, x, strs[rix], formula, mv))
                    if tre is not None and tre[0] == formula and real_budget[0] > 0 and xq is not None:
                        real_budget[0] -= 1
                        try:
                            rr = evR(tre[1], xq, xq[rix])
                        except (decimal.InvalidOperation, decimal.Overflow, ArithmeticError):
                            rr = "error"
                        fin = iv == iv and not math.isinf(iv)
                        if rr == "error":
                            pass
                        elif (rr is None and not fin) or (rr is not None and fin and close(iv, float(rr))):
                            stats["real_number_reading_agrees"] += 1
                        else:
                            stats["real_number_reading_differs_float_effect"] += 1
                            if len(float_effects) < 10 and (k, repr(x)) not in fe_seen:
                                fe_seen.add((k, repr(x)))
                                float_effects.append({"transformer": k, "X": repr(x), "double": strs[rix],
                                                      "real": None if rr is None else "%.12g" % float(rr)})
                    if rd is not None:
                        fr = Fragile()
                        rv = rd(xs, x, fr)
                        rvs.append(rv)
                        fr_rd.hit = fr_rd.hit or fr.hit
                        if fr.hit and not close(iv, rv):
                            stats["excluded_rounding_sensitive_values"] += 1
                        else:
                            stats["values_vs_reading"] += 1
                            if not close(iv, rv):
                                viol("values vs reading of the name", _value_case(c, col, cells, xs, rix, ["MaxX"]),
                                     impl=strs[rix], model=repr(rv),
                                     clause="%s at X=%r holds %s, the name reads as %r" % (name, x, strs[rix], rv))
                # -- keep/drop decided from the reading of the name (the only independent values when the formula has no
                #    translation in this run)
                if len(rvs) == len(xs) and xs and len(mvs) != len(xs):
                    ind = keep_py([repr(v) for v in rvs])
                    if ind != emitted and not (fr_rd.hit or near_dupes(rvs) or near_dupes(ivs)):
                        viol("keep/drop vs independently computed values", one_col(c, col),
                             impl={"appended": emitted}, model={"keep": ind},
                             clause="%s: emitted iff the named formula on the parsed cells has >1 distinct value, most frequent "
                                    "< 80%% of rows, nan < 75%% of rows" % name,
                             extra={"reading": [repr(v) for v in rvs][:60], "rendered": strs[:60]})
                # -- keep/drop decided from independently computed values
                if len(mvs) == len(xs) and xs:
                    ind = keep_py([repr(v) for v in mvs])
                    if ind != emitted:
                        if fr_col.hit or near_dupes(mvs) or near_dupes(ivs):
                            stats["excluded_rounding_sensitive_decisions"] += 1
                        else:
                            viol("keep/drop vs independently computed values", one_col(c, col),
                                 impl={"appended": emitted}, model={"keep": ind},
                                 clause="%s: emitted iff >1 distinct value, most frequent < 80%% of rows, nan < 75%% of rows"
                                        % name, extra={"independent": [repr(v) for v in mvs][:60], "rendered": strs[:60]})
                    else:
                        stats["decisions_vs_independent_values"] += 1
                # -- the composed Coq model (exact arithmetic on the raw cells), where it is computable
                kq = kq_col[1][j] if kq_col is not None and j < len(kq_col[1]) else None
                if kq is None:
                    stats["composed_model_not_computable_in_Q"] += 1
                elif not exact_cells or fr_col.hit or near_dupes(mvs) or near_dupes(ivs):
                    stats["composed_model_excluded_not_exactly_representable"] += 1
                else:
                    stats["composed_model_decisions"] += 1
                    if kq[1] != emitted:
                        viol("names vs the composed Coq model evaluated on the raw cells", one_col(c, col),
                             impl={"appended": emitted}, model={"keep": kq[1]},
                             clause="%s: emitted iff the text of the named formula on the parsed cells has >1 distinct value, "
                                    "most frequent < 80%% of rows, nan < 75%% of rows" % name,
                             extra={"rendered": strs[:60]})
            nontrivial = nontrivial or (kept_here > 0 and dropped_here > 0)
        stray = sorted(set(new) - claimed)
        if stray:
            viol("names (C12_check on the implementation's rendered values)", c, impl=stray[:10],
                 clause="every appended column is named <feature><transformer>")
        if sorted(r.get("constructed", [])) != sorted(new):
            viol("names (C12_check on the implementation's rendered values)", c, impl=r.get("constructed"),
                 model=sorted(new), clause="constructed_feature_names = appended columns")
        run.count_case([c["preset"], c["columns"]], nontrivial)

    run.cov["pipeline_family"] = pipeline_family(run, pipe_cases, exprs_of, viol)

    for fam, ok in fam_ok.items():
        run.oblige("correspondence:" + fam, ok)
    run.cov["input_distribution"] = hist
    run.cov["comparisons"] = stats
    run.cov["float_effect_examples"] = float_effects
    run.cov["exhaustive"] = False
    if run.tier == "thorough" and replay is None:
        run.cov["exhaustive_small_scope"] = "all columns of length 1..4 over the cells '', 0, 1, -2, \"3\" (780), default preset"
    run.cov["tolerance"] = ("values: relative 1e-9 (IEEE + - * / sqrt are identical in numpy and Python; log may differ in "
                            "the last place), nan/inf compared as 'not finite'; values and decisions that hinge on a "
                            "rounding tie (argument of round within 1e-9 of .5, near-equal operands of a comparison, two "
                            "values within 1e-9) are excluded and counted")
    run.samples = [dict(preset=cs["preset"], columns=cs["columns"]) for cs in cases[:3]]
    run.assumptions += [
        "cells are decimal numerals [+-]d*[.d*][e[+-]d+] (optionally quoted) or empty; other spellings float() accepts "
        "(inf, nan, underscores, surrounding blanks) are outside the modelled parse grammar and are not generated",
        "den (Coq, over R) and the Python evaluators of the translated trees are two interpreters of the same syntax; their "
        "agreement is by inspection (both are ~40 lines); the values comparison validates translator + interpreter "
        "against numpy, it is not a proof about numpy",
        "floating point: overflow (x^2 for |x| > 1e154) and cancellation (x + sqrt(x^2+1) for x << 0) make the double result "
        "differ from the real-number reading without bound; both evaluators reproduce the IEEE behaviour, the R theorems "
        "do not speak about it",
        "the rendered values of dropped columns are re-evaluated by the runner with the implementation's own formula "
        "strings (eval(v).astype(str)); for appended columns they are checked to be the appended strings",
        "float quotients max/n, nan/n against the doubles 0.8, 0.75 agree with the integer inequalities for n < 2^50 "
        "(theorem C12_float_thresholds, for any monotone rounding with relative error <= 2^-53)",
        "composed model (C12_emitted_iff / C12_exact_model_sound): numpy's astype(str) is assumed faithful on doubles (equal "
        "text iff same finite value and zero sign / both nan / same infinity; 'nan' iff nan); the model has exact arithmetic "
        "(no rounding, no overflow), so it is compared only on columns whose cells are exactly representable and of moderate "
        "size and where the Q instance answers",
        "'up to floating-point rounding' is NOT proved (partial clause): validated by differential execution against an "
        "independent IEEE evaluation; divergent cells are counted",
    ]
    run.trusted += ["tools/translate_presets.py (ast walker, text emission), tools/props/c12.py (generators, IEEE evaluator, "
                    "readings of the names), tools/impl/impl_c12.py (drives the real class)",
                    "coqparse.py (reads the terms coqc prints)"]


def _value_case(c, col, cells, xs, rix, tree):
    """one row suffices for an element-wise formula; formulas that look at the whole column keep the maximum too"""
    keep = {rix}
    if json.dumps(tree).find("MaxX") >= 0 and xs:
        keep.add(max(range(len(xs)), key=lambda j: xs[j]))
    rows = sorted(keep)
    # a frame of one or two rows is enough to reproduce a value (the column may then be dropped by the keep rule;
    # the harness compares the runner's rendered values in that case)
    return _with_dtype(c, col, {"preset": c["preset"], "columns": [[col, [cells[j] for j in rows]]]})


def _with_dtype(c, col, small):
    """reduced cases keep the storage type of the column"""
    if col in c.get("dtypes", {}):
        small["dtypes"] = {col: c["dtypes"][col]}
    return small
