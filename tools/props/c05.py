"""C05 — each emitted score is the selected heuristic applied to the two category-coded columns.

Flow of one run
  1. tools/translate_dispatch.py regenerates coq/Gen/Dispatch.v and coq/Gen/DocNames.v from $OUTRANK_REPO
     (fail-closed: a refusal is a broken obligation, the correspondence still runs to look for a failing input);
  2. build Pipeline/RankGraph.vo (model), Props/C05.vo (proofs incl. the vm_compute facts about the regenerated table),
     Print Assumptions audit;
  3. correspondence: generated string frames x every property-named / documented non-surrogate heuristic x
     target-only / pairwise are pushed through the real mixed_rank_graph / compute_batch_ranking (serial fake pool);
     every returned triplet (A, B, score) is compared with the value the property prescribes, computed from the
     MODEL's codes (Coq `codes`) of the two columns:
        MI, MI-numba, MI-numba-3mr  -> plug-in MI from exact counts (float64)                       [symmetric]
        MI-numba-randomized         -> Hcond(displace F T | T) - Hcond(F | T), H(F) when the code vectors coincide,
                                       (F, T) = (other, label) when the label is in the pair
        max-value-coverage          -> Coq `maxcov` (exact rational)
        correlation-Pearson / AMI   -> scipy / sklearn called directly on the model's codes (library oracles)
        Constant                    -> 0
"""
from __future__ import annotations

import json
import math
import os
import subprocess
from collections import Counter
from fractions import Fraction

import vlib
import translate_dispatch
from props import c01

LEVEL = "proof"
RULE = ("string frames (2..8 columns, 16..2000 rows, cardinalities 1..n, empty strings, unicode, digit-only ids, special "
        "tokens, copies / recodings / coarsenings / noisy copies of other columns, label anywhere) x every property-named "
        "and documented non-surrogate heuristic name x target-only / pairwise x entry point (mixed_rank_graph, "
        "compute_batch_ranking); every returned triplet is compared with the prescribed value on the model's codes; "
        "non-trivial = at least one compared row has a non-zero prescribed value (Constant: at least one row); "
        "distinct = distinct (frame, heuristic, mode, entry)")
THEOREMS = ["C05_table", "C05_no_silent_constant", "C05_doc_names_nonvacuous", "C05_flag_only_randomized",
            "C05_const_branch_iff", "C05_3mr_names_plain",
            "C05_codes_inj", "C05_codes_order", "C05_codes_dense", "C05_cats_distinct_values", "C05_orientation",
            "C05_maxcov_exact", "C05_maxcov_prefix_refuted", "C05_maxcov_old_only_upper",
            "C05_row_value", "C05_rows_scored", "C05_rows_constant", "C05_value_constant", "C05_value_plugin",
            "C05_value_randomized", "C05_value_maxcov", "C05_oracles"]

# the property's own wording per name; the class of every name is ALSO read from the generated dispatch (classify_names):
# both must agree (obligation), and names the property does not word are classified by the dispatch alone
TABLE = {
    "MI": "plugin64",
    "MI-numba": "plugin32",
    "MI-numba-3mr": "plugin32",
    "MI-numba-randomized": "corr32",
    "max-value-coverage": "maxcov",
    "correlation-Pearson": "pearson",
    "AMI": "ami",
    "Constant": "const",
}
F32 = 2.0 ** -24
GEN = os.path.join(vlib.COQ, "Gen")

# --------------------------------------------------------------------------------------------------
# exact-count scorers on code vectors (the prescribed values)


def entropy(v):
    n = len(v)
    return -sum(c / n * math.log(c / n) for c in Counter(v).values())


def hcond(y, x):
    """H(Y | X) = - sum_xy n_xy/n ln(n_xy / n_x)"""
    n = len(y)
    cx = Counter(x)
    return -sum(c / n * math.log(c / cx[b]) for (a, b), c in Counter(zip(y, x)).items())


def plugin_mi(f, t):
    n = len(f)
    cf, ct = Counter(f), Counter(t)
    return sum(c / n * math.log(n * c / (cf[a] * ct[b])) for (a, b), c in Counter(zip(f, t)).items())


def corrected(y, x):
    """-> (value, sum of |terms|): Hcond(displace Y X | X) - Hcond(Y | X); entropy for identical vectors"""
    if y == x:
        h = entropy(y)
        return h, 2 * h
    n = len(y)
    cx = Counter(x)
    yd = [y[(i + cx[x[i]]) % n] for i in range(n)]
    a, b = hcond(yd, x), hcond(y, x)
    return a - b, a + b


def same_partition(a, b):
    return len(set(zip(a, b))) == len(set(a)) == len(set(b))


def close(s, e, tol):
    if isinstance(s, str) or isinstance(e, str):
        return s == e
    return abs(s - e) <= tol


# --------------------------------------------------------------------------------------------------
# generators

UNI = ["\u00e9", "\u00df", "\u00f1", "\u4e2d", "\u6587", "\U0001f600", "\U0001d518", "\ue000", "\ufffd", "\u03a9", "\u0436", "a", "Z", "0", " ", "\u00ff", "\u0100"]
SPECIAL = ["", "nan", "NaN", "None", "null", "NA", "<NA>", " ", "0", "00", "-1", "1e3", "True", "\t", "a b", "A", "a"]
LETTERS = "abcdefghijklmnopqrstuvwxyzABCDEFGHIJKLMNOPQRSTUVWXYZ"
# strings that are equal under NFC / NFD / NFKC but different code-point sequences: (precomposed / compatibility, decomposed / plain)
EQUIV = [("Kr\u00e4nj", "Kra\u0308nj"), ("\u00c5s", "A\u030as"), ("\ud55c", "\u1112\u1161\u11ab"), ("\u00e9", "e\u0301"),
         ("\u00f1o", "n\u0303o"), ("\u212b", "\u00c5"), ("\u2126", "\u03a9"), ("\ufb01n", "fin"), ("\u2460", "1"),
         ("\uff21", "A"), ("\u1e69", "s\u0323\u0307"), ("\u01d6", "u\u0308\u0304")]
NFC_POOL = [s for pr in EQUIV for s in pr]
# whitespace-padded variants of a token T (space, tab, NBSP, ideographic space) and whitespace-only cells: all DISTINCT categories
WS_PADS = ["T", " T", "T ", "\tT", "T\t", "\u00a0T", "T\u00a0", "\u3000T", "T\u3000", " T ", "", " ", "\t", "\u00a0", "\u3000", "  "]
# cells that look like numbers: distinct strings, distinct categories
NUMLIKE = ["1", "1.0", "01", "1e3", "1000", "nan", "NaN", "inf", "-inf", "-0", "0", "0.0", "+1", "1.", ".1", "0.1", "1e0", "0x1", "1_0", "10"]
NAMES = ["f1", "f2", "feature", "x", "y", "é", "中", "user id", "0", "1", "id", "F", "a-b", "w_3", "col:7", "zz", "",
         "Label", "target", "k9", "p AND q", "u AND_REL v"]


def make_values(rng, k, style):
    vals = set()
    guard = 0
    while len(vals) < k:
        guard += 1
        if style == "digits":
            hi = rng.choice([k * 2 + 5, 10 ** 3 + k, 10 ** 6 + k, 10 ** 9])
            v = str(rng.randrange(0, hi))
        elif style == "words":
            v = "".join(rng.choice(LETTERS) for _ in range(rng.randint(1, 6)))
        elif style == "unicode":
            v = "".join(rng.choice(UNI + list(LETTERS[:6])) for _ in range(rng.randint(1, 4)))
        elif style == "nfc":
            v = rng.choice(NFC_POOL) + ("" if guard < 60 else str(rng.randrange(100)))
        elif style == "ws":
            tok = rng.choice(["pc", "x", "\u00e9", "7"]) + ("" if guard < 60 else str(rng.randrange(100)))
            v = rng.choice(WS_PADS).replace("T", tok)
        elif style == "numlike":
            v = rng.choice(NUMLIKE) if guard < 80 else rng.choice(NUMLIKE) + str(rng.randrange(100))
        else:  # mixed
            r = rng.random()
            if r < 0.3 and guard < 200:
                v = rng.choice(SPECIAL)
            elif r < 0.5:
                v = str(rng.randrange(0, 10 ** rng.randint(1, 7)))
            elif r < 0.75:
                v = "".join(rng.choice(UNI) for _ in range(rng.randint(1, 3)))
            else:
                v = "".join(rng.choice(LETTERS) for _ in range(rng.randint(1, 5)))
        vals.add(v)
    vals = sorted(vals)
    rng.shuffle(vals)
    return vals


def pick_card(rng, n):
    r = rng.random()
    if r < 0.07:
        return 1
    if r < 0.25:
        return 2
    if r < 0.35:
        return 3
    if r < 0.6:
        return rng.randint(4, 12)
    if r < 0.75:
        return max(2, int(math.sqrt(n)) + rng.randint(-2, 2))
    if r < 0.85:
        return max(2, n // 2)
    if r < 0.93:
        return n
    return rng.randint(1, n)


def fill(rng, n, vals, dist):
    k = len(vals)
    if k >= n:
        col = list(vals[:n])
    else:
        col = list(vals)
        if dist == "zipf":
            w = [1.0 / (i + 1) ** 1.3 for i in range(k)]
            col += rng.choices(vals, weights=w, k=n - k)
        else:
            col += [rng.choice(vals) for _ in range(n - k)]
    rng.shuffle(col)
    return col


def new_column(rng, n, existing):
    kind = rng.random()
    style = rng.choice(["digits", "words", "unicode", "mixed", "mixed", "nfc", "ws", "numlike"])
    if existing and kind < 0.10:
        return list(rng.choice(existing)), "copy"
    if existing and kind < 0.22:
        src = rng.choice(existing)
        dv = sorted(set(src))
        nv = make_values(rng, len(dv), style)
        if rng.random() < 0.4:
            nv = sorted(nv)          # order-isomorphic recoding -> identical code vectors
        m = dict(zip(dv, nv))
        return [m[v] for v in src], "recode"
    if existing and kind < 0.34:
        src = rng.choice(existing)
        dv = sorted(set(src))
        g = rng.randint(1, max(1, min(6, len(dv))))
        nv = make_values(rng, g, style)
        m = {v: rng.choice(nv) for v in dv}
        return [m[v] for v in src], "coarsen"
    if existing and kind < 0.46:
        src = rng.choice(existing)
        dv = sorted(set(src))
        p = rng.choice([0.05, 0.2, 0.5])
        extra = make_values(rng, rng.randint(1, 3), style)
        return [(rng.choice(dv + extra) if rng.random() < p else v) for v in src], "noisy"
    k = min(n, pick_card(rng, n))
    return fill(rng, n, make_values(rng, k, style), rng.choice(["uniform", "zipf"])), "indep"


def gen_frame(rng, tier, big=False):
    r = rng.random()
    if big:
        n = rng.randint(1001, 2000)
    elif r < 0.4:
        n = rng.randint(16, 64)
    elif r < 0.8:
        n = rng.randint(65, 300)
    else:
        n = rng.randint(301, 1000)
    ncols = rng.randint(2, 8 if n <= 300 else (5 if n <= 1000 else 3))
    cols, kinds = [], []
    if big:
        # an id-like column: all values distinct, digit-only, different lengths (lexicographic != numeric order)
        ids = [str(v) for v in rng.sample(range(0, rng.choice([n + 5, 10 ** 5, 10 ** 9])), n)]
        cols.append(ids)
        kinds.append("ids")
        ncols = max(ncols, 3)
    for _ in range(ncols - 1 - len(cols)):
        c, kd = new_column(rng, n, cols)
        cols.append(c)
        kinds.append(kd)
    # label: usually low cardinality and related to a feature
    r = rng.random()
    if r < 0.55:
        src = rng.choice(cols)
        dv = sorted(set(src))
        g = rng.randint(2, 5)
        nv = make_values(rng, g, rng.choice(["digits", "words", "mixed"]))
        m = {v: rng.choice(nv) for v in dv}
        p = rng.choice([0.0, 0.1, 0.3])
        lab = [(rng.choice(nv) if rng.random() < p else m[v]) for v in src]
        lk = "label:derived"
    elif r < 0.8:
        lab = fill(rng, n, make_values(rng, min(n, rng.randint(2, 5)), rng.choice(["digits", "words"])), "uniform")
        lk = "label:indep"
    else:
        lab, lk = new_column(rng, n, cols)
        lk = "label:" + lk
    if not big and len(cols) < 8 and rng.random() < 0.12:
        cols.append([""] * n)
        kinds.append("all-empty")
    if not big and len(cols) < 8 and rng.random() < 0.12:
        cols.append(list(lab))
        kinds.append("label-copy")
    ncols = len(cols) + 1
    pos = rng.randint(0, len(cols))
    cols.insert(pos, lab)
    kinds.insert(pos, lk)
    names = rng.sample(NAMES, ncols)
    label = rng.choice(["label", "label", names[pos]])
    names[pos] = label
    if len(set(names)) != len(names):
        names = ["c%d" % i for i in range(ncols)]
        names[pos] = "label"
        label = "label"
    # cost guard for the Coq evaluation (insertion sort of the categories: ~ n * distinct per column)
    limit = 7e6 if tier == "quick" else 2e7
    while sum(len(c) * len(set(c)) for c in cols) > limit and len(cols) > 2:
        drop = max((i for i in range(len(cols)) if i != pos and kinds[i] != "ids"), key=lambda i: len(set(cols[i])), default=None)
        if drop is None:
            break
        del cols[drop], names[drop], kinds[drop]
        if drop < pos:
            pos -= 1
    return {"names": names, "cols": cols, "label": label, "kinds": kinds}


def cases_of_frame(rng, fr, heuristics, tier):
    n = len(fr["cols"][0])
    k = len(fr["cols"])
    entry = "cbr" if rng.random() < 0.3 else "mrg"
    io = 2 if (entry == "cbr" and n <= 200 and k <= 4 and rng.random() < 0.5) else 1
    out = []
    base_mode = rng.random() < 0.5
    for j, h in enumerate(heuristics):
        target_only = base_mode if j % 2 == 0 else not base_mode
        if TABLE.get(h) == "maxcov" and (k * (k + 1) // 2) * n * n > (1.2e7 if tier == "quick" else 4e7):
            target_only = True
        if TABLE.get(h) == "ami" and not target_only and k * k * max(len(set(c)) for c in fr["cols"]) ** 2 > 3e7:
            target_only = True
        c = {"names": fr["names"], "cols": fr["cols"], "label": fr["label"], "heuristic": h,
             "target_only": target_only, "entry": entry, "pool": {"kind": "fake", "ncpus": rng.choice([1, 2, 8])}}
        if io != 1:
            c["interaction_order"] = io
        out.append(c)
    return out


def calls_pairwise(k):
    """scoring calls of one pairwise batch over k columns: unordered pairs with self-pairs + duplicated non-label diagonals"""
    return k * (k + 1) // 2 + (k - 1)


def gen_wide_frame(rng, k, n):
    """many cheap columns (so that one batch has >= 64 * workers scoring calls)"""
    cols = []
    for _ in range(k - 1):
        r = rng.random()
        if cols and r < 0.2:
            src = rng.choice(cols)
            dv = sorted(set(src))
            nv = make_values(rng, rng.randint(1, max(1, min(4, len(dv)))), "words")
            m = {v: rng.choice(nv) for v in dv}
            cols.append([m[v] for v in src])
        else:
            kk = rng.choice([2, 2, 3, 4, 6, 9, 15, 40])
            cols.append(fill(rng, n, make_values(rng, min(n, kk), rng.choice(["digits", "words", "mixed", "unicode"])),
                             rng.choice(["uniform", "zipf"])))
    src = rng.choice(cols)
    nv = make_values(rng, 3, "words")
    m = {v: rng.choice(nv) for v in sorted(set(src))}
    lab = [(rng.choice(nv) if rng.random() < 0.2 else m[v]) for v in src]
    pos = rng.randint(0, len(cols))
    cols.insert(pos, lab)
    names = ["w%02d" % i for i in range(k)]
    rng.shuffle(names)
    names[pos] = "label"
    return {"names": names, "cols": cols, "label": "label"}


def pool_cases(rng, tier):
    """real pathos pools (2 and 3 workers) and fake pools reporting 2 / 8 workers, on batches with at least 64 calls per
    worker and a call count that is not a multiple of the worker count; each is also run with a one-worker pool and
    the multisets of emitted pairs are compared"""
    out = []

    def add(fr, h, pool):
        out.append({"names": fr["names"], "cols": fr["cols"], "label": fr["label"], "heuristic": h, "target_only": False,
                    "entry": "mrg", "pool": pool, "compare_serial": True, "kinds": ["wide"] * len(fr["cols"])})
    reps = 1 if tier == "quick" else 3
    for _ in range(reps):
        # column counts chosen so that the trigger holds whether or not the non-label diagonal is listed twice
        # (calls = k(k+1)/2 since b3d9d15, k(k+1)/2 + k-1 before): >= 64 * workers and not a multiple of the worker count
        k2 = rng.choice([17, 21])           # 153 / 231 (169 / 251) calls: >= 128, odd
        f2 = gen_wide_frame(rng, k2, rng.randint(300, 400))
        add(f2, "max-value-coverage", {"kind": "real", "nodes": 2})
        add(f2, "MI-numba-3mr", {"kind": "fake", "ncpus": 2})
        add(f2, "MI-numba-randomized", {"kind": "real", "nodes": 2})
        k3 = rng.choice([22, 25])           # 253 / 325 (274 / 349) calls: >= 192, = 1 mod 3
        f3 = gen_wide_frame(rng, k3, rng.randint(300, 400))
        add(f3, "MI-numba-randomized", {"kind": "real", "nodes": 3})
        add(f3, "max-value-coverage", {"kind": "fake", "ncpus": 3})
        k8 = rng.choice([33, 34])           # 561 / 595 (593 / 628) calls: >= 512, not a multiple of 8
        f8 = gen_wide_frame(rng, k8, rng.randint(100, 140))
        add(f8, "max-value-coverage", {"kind": "fake", "ncpus": 8})
        add(f8, "MI-numba-randomized", {"kind": "fake", "ncpus": 8})
        add(f8, "correlation-Pearson", {"kind": "fake", "ncpus": 8})
    if tier != "quick":
        # target-only with enough features for two workers
        ft = gen_wide_frame(rng, 141, 200)
        for h, pool in (("MI-numba-randomized", {"kind": "real", "nodes": 2}), ("MI", {"kind": "fake", "ncpus": 2})):
            c = {"names": ft["names"], "cols": ft["cols"], "label": "label", "heuristic": h, "target_only": True,
                 "entry": "mrg", "pool": pool, "compare_serial": True, "kinds": ["wide"] * 141}
            out.append(c)
    return out


def gen_large_frame(rng, n=20000):
    """one large batch: a column with ~4400 distinct values, about half of them singletons whose codes sort BEFORE the
    repeated values (the empty string, punctuation / digit prefixes), repeated values incl. unicode; a few low-cardinality
    columns; the high-cardinality column is the conditioning side of some pairs"""
    nsing = rng.randint(2000, 2400)
    nrep = rng.randint(2000, 2400)
    sing = set([""])
    while len(sing) < nsing:
        sing.add(rng.choice(["!", "#", "0", "1", "7", "A"]) + "%05d" % rng.randrange(10 ** 5))
    # a few singletons in between / after the repeated values as well
    late = set()
    while len(late) < 40:
        late.add(rng.choice(["k", "\u00e9", "\u4e2d", "\U0001f600"]) + "~%04d" % rng.randrange(10 ** 4))
    rep = set()
    while len(rep) < nrep:
        rep.add(rng.choice(["k", "r", "z", "\u00e9", "\u00df", "\u4e2d", "\U0001f600", "\ue000"]) + "%04d" % rng.randrange(10 ** 4))
    rep = sorted(rep)
    hi = sorted(sing) + sorted(late) + rep * 2            # every repeated value at least twice
    w = [1.0 / (i + 1) ** 0.7 for i in range(len(rep))]
    hi += rng.choices(rep, weights=w, k=n - len(hi))
    rng.shuffle(hi)
    f1 = fill(rng, n, make_values(rng, rng.randint(3, 9), "mixed"), "zipf")
    grp = {v: rng.choice(["a", "b", "", "\u00e9"]) for v in set(hi)}
    f2 = [(grp[v] if rng.random() < 0.8 else rng.choice(["a", "b", "", "\u00e9"])) for v in hi]
    labv = make_values(rng, 2, "digits")
    lab = [(labv[0] if (grp[v] in ("a", "") ) != (rng.random() < 0.15) else labv[1]) for v in hi]
    return {"names": ["f1", "wide id", "f2", "label"], "cols": [f1, hi, f2, lab], "label": "label"}


def large_cases(rng, tier):
    out = []
    for _ in range(1 if tier == "quick" else 3):
        fr = gen_large_frame(rng)
        for h in ("MI-numba-3mr", "MI-numba-randomized") + (() if tier == "quick" else ("MI-numba",)):
            out.append({"names": fr["names"], "cols": fr["cols"], "label": "label", "heuristic": h, "target_only": False,
                        "entry": "mrg", "pool": {"kind": "fake", "ncpus": rng.choice([1, 2, 8])},
                        "kinds": ["indep", "large:half-singletons", "coarsen", "label:derived"]})
    return out


NUMERALS = ["2", "2.0", "02", "1e0", "", " 3", "3", "7", "0.5", ".5", "-1", "abc", "1", "1.0", "10", "1e1", "+2", "2 "]


def numeric_cases(rng, tier, heuristics):
    """compute_batch_ranking with declared NUMERIC columns (numeric_column_types of ob-csv 'float' features / ob-vw numeric
    namespaces) whose cells are non-canonical numerals next to string columns; the prescribed value is still the heuristic
    on the category codes of the STRING cells ('2', '2.0', '02' are three categories, '' is a category)"""
    out = []
    for _ in range(2 if tier == "quick" else 8):
        n = rng.randint(40, 300)
        fr = gen_frame(rng, tier)
        while len(fr["cols"][0]) > 400 or len(fr["cols"]) > 5:
            fr = gen_frame(rng, tier)
        n = len(fr["cols"][0])
        names, cols, kinds = list(fr["names"]), list(fr["cols"]), list(fr["kinds"])
        li = names.index(fr["label"])
        numeric = []
        for j in range(rng.randint(1, 2)):
            vals = rng.sample(NUMERALS, rng.randint(4, 9))
            if rng.random() < 0.6:
                # related to the label so that the scores are far from 0
                m = {v: rng.choice(vals) for v in sorted(set(cols[li]))}
                col = [(m[v] if rng.random() < 0.7 else rng.choice(vals)) for v in cols[li]]
            else:
                col = [rng.choice(vals) for _ in range(n)]
            nm = "price%d" % j
            pos = rng.randint(0, len(names))
            names.insert(pos, nm)
            cols.insert(pos, col)
            kinds.insert(pos, "numeric-declared")
            numeric.append(nm)
        if rng.random() < 0.5:
            # the label itself declared numeric, written in several spellings
            li = names.index(fr["label"])
            sp = {v: rng.sample(["1", "1.0", "01", "1e0"], 2) if k % 2 else rng.sample(["0", "0.0", "00", "-0"], 2)
                  for k, v in enumerate(sorted(set(cols[li])))}
            cols[li] = [rng.choice(sp[v]) for v in cols[li]]
            kinds[li] = "label:numeric-declared"
            numeric.append(fr["label"])
        base = rng.random() < 0.5
        for k, h in enumerate(heuristics):
            out.append({"names": names, "cols": cols, "label": fr["label"], "heuristic": h,
                        "target_only": base if k % 2 == 0 else not base, "entry": "cbr", "numeric": numeric,
                        "pool": {"kind": "fake", "ncpus": rng.choice([1, 2, 8])}, "kinds": kinds})
    return out


def reference_cases(rng, tier, heuristics):
    """--reference_model_JSON {"desc": {"features": [a, b, "a,b"]}} together with non-surrogate heuristics, through
    mixed_rank_graph and compute_batch_ranking (which then also builds the model's interaction feature `a AND b`; its rows
    are judged like any other pair of columns)"""
    out = []
    for _ in range(2 if tier == "quick" else 8):
        fr = gen_frame(rng, tier)
        while len(fr["cols"][0]) > 400 or len(fr["cols"]) < 3 or len(fr["cols"]) > 6 or \
                len([nm for nm in fr["names"] if nm != fr["label"] and "," not in nm]) < 2:
            fr = gen_frame(rng, tier)
        cand = [nm for nm in fr["names"] if nm != fr["label"] and "," not in nm]
        a, b = rng.sample(cand, 2)
        ref = [a, b, a + "," + b]
        base = rng.random() < 0.5
        for k, h in enumerate(heuristics):
            for entry in ("mrg", "cbr"):
                out.append({"names": fr["names"], "cols": fr["cols"], "label": fr["label"], "heuristic": h,
                            "target_only": (base if k % 2 == 0 else not base) if entry == "mrg" else (k % 2 == 1) == base,
                            "entry": entry, "reference_features": ref,
                            "pool": {"kind": "fake", "ncpus": rng.choice([1, 2, 8])}, "kinds": fr["kinds"]})
    return out


def _spelled(rng, lab, options, noise=0.1):
    """a column whose SPELLING of a token follows the label: row i gets options[k][j] with k random and j chosen by the
    label value (so spellings that a normalisation would merge carry different information about the label)"""
    lv = sorted(set(lab))
    col = []
    for v in lab:
        k = rng.randrange(len(options))
        j = lv.index(v) % len(options[k])
        if rng.random() < noise:
            j = rng.randrange(len(options[k]))
        col.append(options[k][j])
    return col


def edge_cases(rng, tier, heuristics):
    """edge inputs: canonically equivalent but distinct strings (precomposed / decomposed / compatibility forms, a column
    written entirely in decomposed form), whitespace-padded variants of a token and whitespace-only cells, number-like cells
    in ordinary string columns, an all-empty column, a copy of the label, one- and two-row batches, cells >= 64 KiB"""
    out = []

    def add(names, cols, label, fam, hs, kinds=None, entries=("mrg", "cbr")):
        base = rng.random() < 0.5
        for k, h in enumerate(hs):
            out.append({"names": names, "cols": cols, "label": label, "heuristic": h,
                        "target_only": base if k % 2 == 0 else not base, "entry": entries[k % len(entries)],
                        "pool": {"kind": "fake", "ncpus": rng.choice([1, 2, 8])}, "family": fam,
                        "kinds": kinds or [fam] * len(cols)})
    for _ in range(1 if tier == "quick" else 4):
        n = rng.randint(40, 160)
        lab = [rng.choice(["0", "1"]) for _ in range(n)]
        # (1) Unicode normal forms
        city = _spelled(rng, lab, [list(pr) for pr in EQUIV[:6]])
        compat = _spelled(rng, lab, [list(pr) for pr in EQUIV[5:]])
        words = [pr[1] for pr in EQUIV[:5]] + ["zu\u0308rich", "o\u0302", "a\u030a"]           # decomposed throughout
        decomp = [rng.choice(words[:4]) if (v == "1") != (rng.random() < 0.15) else rng.choice(words[4:]) for v in lab]
        add(["city", "compat", "label", "decomp"], [city, compat, lab, decomp], "label", "unicode-normal-forms", heuristics)
        # (2) whitespace padding
        lab2 = [rng.choice(["y", "n", ""]) for _ in range(n)]
        pads = [["pc", " pc", "\tpc"], ["pc ", "pc\u00a0", "\u3000pc"], ["", " ", "\u00a0"], ["x", "x ", " x"]]
        padded = _spelled(rng, lab2, pads)
        blank = _spelled(rng, lab2, [["", " ", "\t"], ["  ", "\u3000", "\u00a0"]], noise=0.2)
        add(["padded", "blank", "label"], [padded, blank, lab2], "label", "whitespace-padding", heuristics)
        # (3) number-like cells, an all-empty column, a copy of the label
        numlike = _spelled(rng, lab, [["1", "1.0"], ["01", "1e0"], ["nan", "NaN"], ["-0", "0"], ["inf", "1e3"], ["1000", "1_0"]])
        add(["num", "empty", "label", "same"], [numlike, [""] * n, lab, list(lab)], "label", "numberlike-empty-labelcopy", heuristics)
    # (4) one- and two-row batches (scipy's pearsonr raises on one row on the unchanged tree: left out there)
    tiny = [([["a"], ["x"], ["1"]], [h for h in heuristics if name_sem(h) != "pearson"]),
            ([["a", "b"], ["x", "x"], ["1", "0"]], heuristics),
            ([["a", "a"], ["", " "], ["1", "0"]], heuristics)]
    for cols, hs in tiny:
        for entries in (("mrg", "cbr"), ("cbr", "mrg")):
            add(["f", "g", "label"], cols, "label", "rows=%d" % len(cols[0]), hs, entries=entries)
    # (5) very long cells: a common 64 KiB prefix, differences only at the very end / in the length
    for _ in range(1 if tier == "quick" else 2):
        stem = "".join(rng.choice("ab\u00e9") for _ in range(8)) * 8192            # 65536 code points
        vals = [stem, stem + "x", stem + "y", stem[:-1]]
        lab = ["1", "0", "1", "0", "1", "0"]
        longc = [vals[0], vals[1], vals[0], vals[1], vals[2], vals[3]]
        other = ["p", "q", "p", "p", "q", "q"]
        add(["long", "other", "label"], [longc, other, lab], "label", "cells>=64KiB",
            [h for h in heuristics if name_sem(h) in ("plugin64", "maxcov", "corr32")])
    return out


def load_corpus(pid):
    d = os.path.join(vlib.VERIF, "corpus", pid)
    out = []
    if os.path.isdir(d):
        for f in sorted(os.listdir(d)):
            if f.endswith(".json"):
                out.append(json.load(open(os.path.join(d, f), encoding="utf8")))
    return out


# --------------------------------------------------------------------------------------------------
# running the implementation (a crash is an outcome attributed to the case that was running)

def run_pipeline(cases):
    results = [None] * len(cases)
    start = 0
    barren = 0
    script = os.path.join(vlib.VERIF, "tools", "impl", "impl_c05.py")
    os.makedirs(os.path.join(vlib.CACHE, "numba"), exist_ok=True)
    while start < len(cases):
        try:
            p = subprocess.run([vlib.IMPL_PY, script], input=json.dumps({"mode": "pipeline", "cases": cases[start:]}),
                               env=vlib.impl_env(), cwd=vlib.CACHE, stdout=subprocess.PIPE, stderr=subprocess.PIPE,
                               text=True, timeout=2400)
            rc, out, err = p.returncode, p.stdout, p.stderr
        except subprocess.TimeoutExpired as e:
            rc, out, err = "timeout", (e.stdout or ""), (e.stderr or "")
            if isinstance(out, bytes):
                out = out.decode("utf8", "replace")
            if isinstance(err, bytes):
                err = err.decode("utf8", "replace")
        got = 0
        for ln in out.splitlines():
            if ln.startswith("@@CASE "):
                _, idx, blob = ln.split(" ", 2)
                results[start + int(idx)] = json.loads(blob)
                got += 1
        nxt = start + got
        if nxt >= len(cases):
            break
        barren = barren + 1 if got == 0 else 0
        if barren >= 2:
            raise vlib.Broken("impl-run:impl_c05.py", "rc=%s\nstderr tail:\n%s" % (rc, err[-3000:]))
        results[nxt] = {"ok": False, "crash": True, "error": "implementation process died (rc=%s)" % rc, "trace": err[-1500:]}
        start = nxt + 1
    return results


def unfloat(x):
    if isinstance(x, str):
        return x
    return float(x)


# --------------------------------------------------------------------------------------------------
# model evaluation

HEADER = ("From Coq Require Import List NArith ZArith QArith.\nFrom Outrank Require Import Pipeline.RankGraph.\n"
          "Import ListNotations.\nOpen Scope N_scope.")


LARGE = 5000     # frames with more rows (or > 200 000 code points in all) are coded by the Python mirror of the model (validated against Coq on all others)


def py_codes(col):
    """mirror of Coq `codes`: index in the code-point-sorted distinct values (Python compares str by code point)"""
    idx = {v: i for i, v in enumerate(sorted(set(col)))}
    return [idx[v] for v in col]


def py_maxcov(a, b):
    return Fraction(max(Counter(zip(a, b)).values()), len(a))


def frame_key(names, cols):
    return json.dumps([names, cols], ensure_ascii=True)


# what the tags of Pipeline/RankGraph.v `scorer` mean to the harness (mirror of Pipeline/Scorers.v `sem`)
def sem_of_tag(tag):
    if not isinstance(tag, tuple):
        return None
    return {("SkMI",): "plugin64", ("NumbaMI", False): "plugin32", ("NumbaMI", True): "corr32", ("MaxCov",): "maxcov",
            ("Pearson",): "pearson", ("AMI",): "ami", ("Const",): "const", ("Fallback",): "fallback",
            ("Surrogate",): "surrogate"}.get(tag)


NAME_CLASS = {}      # heuristic name -> {"sem", "const", "3mr", "source"}; filled once per run by classify_names


def classify_names(names):
    """semantic class of every heuristic name from the GENERATED dispatch / is_const_name / is_3mr_name, evaluated in Coq.
    When the generated files do not build (translator refused), the property's own table is used so that the search for
    a failing input can go on; that situation is already reported as a broken obligation."""
    todo = [n for n in names if n not in NAME_CLASS]
    if not todo:
        return True
    ok = True
    try:
        hdr = ("From Coq Require Import List NArith.\nFrom Outrank Require Import Pipeline.RankGraph Gen.Dispatch.\n"
               "Import ListNotations.\nOpen Scope N_scope.")
        okb, log = vlib.build(["Gen/Dispatch.vo"])
        if not okb:
            raise vlib.Broken("build:Gen/Dispatch.vo", log[-800:])
        vals = vlib.coq_eval("C05n", hdr, ["(dispatch %s, is_const_name %s, is_3mr_name %s)" % ((vlib.strlit(n),) * 3)
                                           for n in todo], shard=400)
        for n, (tag, cb, mb) in zip(todo, vals):
            if isinstance(tag, tuple) and len(tag) == 1 and tag[0] not in ("SkMI", "MaxCov", "Pearson", "AMI", "Const", "Fallback", "Surrogate"):
                tag = None
            NAME_CLASS[n] = {"sem": sem_of_tag(tag), "const": bool(cb), "3mr": bool(mb), "source": "Gen/Dispatch.v"}
    except vlib.Broken:
        ok = False
        for n in todo:
            # names the property does not word cannot be classified without the generated dispatch: they are not run
            NAME_CLASS[n] = {"sem": TABLE.get(n, "unclassified"), "const": n == "Constant", "3mr": "3mr" in n,
                             "source": "property table (fallback)"}
    return ok


def name_sem(h):
    """class used for the expectation: the property's own wording where it names the heuristic, else the generated dispatch"""
    return TABLE.get(h) or (NAME_CLASS.get(h) or {}).get("sem")


def mi_cost(F, T):
    n = len(F)
    return n * (n + 2 * len(set(F)) + len(set(T))) + 2000


HEADER2 = ("From Coq Require Import List NArith ZArith.\nFrom Outrank Require Import Pipeline.RankGraph Pipeline.Scorers.\n"
           "Import ListNotations.\nOpen Scope N_scope.")


def model_eval(frames, budget):
    """frames: key -> {"cols", "pairs": set((i,j)), "mi": list of (f, t, flag) in priority order}.
    -> key -> (codes, {(i,j): Fraction}, {(f,t,flag): term structure})   [term structures only within the Coq budget]"""
    big = [k for k in frames if frames[k]["cols"] and (len(frames[k]["cols"][0]) > LARGE
                                                       or sum(len(v) for c in frames[k]["cols"] for v in c) > 200000)]
    keys = sorted((k for k in frames if k not in big), key=lambda k: -sum(len(c) * len(set(c)) for c in frames[k]["cols"]))
    exprs, plist, qlist = [], [], []
    for k in keys:
        fr = frames[k]
        pairs = sorted(fr["pairs"])
        spent, qs, seenq = 0.0, [], set()
        for q in fr["mi"]:
            if q in seenq:
                continue
            c = mi_cost(fr["cols"][q[0]], fr["cols"][q[1]])
            if spent + c > budget:
                continue
            seenq.add(q)
            spent += c
            qs.append(q)
        plist.append(pairs)
        qlist.append(qs)
        cols = "[" + "; ".join(vlib.strlist(c) for c in fr["cols"]) + "]"
        ps = "[" + "; ".join("(%d, %d)" % p for p in pairs) + "]"
        qq = "[" + "; ".join("(%d, %d, %s)" % (f, t, "true" if fl else "false") for f, t, fl in qs) + "]"
        exprs.append("C05_model2 (%s, %s%%nat, %s%%nat)" % (cols, ps, qq))
    vals = vlib.coq_eval("C05", HEADER2, exprs, shard=1 if len(exprs) <= 60 else 2, jobs=12, timeout=1500) if exprs else []
    out = {}
    for k, pairs, qs, v in zip(keys, plist, qlist, vals):
        codes, covs, terms = v
        out[k] = ([list(map(int, c)) for c in codes],
                  {p: Fraction(int(q[0]), int(q[1])) for p, q in zip(pairs, covs)},
                  {q: c01._norm_terms(tm) for q, tm in zip(qs, terms)})
        # the Python mirror (used for the large-batch family) must agree with the Coq model wherever both are evaluated
        mirror = [py_codes(c) for c in frames[k]["cols"]]
        if mirror != out[k][0] or any(py_maxcov(mirror[i], mirror[j]) != q for (i, j), q in out[k][1].items()):
            raise vlib.Broken("mirror:python codes / max-coverage differ from the Coq model", "frame %s" % k[:300])
    model_eval.validated = getattr(model_eval, "validated", 0) + len(keys)
    for k in big:
        codes = [py_codes(c) for c in frames[k]["cols"]]
        out[k] = (codes, {p: py_maxcov(codes[p[0]], codes[p[1]]) for p in frames[k]["pairs"]}, {})
    return out


def model_row_pairs(jobs):
    """jobs: list of (constb, [(i, j)...]) -> the (A, B) parts of the model's rows (Coq `row_pairs`), names = column indices"""
    if not jobs:
        return []
    hdr = "From Coq Require Import List NArith.\nFrom Outrank Require Import Pipeline.RankGraph.\nImport ListNotations.\nOpen Scope N_scope."
    exprs = ["row_pairs %s [%s]" % ("true" if cb else "false", "; ".join("([%d], [%d])" % p for p in ps)) for cb, ps in jobs]
    vals = vlib.coq_eval("C05r", hdr, exprs, shard=60, jobs=8)
    return [[(int(a[0]), int(b[0])) for a, b in v] for v in vals]


def run_oracle(queries):
    if not queries:
        return []
    res = vlib.run_impl("impl_c05.py", {"mode": "oracle", "queries": queries}, timeout=2400)
    return res["values"]


# --------------------------------------------------------------------------------------------------
# judging

def orientations(a, b, i, j, lbl):
    """(input, conditioning) index pairs the property admits for a row (a, b)"""
    if a == lbl or b == lbl:
        return [(j, i)] if a == lbl else [(i, j)]
    return [(i, j), (j, i)]


def evaluate(cases, stats=None, budget=8e6):
    """-> list of verdicts {"bad": [...], "nontrivial": bool, "rows": int, "error": str|None}"""
    stats = stats if stats is not None else {}
    classify_names(sorted({c["heuristic"] for c in cases}))
    # a case with compare_serial is also run with a one-worker pool; the two row multisets must agree
    runlist, twin_of = list(cases), {}
    for i, c in enumerate(cases):
        if c.get("compare_serial"):
            tw = {k: c[k] for k in c if k != "compare_serial"}
            tw["pool"] = {"kind": "fake", "ncpus": 1}
            twin_of[i] = len(runlist)
            runlist.append(tw)
    allres = run_pipeline(runlist)
    res = allres[:len(cases)]
    frames = {}
    info = []
    for c, r in zip(cases, res):
        if not r["ok"]:
            info.append(None)
            continue
        fr = r.get("frame") or {"names": c["names"], "cols": c["cols"]}
        if not fr.get("names") or fr.get("cols") is None:
            fr = {"names": c["names"], "cols": c["cols"]}
        else:
            # the batch's own columns are judged on the STRING cells the batch was given (whatever representation the
            # stages before mixed_rank_graph leave in the frame); only derived columns are taken from the observed frame
            own = dict(zip(c["names"], c["cols"]))
            fr = {"names": fr["names"], "cols": [own.get(nm, col) for nm, col in zip(fr["names"], fr["cols"])]}
        key = frame_key(fr["names"], fr["cols"])
        ent = frames.setdefault(key, {"cols": fr["cols"], "pairs": set(), "mi": [], "mi_late": []})
        idx = {nm: i for i, nm in enumerate(fr["names"])}
        sem = name_sem(c["heuristic"])
        for a, b, _ in r["triplets"]:
            if a in idx and b in idx:
                i, j = idx[a], idx[b]
                if sem == "maxcov":
                    ent["pairs"].add((min(i, j), max(i, j)))
                elif sem in ("plugin64", "plugin32", "corr32"):
                    ors = orientations(a, b, i, j, c["label"])
                    if sem != "corr32":
                        ors = ors[:1] if len(ors) == 1 else [(min(i, j), max(i, j))]
                    for f, t in ors:
                        (ent["mi"] if (a == c["label"] or b == c["label"]) else ent["mi_late"]).append((f, t, sem == "corr32"))
        info.append((key, idx))
    for ent in frames.values():
        ent["mi"] = ent["mi"] + ent.pop("mi_late")        # label pairs first when the Coq budget binds
    model = model_eval(frames, budget)

    # library oracles, on the model's codes
    queries, qmap = [], {}
    for c, r, inf in zip(cases, res, info):
        sem = name_sem(c["heuristic"])
        if inf is None or sem not in ("pearson", "ami"):
            continue
        key, idx = inf
        codes = model[key][0]
        for a, b, _ in r["triplets"]:
            if a in idx and b in idx:
                i, j = sorted((idx[a], idx[b]))
                qk = (key, sem, i, j)
                if qk not in qmap:
                    qmap[qk] = len(queries)
                    queries.append({"kind": sem, "f": codes[i], "t": codes[j]})
    ovals = run_oracle(queries)

    # the model's row (A, B) multisets for the selected combinations (Coq row_pairs)
    rp_jobs, rp_of = [], {}
    for ci, (c, r, inf) in enumerate(zip(cases, res, info)):
        if inf is None or not r.get("selected"):
            continue
        idx = inf[1]
        sel = r["selected"]
        if any(len(p) != 2 or p[0] not in idx or p[1] not in idx for p in sel):
            continue
        rp_of[ci] = len(rp_jobs)
        rp_jobs.append((NAME_CLASS[c["heuristic"]]["const"], [(idx[p[0]], idx[p[1]]) for p in sel]))
    rp_vals = model_row_pairs(rp_jobs)

    verdicts = []
    for ci, (c, r, inf) in enumerate(zip(cases, res, info)):
        v = {"bad": [], "nontrivial": False, "rows": 0, "error": None}
        verdicts.append(v)
        if ci in twin_of and r["ok"]:
            tr = allres[twin_of[ci]]
            stats["pool_twin_comparisons"] = stats.get("pool_twin_comparisons", 0) + 1
            pl = c.get("pool") or {}
            w = int(pl.get("nodes", pl.get("ncpus", 1)))
            ncalls = len(r.get("selected") or [])
            if w > 1 and ncalls >= 64 * w and ncalls % w != 0:
                stats["pool_cases_with_64_calls_per_worker_and_uneven_split"] = stats.get("pool_cases_with_64_calls_per_worker_and_uneven_split", 0) + 1
            if not tr["ok"]:
                v["bad"].append({"clause": "the batch is scored without an exception / crash (one-worker pool)", "impl": tr["error"]})
            else:
                m1 = Counter((a, b) for a, b, _ in r["triplets"])
                m0 = Counter((a, b) for a, b, _ in tr["triplets"])
                if m1 != m0:
                    miss = sorted((m0 - m1).items())[:6]
                    extra = sorted((m1 - m0).items())[:6]
                    v["bad"].append({"clause": "the rows of a batch do not depend on the worker pool: same multiset of (A, B) pairs as with a one-worker pool",
                                     "row": None, "impl": {"missing_vs_one_worker": miss, "extra_vs_one_worker": extra,
                                                           "rows": sum(m1.values()), "rows_one_worker": sum(m0.values())},
                                     "expected": "identical pair multisets"})
        if not r["ok"]:
            v["error"] = r["error"]
            v["bad"].append({"clause": "the batch is scored without an exception / crash", "impl": r["error"],
                             "trace": r.get("trace", "")[-800:]})
            continue
        key, idx = inf
        codes, covs, terms = model[key]
        sem = name_sem(c["heuristic"])
        cls = NAME_CLASS[c["heuristic"]]
        lbl = c["label"]
        # -- the row set: emitted (A, B) multiset = the model's rows over the combinations selected for scoring
        if not r["triplets"]:
            v["bad"].append({"clause": "rows are emitted for the evaluated pairs of the batch (none were)", "row": None,
                             "impl": {"rows": 0, "selected": (r.get("selected") or [])[:6]}, "expected": "at least one row"})
        if ci in rp_of:
            stats["row_set_comparisons"] = stats.get("row_set_comparisons", 0) + 1
            inv = {i: nm for nm, i in idx.items()}
            want = Counter((inv[a], inv[b]) for a, b in rp_vals[rp_of[ci]])
            got = Counter((a, b) for a, b, _ in r["triplets"])
            if want != got:
                v["bad"].append({"clause": ("Constant: one row (c1, c2, 0.0) per selected combination, not mirrored" if cls["const"] else
                                            "every selected combination yields the row (A, B, s) and its mirror (B, A, s), nothing else"),
                                 "row": None,
                                 "impl": {"rows": sum(got.values()), "missing": sorted((want - got).items())[:6],
                                          "unexpected": sorted((got - want).items())[:6]},
                                 "expected": "%d rows (model row_pairs over the %d selected combinations)" % (sum(want.values()), len(r["selected"]))})
        else:
            stats["row_set_not_observable"] = stats.get("row_set_not_observable", 0) + 1
        # -- the coding itself (opt-in observation of the frame handed to the scorer)
        if r.get("codes"):
            stats["codes_compared_cases"] = stats.get("codes_compared_cases", 0) + 1
            for nm, i in idx.items():
                got = r["codes"].get(nm)
                if got is not None and got != codes[i]:
                    k0 = next(k for k in range(len(got)) if k >= len(codes[i]) or got[k] != codes[i][k])
                    v["bad"].append({"clause": "columns are category-coded: cell code = index in the code-point-sorted distinct values (cat.codes)",
                                     "row": None, "impl": {"column": nm, "row_index": k0, "code": got[k0]},
                                     "expected": {"code": codes[i][k0] if k0 < len(codes[i]) else None}})
                    break
        seen = set()
        memo = {}
        allzero = True
        for a, b, s in r["triplets"]:
            s = unfloat(s)
            if (a, b, s) in seen:
                continue
            seen.add((a, b, s))
            v["rows"] += 1
            if not (isinstance(s, float) and s == 0.0):
                allzero = False
            if a not in idx or b not in idx:
                v["bad"].append({"clause": "a row names a column that is not in the batch", "row": [a, b, s]})
                continue
            i, j = idx[a], idx[b]
            if sem == "const":
                v["nontrivial"] = True
                if not (isinstance(s, float) and s == 0.0):
                    v["bad"].append({"clause": "Constant scores are 0", "row": [a, b, s], "expected": 0.0})
                continue
            if sem in (None, "fallback", "surrogate", "unclassified"):
                continue
            orients = orientations(a, b, i, j, lbl)
            exp = []
            for (f, t) in orients:
                mk = (sem, f, t)
                if mk not in memo:
                    F, T = codes[f], codes[t]
                    if sem in ("plugin64", "plugin32", "corr32"):
                        flag = sem == "corr32"
                        if flag:
                            e, S = corrected(F, T)
                            what = "corrected score"
                        else:
                            e, S = plugin_mi(F, T), entropy(F) + hcond(F, T)
                            what = "plug-in MI"
                        # primary source: the Coq term structure of the MI model on the model's codes, evaluated by the float
                        # mirror of eval_R; the exact-count reference above must agree with it
                        tm = terms.get((f, t, flag)) or (terms.get((t, f, flag)) if not flag else None)
                        if tm is not None:
                            ec, Sc = c01.eval_float(tm)
                            stats["mi_rows_from_coq_terms"] = stats.get("mi_rows_from_coq_terms", 0) + 1
                            if abs(ec - e) > 1e-9 * max(1.0, Sc, S):
                                raise vlib.Broken("cross-check:Coq MI term structure vs exact-count reference",
                                                  "columns %d,%d flag %s: coq %r python %r" % (f, t, flag, ec, e))
                            e, S = ec, max(S, Sc)
                            what += " (MI model terms)"
                        else:
                            stats["mi_rows_from_python_reference_only"] = stats.get("mi_rows_from_python_reference_only", 0) + 1
                        tol = 1e-9 * max(1.0, abs(e)) if sem == "plugin64" else 32 * F32 * (S + 1e-6)
                        alts = [(e, tol, what)]
                        if flag and F != T and same_partition(F, T):
                            # same partition, different code vectors: whether the self-pair rule applies depends on
                            # the (injective) coding, which the MI family leaves free -> both values admitted
                            h = entropy(F)
                            alts.append((h, 32 * F32 * (2 * h + 1e-6), "entropy (identical up to recoding)"))
                            stats["coding_dependent_rows"] = stats.get("coding_dependent_rows", 0) + 1
                        memo[mk] = alts
                    elif sem == "maxcov":
                        q = covs[(min(f, t), max(f, t))]
                        memo[mk] = [(float(q), 1e-12, "max joint frequency %s" % q)]
                    elif sem in ("pearson", "ami"):
                        o = ovals[qmap[(key, sem, min(f, t), max(f, t))]]
                        if not o["ok"]:
                            memo[mk] = [("oracle-error:" + o["error"], 0.0, sem)]
                        else:
                            e = unfloat(o["v"])
                            memo[mk] = [(e, 1e-9, sem + " on the model's codes")]
                exp.extend(memo[mk])
            if any(isinstance(e, float) and abs(e) > 1e-12 for e, _, _ in exp):
                v["nontrivial"] = True
            if any(isinstance(e, str) and e.startswith("oracle-error") for e, _, _ in exp):
                # the library itself refuses these codes, yet the implementation produced a score with the same library
                stats["oracle_errors"] = stats.get("oracle_errors", 0) + 1
                v["bad"].append({"clause": clause_of(sem, a, b, lbl) + " (the library rejects the model's codes of these columns, the implementation returned a score)",
                                 "row": [a, b, s], "expected": [[e, what] for e, _, what in exp]})
                continue
            if not any(close(s, e, tol) for e, tol, _ in exp):
                v["bad"].append({"clause": clause_of(sem, a, b, lbl), "row": [a, b, s],
                                 "expected": [[e, what] for e, _, what in exp]})
                continue
            fl = [abs(s - e) / tol for e, tol, _ in exp if isinstance(e, float) and isinstance(s, float) and tol > 0
                  and not math.isnan(e) and not math.isnan(s)]
            if fl:
                wr = stats.setdefault("worst_error_over_tolerance", {})
                wr[sem] = max(wr.get(sem, 0.0), round(min(fl), 6))
            if sem == "corr32" and len(orients) == 2:
                e0, t0, _ = memo[(sem, i, j)][0]
                stats["nonlabel_rows_first_is_input"] = stats.get("nonlabel_rows_first_is_input", 0) + (1 if close(s, e0, t0) else 0)
                stats["nonlabel_rows"] = stats.get("nonlabel_rows", 0) + 1
        if sem in (None, "fallback") and v["rows"] and allzero:
            # a documented name that reaches the warning + constant branch (or an unknown class): silent constant
            best = 0.0
            for i in range(len(codes)):
                for j in range(i):
                    best = max(best, plugin_mi(codes[i], codes[j]))
            if best > 0.05:
                v["bad"].append({"clause": "a documented heuristic name silently degrades to a constant score",
                                 "row": r["triplets"][0], "expected": "non-constant scores (dispatch class: %s)" % cls})
            v["nontrivial"] = True
    return verdicts


def clause_of(sem, a, b, lbl):
    lab = " with the label as the conditioning side" if (a == lbl or b == lbl) else ""
    return {
        "plugin64": "MI = plug-in mutual information of the two coded columns",
        "plugin32": "MI-numba family = plug-in mutual information of the two coded columns (not a constant)",
        "corr32": "MI-numba-randomized = cardinality-corrected score" + lab,
        "maxcov": "max-value-coverage = largest joint-value frequency",
        "pearson": "correlation-Pearson = Pearson correlation of the category codes",
        "ami": "AMI = adjusted mutual information of the two coded columns",
    }[sem]


def shrink(case, bad):
    """smaller variants of a failing case: only the columns of the failing row (+ label), fewer rows"""
    row = bad.get("row")
    names = case["names"]
    need = set()
    for ftr in case.get("reference_features") or []:
        need.update(ftr.split(","))
    keep = [i for i, nm in enumerate(names) if nm == case["label"] or nm in need or (row and nm in (row[0], row[1]))]
    if not row or len(keep) < 1 or any(nm not in names for nm in row[:2]):
        keep = list(range(len(names)))
    n = len(case["cols"][0])
    cands = []
    for m in (16, 32, 64, 128, 256, 512, n):
        if m > n:
            continue
        c = dict(case)
        if (c.get("pool") or {}).get("kind") == "real":
            c["pool"] = {"kind": "fake", "ncpus": int(c["pool"].get("nodes", 2))}
        c["names"] = [names[i] for i in keep]
        c["cols"] = [case["cols"][i][:m] for i in keep]
        if c.get("numeric"):
            c["numeric"] = [nm for nm in c["numeric"] if nm in c["names"]]
        if m == n and len(keep) == len(names):
            continue
        cands.append(c)
    return cands


# --------------------------------------------------------------------------------------------------

def check(run, replay):
    try:
        _check(run, replay)
    finally:
        # a run against a scratch tree (mutation self-test) must not leave its translation in the shared coq/Gen
        if os.path.realpath(vlib.REPO) != "/repo" and os.path.isdir("/repo/outrank"):
            translate_dispatch.run("/repo", GEN)


def _check(run, replay):
    # 1. translators (from the repo under test)
    ok_t, msgs, doc = translate_dispatch.run(vlib.REPO, GEN)
    run.oblige("translator:tools/translate_dispatch.py (Gen/Dispatch.v, Gen/DocNames.v)", ok_t, "; ".join(msgs))
    if not ok_t:
        run.violation("broken-obligation", "translator refused: " + "; ".join(msgs), found_input=False, extra=msgs)
    run.cov["documented_names"] = doc

    # 2. model + proofs (Scorers.v imports the MI model of C01-C03 read-only)
    model_ok, log = vlib.build(["Pipeline/Scorers.vo"])
    run.oblige("build:model Pipeline/RankGraph.vo, Pipeline/Scorers.vo", model_ok, "" if model_ok else log[-1500:])
    if not model_ok:
        raise vlib.Broken("build:Pipeline/Scorers.vo", log)
    vlib.standard_proof_phase(run, ["Props/C05.vo"], "Outrank.Props.C05", THEOREMS, allowed=vlib.STD_REAL_AXIOMS)

    # 3. correspondence.  Names to run: those the property words + every documented name that does not reach a surrogate model
    #    (a documented name the generated dispatch sends to Fallback IS run: it is the failing input of C05_no_silent_constant)
    NAME_CLASS.clear()
    from_gen = classify_names(sorted(set(TABLE) | set(doc)))
    run.oblige("model-eval:dispatch / is_const_name / is_3mr_name of every name (generated, vm_compute)", from_gen,
               "" if from_gen else "Gen/Dispatch.v does not build; the property's own table is used for the failing-input search")
    run.cov["name_classes"] = {n: NAME_CLASS[n] for n in sorted(NAME_CLASS)}
    disagree = {n: (NAME_CLASS[n]["sem"], TABLE[n]) for n in TABLE if NAME_CLASS[n]["sem"] != TABLE[n]}
    run.oblige("dispatch class = the property's wording for the heuristics it names (C05_table)", not disagree, str(disagree))
    heur = list(TABLE)
    for d in doc:
        if d not in TABLE and NAME_CLASS[d]["sem"] not in ("surrogate", "unclassified"):
            heur.append(d)
    run.cov["documented_names_reaching_the_surrogate_scorer_not_run"] = [d for d in doc if NAME_CLASS[d]["sem"] == "surrogate"]
    silent = [d for d in doc if NAME_CLASS[d]["sem"] == "fallback"]
    run.cov["documented_names_dispatched_to_fallback"] = silent
    if replay is not None:
        # a failure that needs earlier batches in the same process carries them as "history" (run first, not judged)
        cases = [dict(h, history_only=True) for h in replay["case"].get("history", [])] + \
                [{k: v for k, v in replay["case"].items() if k != "history"}]
    else:
        cases = []
        for c in load_corpus("C05"):
            if c.get("standalone"):
                # a fixed case that is reported as its OWN violation with exactly the corpus JSON as `case` (never shrunk,
                # never merged with other disagreements): this is what a `finding:` line of KNOWN_FINDINGS.txt names
                run_case = {k: c[k] for k in c}
                run_case["_orig"] = json.loads(json.dumps(c))
                cases.append(run_case)
            elif "heuristic" in c:
                cases.append(c)
            else:   # a bare frame: all heuristics, both modes
                for h in heur:
                    for to in (True, False):
                        cases.append(dict(c, heuristic=h, target_only=to, entry=c.get("entry", "mrg")))
        nframes = 36 if run.tier == "quick" else 420
        nbig = 3 if run.tier == "quick" else 30
        for i in range(nframes):
            fr = gen_frame(run.rng, run.tier, big=(i < nbig))
            kinds = fr.pop("kinds")
            for c in cases_of_frame(run.rng, fr, heur, run.tier):
                c["kinds"] = kinds
                cases.append(c)
        cases.extend(pool_cases(run.rng, run.tier))
        cases.extend(large_cases(run.rng, run.tier))
        cases.extend(numeric_cases(run.rng, run.tier, heur))
        cases.extend(edge_cases(run.rng, run.tier, heur))
        cases.extend(reference_cases(run.rng, run.tier, heur))
        # the coded frame handed to the scorer is observed on one case per frame (in-process pools, <= 2000 rows)
        seen_frames = set()
        for c in cases:
            k = id(c["cols"])
            if k not in seen_frames and len(c["cols"][0]) <= 2000 and (c.get("pool") or {}).get("kind", "fake") != "real" \
                    and name_sem(c["heuristic"]) not in ("const",) and "_orig" not in c:
                seen_frames.add(k)
                c["record_codes"] = True
    stats = {}
    verdicts = evaluate(cases, stats, budget=3e6 if run.tier == "quick" else 2e7)

    hist = {"family": {}, "pool": {}, "rows_bucket": {}, "ncols": {}, "heuristic": {}, "mode": {}, "entry": {}, "max_cardinality_bucket": {},
            "column_kinds": {}, "impl_errors": 0, "rows_compared": 0}

    def bump(d, k):
        d[k] = d.get(k, 0) + 1

    def bucket(x):
        for b in (1, 2, 3, 8, 32, 128, 512, 2000, 20000):
            if x <= b:
                return "<=%d" % b
        return ">20000"
    first_bad = None
    nviol = 0
    by_heur = {}
    for c, v in zip(cases, verdicts):
        n = len(c["cols"][0])
        bump(hist["rows_bucket"], bucket(n))
        bump(hist["ncols"], len(c["cols"]))
        bump(hist["heuristic"], c["heuristic"])
        bump(hist["mode"], "target_only" if c["target_only"] else "pairwise")
        bump(hist["entry"], c.get("entry", "mrg") + ("/io%d" % c["interaction_order"] if c.get("interaction_order", 1) != 1 else ""))
        if c.get("family"):
            bump(hist["family"], c["family"])
        if c.get("numeric"):
            bump(hist["family"], "declared-numeric columns (%d)" % len(c["numeric"]))
        if c.get("reference_features"):
            bump(hist["family"], "reference_model_JSON/" + c.get("entry", "mrg"))
        pl = c.get("pool") or {"kind": "fake", "ncpus": 1}
        bump(hist["pool"], "%s/%s" % (pl.get("kind", "fake"), pl.get("nodes", pl.get("ncpus", 1))))
        bump(hist["max_cardinality_bucket"], bucket(max(len(set(col)) for col in c["cols"])))
        for kd in c.get("kinds", []):
            bump(hist["column_kinds"], kd)
        hist["rows_compared"] += v["rows"]
        if v["error"]:
            hist["impl_errors"] += 1
        canon = [c["names"], c["cols"], c["label"], c["heuristic"], c["target_only"], c.get("entry", "mrg"),
                 c.get("interaction_order", 1), c.get("pool"), c.get("numeric"), c.get("reference_features")]
        run.count_case(canon, v["nontrivial"])
        if c.get("history_only"):
            continue
        if "_orig" in c:
            # a stand-alone case that is a LISTED known finding (KNOWN_FINDINGS.txt, matched by its case JSON exactly as
            # vlib.finish does) is not an open obligation: the obligation is "agrees with the model, or reproduces as recorded"
            _key = json.dumps(c["_orig"], sort_keys=True, default=str)
            _listed = any(("case=" + _key) in k for k in vlib.known_findings("C05"))
            run.oblige("corpus standalone case agrees with the model%s: %s" % (
                " or reproduces a listed known finding" if _listed else "", c.get("comment", "")[:120]),
                (not v["bad"]) or _listed, json.dumps(v["bad"][:2], default=str)[:380] if v["bad"] else "")
            if _listed:
                run.cov["known_finding_F1_reproduces"] = bool(v["bad"])
            if v["bad"]:
                b0 = v["bad"][0]
                run.violation("counterexample", "correspondence (standalone corpus case): mixed_rank_graph triplet vs prescribed heuristic value",
                              case=c["_orig"], impl=(b0.get("row") or b0.get("impl")), model=b0.get("expected"), clause=b0["clause"],
                              extra={"all_bad_rows_of_this_case": v["bad"][:10]})
            continue
        if v["bad"]:
            nviol += 1
            bump(by_heur, c["heuristic"])
            if first_bad is None:
                first_bad = (c, v)
    run.oblige("correspondence:every emitted triplet = prescribed value on the model's codes", nviol == 0,
               "%d of %d cases disagree" % (nviol, len(cases)) if nviol else "")
    if first_bad is not None:
        c, v = first_bad
        best, bestv = c, v
        if replay is None:
            try:
                cands = shrink(c, v["bad"][0]) + [dict(c)]
                sv = evaluate(cands, {})
                hit = [(cc, vv) for cc, vv in zip(cands, sv) if vv["bad"]]
                if hit:
                    best, bestv = hit[0]
                else:
                    # alone (fresh process) the case passes: the failure depends on what the process ranked before
                    ci = next(k for k, x in enumerate(cases) if x is c)
                    prev = [x for x in cases[:ci] if set(x["names"]) & set(c["names"]) and x["cols"] is not c["cols"]][-2:] or cases[max(0, ci - 2):ci]
                    hv = evaluate([dict(x) for x in prev] + [dict(c)], {})
                    if hv[-1]["bad"]:
                        best = dict(c, history=[{k: x[k] for k in x if k not in ("kinds", "record_codes")} for x in prev])
                        bestv = hv[-1]
            except vlib.Broken:
                pass
        best = {k: best[k] for k in best if k != "kinds"}
        b0 = bestv["bad"][0]
        run.violation("counterexample", "correspondence: mixed_rank_graph triplet vs prescribed heuristic value",
                      case=best, impl=(b0.get("row") or b0.get("impl")), model=b0.get("expected"), clause=b0["clause"],
                      extra={"cases_disagreeing": nviol, "disagreeing_by_heuristic": by_heur, "all_bad_rows_of_this_case": bestv["bad"][:10]})
    hist.update(stats)
    hist["frames_where_python_mirror_equals_coq_model"] = getattr(model_eval, "validated", 0)
    hist["cases_disagreeing_by_heuristic"] = by_heur
    run.cov["input_distribution"] = hist
    run.cov["exhaustive"] = False
    run.cov["tolerances"] = {"MI (sklearn)": "1e-9 * max(1, |v|)",
                             "MI-numba family (float32, fastmath)": "32 * 2^-24 * (sum |entropy terms| + 1e-6)",
                             "max-value-coverage": "1e-12 against the exact rational", "Pearson / AMI": "1e-9 against the library on the model's codes",
                             "Constant": "exactly 0.0"}
    run.samples = [{k: (c[k] if k != "cols" else [col[:12] for col in c["cols"]]) for k in c} for c in cases[:3]]
    run.assumptions += [
        "scores are compared as values only; the coding is never compared directly, so a recoding that leaves the prescribed "
        "value unchanged (MI family, AMI, max-coverage are partition functions) raises nothing, while Pearson fixes the sorted coding",
        "for a pair without the label either column may be the conditioning side; for MI-numba-randomized on two different "
        "columns inducing the same partition both the corrected value and the entropy are admitted (coding-dependent self-pair test)",
        "mi_stratified_sampling_ratio = 1.0 and every pair is evaluated (cap 2^15); sub-sampling is C04, pair selection is C06",
        "documented names that reach the surrogate scorer are covered by C05_no_silent_constant but not run (cross-validated models, no prescribed value)",
    ]
    run.trusted += [
        "tools/translate_dispatch.py (fail-closed ast walker; text -> Gen/Dispatch.v, Gen/DocNames.v)",
        "harness: tools/props/c05.py (generators, exact-count float64 plug-in / corrected MI, tolerances), tools/impl/impl_c05.py "
        "(fake serial pool, args namespace from the defaults in outrank/__main__.py, recording wrapper for compute_batch_ranking)",
        "library oracles: scipy.stats.pearsonr, sklearn adjusted_mutual_info_score (called on the model's codes); sklearn "
        "mutual_info_classif is NOT trusted: its output is compared with the exact-count plug-in value",
        "numba / LLVM fastmath float32 rounding is covered by the stated tolerance, not by a theorem",
        "coqparse.py (reads the terms coqc prints)",
    ]
