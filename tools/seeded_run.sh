#!/bin/bash
# usage: tools/seeded_run.sh <seeded-dir-name> [<check-id> ...]
# Applies seeded/<name>/patch.diff to a scratch worktree of /repo (never to /repo itself), runs the given checks
# (default: the property named in meta.json) against it via OUTRANK_REPO, stores the outcome in seeded/<name>/result.txt.
cd "$(dirname "$0")/.."
name=$1; shift
d=seeded/$name
[ -f $d/patch.diff ] || { echo "no $d/patch.diff"; exit 2; }
ids="$@"
[ -z "$ids" ] && ids=${name%%-*}
o=${OUT%.txt}; wt=/root/scratch/seed_${name}${o:+_$o}
git -C /repo worktree remove --force $wt >/dev/null 2>&1
git -C /repo worktree add --detach $wt HEAD >/dev/null 2>&1 || exit 2
git -C $wt apply $PWD/$d/patch.diff || { echo "patch does not apply"; git -C /repo worktree remove --force $wt; exit 2; }
res=$d/${OUT:-result.txt}
: > $res
for id in $ids; do
  out=$(OUTRANK_REPO=$wt ./check $id --tier ${TIER:-quick} 2>&1 | grep -E "^(VIOLATION|KNOWN-FINDING|C[0-9]+ tier)" )
  echo "$out" | tee -a $res
done
git -C /repo worktree remove --force $wt
