#!/bin/bash
# Re-bases seeded patches whose context drifted after a fix commit in /repo (3-way apply; the change itself is kept).
cd "$(dirname "$0")/.."
wt=/root/scratch/rebase_wt
git -C /repo worktree remove --force $wt >/dev/null 2>&1
git -C /repo worktree add --detach $wt HEAD >/dev/null 2>&1
head=$(git -C /repo log --format=%h -1)
for d in seeded/*/; do
  n=$(basename $d)
  if git -C $wt apply --check $PWD/$d/patch.diff 2>/dev/null; then continue; fi
  git -C $wt reset -q --hard
  if git -C $wt apply --3way $PWD/$d/patch.diff >/dev/null 2>&1 && [ -z "$(git -C $wt diff --name-only --diff-filter=U)" ]; then
    cp $d/patch.diff $d/patch.orig.$(date +%s).diff
    git -C $wt diff HEAD > $d/patch.diff
    python3 - $d/meta.json $head <<'PY'
import json,sys
p,h=sys.argv[1:3]
try: m=json.load(open(p))
except Exception: m={}
m['ported_note']=(m.get('ported_note','')+' context re-based (git apply --3way, no conflicts) onto /repo %s; the change itself is unmodified.'%h).strip()
json.dump(m,open(p,'w'),indent=1)
PY
    echo "REBASED $n"
  else
    echo "CONFLICT $n"
  fi
  git -C $wt reset -q --hard
done
git -C /repo worktree remove --force $wt
