#!/bin/bash
# usage: tools/run_all.sh [quick|thorough] [parallelism]   — every claimed check against /repo, summary at the end
cd "$(dirname "$0")/.."
tier=${1:-quick}; par=${2:-3}
mkdir -p .cache/runall
ids=$(python3 -c "import json;print(' '.join(c['property_id'] for c in json.load(open('MANIFEST.json'))['checks']))")
echo $ids | tr ' ' '\n' | xargs -P $par -I{} bash -c "( time ./check {} --tier $tier ) > .cache/runall/{}.$tier.log 2>&1"
for id in $ids; do echo "== $id: $(grep -E '^(VIOLATION|KNOWN-FINDING)' .cache/runall/$id.$tier.log | head -3) $(grep -E ' tier=' .cache/runall/$id.$tier.log | tail -1)"; done
