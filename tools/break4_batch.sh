#!/bin/bash
# usage: tools/break4_batch.sh ID...   (round-4 seeded changes from /tmp/rt4/<ID>; A->G, B->J)
cd "$(dirname "$0")/.."
for id in "$@"; do
  for pair in A:G B:J; do
    v=${pair%%:*}; n=${pair##*:}
    src=/tmp/rt4/${id}/.rt_out/$v
    [ -f $src/patch.diff ] || continue
    tools/seeded_confirm.sh $src $id-$n
    [ -d seeded/$id-$n ] && tools/seeded_run.sh $id-$n
  done
done
