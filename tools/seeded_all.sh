#!/bin/bash
# usage: tools/seeded_all.sh [name-prefix]  — runs every seeded change (or those matching the prefix) against its property's check
cd "$(dirname "$0")/.."
claimed=$(python3 -c "import json;print(' '.join(c['property_id'] for c in json.load(open('MANIFEST.json'))['checks']))")
for d in seeded/${1}*/; do
  n=$(basename $d); pid=${n%%-*}
  if echo " $claimed " | grep -q " $pid "; then echo "## $n"; tools/seeded_run.sh $n; else echo "## $n skipped ($pid not claimed yet)"; fi
done
