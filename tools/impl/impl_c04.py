"""C04 driver: feeds the cases to long-lived worker processes (impl_c04_worker.py) and isolates their crashes.

stdin: {"cases": [{"Y","X","r","c","poison":[a,b],"Y2"?}, ...], "fresh": [case indices], "max_respawn": k}
Three workers run in parallel, each over ALL cases:
   mode "A": heap poisoned with the double poison[0] before every call,
   mode "B": heap poisoned with poison[1],
   mode "N": no poisoning.
In addition every case listed in "fresh" is run once in a brand-new interpreter (mode "F": poisoned with poison[0]).
A worker that dies (segfault = return code -11, "exit 139" in a shell) yields {"crash": rc} for the case it was
working on; it is restarted for the next case (at most max_respawn times, afterwards the remaining cases of that
mode are reported as {"skipped": true}).
stdout: one line `@@RESULT {"results": [{"A":..., "B":..., "N":..., "F":...?}, ...]}`.
"""
import json
import os
import select
import subprocess
import sys
import threading
import time

HERE = os.path.dirname(os.path.abspath(__file__))
WORKER = os.path.join(HERE, "impl_c04_worker.py")
START_TIMEOUT = 240
CASE_TIMEOUT = 240


class Worker:
    def __init__(self, tag):
        self.tag = tag
        self.errpath = os.path.join(os.getcwd(), "c04_worker_%d_%s.err" % (os.getpid(), tag))
        self.p = None
        self.buf = b""

    def start(self):
        self.err = open(self.errpath, "wb")
        self.p = subprocess.Popen([sys.executable, WORKER], stdin=subprocess.PIPE, stdout=subprocess.PIPE,
                                  stderr=self.err, bufsize=0)
        self.buf = b""
        ln = self.readline(START_TIMEOUT)
        while ln is not None and not ln.startswith("@@READY"):
            ln = self.readline(START_TIMEOUT)
        return ln is not None

    def readline(self, timeout):
        """One line from the worker, or None when it died / timed out."""
        end = time.time() + timeout
        while b"\n" not in self.buf:
            left = end - time.time()
            if left <= 0:
                return None
            r, _, _ = select.select([self.p.stdout], [], [], min(left, 1.0))
            if r:
                chunk = os.read(self.p.stdout.fileno(), 1 << 16)
                if not chunk:
                    return None
                self.buf += chunk
            elif self.p.poll() is not None:
                return None
        ln, self.buf = self.buf.split(b"\n", 1)
        return ln.decode("utf8", "replace")

    def ask(self, req):
        try:
            self.p.stdin.write((json.dumps(req) + "\n").encode())
            self.p.stdin.flush()
        except (BrokenPipeError, OSError):
            return None
        while True:
            ln = self.readline(CASE_TIMEOUT)
            if ln is None:
                return None
            if ln.startswith("@@R "):
                return json.loads(ln[4:])

    def stderr_tail(self):
        try:
            self.err.flush()
            return open(self.errpath, "rb").read()[-600:].decode("utf8", "replace")
        except OSError:
            return ""

    def returncode(self):
        try:
            return self.p.wait(timeout=20)
        except subprocess.TimeoutExpired:
            self.p.kill()
            self.p.wait()
            return "timeout"

    def stop(self):
        if self.p is not None:
            try:
                self.p.stdin.close()
            except OSError:
                pass
            try:
                self.p.wait(timeout=10)
            except subprocess.TimeoutExpired:
                self.p.kill()
                self.p.wait()
        try:
            self.err.close()
        except Exception:
            pass
        try:
            os.remove(self.errpath)
        except OSError:
            pass


def request(case, i, mode):
    pz = case.get("poison") or [3.0, 9.0]
    pv = {"A": pz[0], "B": pz[1], "N": None, "F": pz[0]}[mode]
    if "scale" in case:
        return {"id": i, "scale": case["scale"], "poison": pv}
    return {"id": i, "Y": case["Y"], "X": case["X"], "r": case["r"], "c": case["c"], "poison": pv,
            "Y2": case.get("Y2"), "entry": case.get("entry")}


def run_mode(mode, cases, out, max_respawn):
    w = Worker(mode)
    alive = w.start()
    respawns = 0
    for i, case in enumerate(cases):
        if not alive:
            if respawns >= max_respawn:
                out[i][mode] = {"skipped": True}
                continue
            respawns += 1
            w.stop()
            w = Worker("%s%d" % (mode, respawns))
            alive = w.start()
            if not alive:
                out[i][mode] = {"crash": "worker-does-not-start", "stderr": w.stderr_tail()}
                continue
        res = w.ask(request(case, i, mode))
        if res is None:
            rc = w.returncode()
            out[i][mode] = {"crash": rc, "stderr": w.stderr_tail()}
            alive = False
        else:
            out[i][mode] = res
    w.stop()


def run_fresh(i, case, out):
    w = Worker("F%d" % i)
    if not w.start():
        out[i]["F"] = {"crash": "worker-does-not-start", "stderr": w.stderr_tail()}
    else:
        res = w.ask(request(case, i, "F"))
        out[i]["F"] = res if res is not None else {"crash": w.returncode(), "stderr": w.stderr_tail()}
    w.stop()


def main():
    payload = json.load(sys.stdin)
    cases = payload["cases"]
    out = [dict() for _ in cases]
    max_respawn = int(payload.get("max_respawn", 4))
    threads = [threading.Thread(target=run_mode, args=(m, cases, out, max_respawn)) for m in ("A", "B", "N")]
    for t in threads:
        t.start()
    fresh = [i for i in payload.get("fresh", []) if 0 <= i < len(cases)]
    sem = threading.Semaphore(4)

    def guarded(i):
        with sem:
            run_fresh(i, cases[i], out)
    fts = [threading.Thread(target=guarded, args=(i,)) for i in fresh]
    for t in fts:
        t.start()
    for t in threads + fts:
        t.join()
    print("@@RESULT " + json.dumps({"results": out}))


if __name__ == "__main__":
    main()
