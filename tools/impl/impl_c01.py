"""Runs the real mutual_info_estimator_numba on (Y, X, flag) cases (C01, C02, C03).

Under /venv/bin/python with PYTHONPATH=$OUTRANK_REPO.  stdin: {"cases": [{"Y": [...], "X": [...], "flag": bool}, ...],
"wiring": bool}.  Each call is exactly the call the pipeline makes in importance_estimator.numba_mi:
int32 arrays, approximation_factor = np.float32(1.0).  Output: one line `@@RESULT <json>` with, per case,
{"ok": true, "v": <float or "nan"/"inf"/"-inf">} or {"ok": false, "error": "..."}.
With "wiring": true additionally drives importance_estimator.numba_mi for the heuristic names given in
"wiring_names" on "wiring_pair" and reports the scores (used by C03 to confirm which names switch the flag on)."""
import json
import math
import sys

payload = json.load(sys.stdin)
import numpy as np  # noqa: E402
from outrank.algorithms.feature_ranking import ranking_mi_numba as rmn  # noqa: E402


def fl(v):
    v = float(v)
    if math.isnan(v):
        return "nan"
    if math.isinf(v):
        return "inf" if v > 0 else "-inf"
    return v


out = []
for case in payload.get("cases", []):
    try:
        Y = np.array(case["Y"], dtype=np.int64).astype(np.int32)
        X = np.array(case["X"], dtype=np.int64).astype(np.int32)
        Y0, X0 = Y.copy(), X.copy()
        v = rmn.mutual_info_estimator_numba(Y, X, np.float32(1.0), bool(case["flag"]))
        r = {"ok": True, "v": fl(v)}
        if not (np.array_equal(Y, Y0) and np.array_equal(X, X0)):
            r["mutated_inputs"] = True
        out.append(r)
    except BaseException as e:  # recorded outcome, decided by the harness
        if isinstance(e, (KeyboardInterrupt, SystemExit)):
            raise
        out.append({"ok": False, "error": "%s: %s" % (type(e).__name__, str(e)[:300])})

res = {"results": out}
if payload.get("wiring"):
    w = {}
    try:
        from outrank.algorithms import importance_estimator as ie  # noqa: E402
        Yw = np.array(payload["wiring_pair"]["Y"], dtype=np.int64)
        Xw = np.array(payload["wiring_pair"]["X"], dtype=np.int64)
        for name in payload["wiring_names"]:
            try:
                w[name] = {"ok": True, "v": fl(ie.numba_mi(Yw.reshape(-1, 1), Xw, name, 1.0))}
            except BaseException as e:
                if isinstance(e, (KeyboardInterrupt, SystemExit)):
                    raise
                w[name] = {"ok": False, "error": "%s: %s" % (type(e).__name__, str(e)[:300])}
    except BaseException as e:
        if isinstance(e, (KeyboardInterrupt, SystemExit)):
            raise
        w["__import__"] = {"ok": False, "error": "%s: %s" % (type(e).__name__, str(e)[:300])}
    res["wiring"] = w
print("@@RESULT " + json.dumps(res))
