"""Runs the real mutual_info_estimator_numba on (Y, X, flag) cases (C01, C02, C03).

Under /venv/bin/python with PYTHONPATH=$OUTRANK_REPO.  stdin: {"cases": [{"Y": [...], "X": [...], "flag": bool}, ...],
"wiring": bool}.  Each call is exactly the call the pipeline makes in importance_estimator.numba_mi:
int32 arrays, approximation_factor = np.float32(1.0).  Output: one line `@@RESULT <json>` with, per case,
{"ok": true, "v": <float or "nan"/"inf"/"-inf">} or {"ok": false, "error": "..."}.
With "wiring": true additionally drives importance_estimator.numba_mi / conduct_feature_ranking for the heuristic names
given in "wiring_names" on "wiring_pair" and reports the scores and the flag handed to the estimator (C03: which names
switch the correction on).  "histories": sequences of calls through the same entry points against preallocated buffers that
are overwritten in place between calls (C03: the score is a function of the contents at call time)."""
import json
import math
import sys

payload = json.load(sys.stdin)
import numpy as np  # noqa: E402
from outrank.algorithms.feature_ranking import ranking_mi_numba as rmn  # noqa: E402


def fl(v):
    v = float(v)
    if math.isnan(v):
        return "nan"
    if math.isinf(v):
        return "inf" if v > 0 else "-inf"
    return v


out = []
for case in payload.get("cases", []):
    try:
        Y = np.array(case["Y"], dtype=np.int64).astype(np.int32)
        X = np.array(case["X"], dtype=np.int64).astype(np.int32)
        Y0, X0 = Y.copy(), X.copy()
        v = rmn.mutual_info_estimator_numba(Y, X, np.float32(1.0), bool(case["flag"]))
        r = {"ok": True, "v": fl(v)}
        if not (np.array_equal(Y, Y0) and np.array_equal(X, X0)):
            r["mutated_inputs"] = True
        out.append(r)
    except BaseException as e:  # recorded outcome, decided by the harness
        if isinstance(e, (KeyboardInterrupt, SystemExit)):
            raise
        out.append({"ok": False, "error": "%s: %s" % (type(e).__name__, str(e)[:300])})

res = {"results": out}


def _guard(f):
    try:
        return f()
    except BaseException as e:  # recorded outcome, decided by the harness
        if isinstance(e, (KeyboardInterrupt, SystemExit)):
            raise
        return {"ok": False, "error": "%s: %s" % (type(e).__name__, str(e)[:300])}


if payload.get("wiring") or payload.get("histories"):
    import types
    w = {}
    hres = []
    try:
        from outrank.algorithms import importance_estimator as ie  # noqa: E402

        # read the flag actually handed to the estimator: importance_estimator looks the function up on the module at call
        # time, so a recording wrapper around every `mutual_info_estimator_numba*` attribute sees it (None = not observed)
        seen = []

        def _wrap(fn):
            def rec(*a, **k):
                flag = k.get("cardinality_correction", a[3] if len(a) > 3 else None)
                seen.append(None if flag is None else bool(flag))
                return fn(*a, **k)
            return rec
        for nm in dir(rmn):
            if nm.startswith("mutual_info_estimator_numba") and callable(getattr(rmn, nm)):
                setattr(rmn, nm, _wrap(getattr(rmn, nm)))

        def mkargs(name):
            return types.SimpleNamespace(heuristic=name, mi_stratified_sampling_ratio=1.0, reference_model_JSON="",
                                         label_column="label")

        def call(via, Yv, Xv, name):
            del seen[:]
            if via == "numba_mi":
                v = ie.numba_mi(Yv.reshape(-1, 1), Xv, name, 1.0)
            elif via == "numba_mi_1d":
                v = ie.numba_mi(Yv, Xv, name, 1.0)
            else:
                v = ie.conduct_feature_ranking(Yv, Xv, mkargs(name))
            return {"ok": True, "v": fl(v), "flag_seen": list(seen)}

        if payload.get("wiring"):
            Yw = np.array(payload["wiring_pair"]["Y"], dtype=np.int64)
            Xw = np.array(payload["wiring_pair"]["X"], dtype=np.int64)
            for name in payload["wiring_names"]:
                w[name] = {"numba_mi": _guard(lambda: call("numba_mi", Yw.copy(), Xw.copy(), name))}
                if "MI-numba" in name:
                    w[name]["conduct_feature_ranking"] = _guard(lambda: call("conduct_feature_ranking", Yw.copy(), Xw.copy(), name))

        # histories: the same preallocated buffers are overwritten in place between calls (np.copyto), as a streaming loop
        # with one label buffer would do; every call is compared with the model on the contents at call time
        for h in payload.get("histories", []):
            n = len(h["steps"][0]["X"])
            T = np.zeros(n, dtype=np.int64)
            F = np.zeros(n, dtype=np.int64)
            steps = []
            for st in h["steps"]:
                np.copyto(T, np.array(st["X"], dtype=np.int64))
                if h.get("reuse_feature"):
                    np.copyto(F, np.array(st["Y"], dtype=np.int64))
                    Yv = F
                else:
                    Yv = np.array(st["Y"], dtype=np.int64)
                r = _guard(lambda: call(h["via"], Yv, T, h["heuristic"]))
                if r["ok"] and not np.array_equal(T, np.array(st["X"], dtype=np.int64)):
                    r["mutated_inputs"] = True
                steps.append(r)
            hres.append(steps)
    except BaseException as e:
        if isinstance(e, (KeyboardInterrupt, SystemExit)):
            raise
        w["__import__"] = {"ok": False, "error": "%s: %s" % (type(e).__name__, str(e)[:300])}
    res["wiring"] = w
    res["histories"] = hres
print("@@RESULT " + json.dumps(res))
