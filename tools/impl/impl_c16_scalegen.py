"""C16 scale family — deterministic generator of DISTINCT well-formed lines with their known cells.

Shared by the harness (tools/props/c16.py, system python) and the implementation driver (tools/impl/impl_c16.py,
/venv python): pure integer arithmetic (splitmix64), no `random`, so both sides produce the same lines.

gen(fmt, seed, i) -> (line, expected) where expected is the row the parser must return for that line:
  csv / stream : 5 cells rendered by the QUOTE_MINIMAL writer mirror; expected = the cells (theorem C16_csv)
  tsv          : the same cells joined by TAB; expected = the cells (theorem C16_tsv)
  vw           : label + namespaces over a fixed 4-id map; expected = label :: per column drop 2 (join '-' tokens) / None
                 (theorem C16_vw); header / map = VW_HEADER / VW_FW
  stream       : like csv, but every line with i % 997 == 0 has only 4 cells (must be rejected by the field-count test;
                 expected = None for those)
Every line carries a unique id cell / token, so a line that comes back as another line's fields is always detected.
The harness cross-checks this closed form against the Coq model (and the renderer against the model's writer and
csv.writer) on a sample of the generated lines in every run.
"""
M64 = (1 << 64) - 1
NCOLS = 5
CSV_HEADER = ["label", "user", "publisher", "geo", "device"]
VW_FW = [["a", "feat_a"], ["b", "feat_b"], ["c", "feat_c"], ["d", "feat_d"]]
VW_HEADER = ["label"] + [f for _, f in VW_FW]
REJECT_EVERY = 997


def mix(seed, i, k=0):
    z = (seed * 0x9E3779B97F4A7C15 + i * 0xBF58476D1CE4E5B9 + k * 0x94D049BB133111EB + 0x632BE59BD9B4E019) & M64
    z = ((z ^ (z >> 30)) * 0xBF58476D1CE4E5B9) & M64
    z = ((z ^ (z >> 27)) * 0x94D049BB133111EB) & M64
    return z ^ (z >> 31)


def render_csv(row):
    """QUOTE_MINIMAL writer (mirror of IO/Csv.v render)."""
    if row == [""]:
        return '""'
    out = []
    for f in row:
        if ("," in f) or ('"' in f) or ("\n" in f) or ("\r" in f):
            out.append('"' + f.replace('"', '""') + '"')
        else:
            out.append(f)
    return ",".join(out)


def cells(tag, seed, i):
    r = mix(seed, i)
    v = (r >> 8) & 7
    n = (r >> 16) % 1000
    if v == 0:
        c3 = "geo%d" % n
    elif v == 1:
        c3 = "geo,%d" % n                         # comma -> quoted
    elif v == 2:
        c3 = 'say "hi" %d' % n                    # doubled quotes
    elif v == 3:
        c3 = '{"k": "v,%d", "n": [1, 2]}' % n     # JSON dump
    elif v == 4:
        c3 = ""
    elif v == 5:
        c3 = " padded %d " % n
    elif v == 6:
        c3 = "\u00e9\u20ac%d" % n
    else:
        c3 = '"'
    c4 = "" if (r >> 40) % 11 == 0 else "dev%d" % ((r >> 44) % 7)
    return [str(r & 1), "%s_%d" % (tag, i), "pub-%d" % ((r >> 24) % 1000), c3, c4]


def gen(fmt, seed, i):
    if fmt == "csv":
        c = cells("user", seed, i)
        return render_csv(c) + "\n", c
    if fmt == "stream":
        c = cells("srow", seed, i)
        if i % REJECT_EVERY == 0:
            return render_csv(c[:4]) + "\n", None
        return render_csv(c) + "\n", c
    if fmt == "tsv":
        c = cells("trow", seed, i)
        return "\t".join(c) + "\n", c
    if fmt == "vw":
        r = mix(seed, i, 1)
        label = "1" if r & 1 else "-1"
        parts = [label + " "]
        exp = {}
        present = (r >> 4) & 15
        if present == 0:
            present = 1
        for k, (ns, feat) in enumerate(VW_FW):
            if not (present >> k) & 1:
                continue
            toks = ["%s_%d" % (ns, i)]
            for t in range((r >> (8 + 2 * k)) & 3):
                toks.append("%s_v%d" % (ns, (r >> (20 + 3 * k + t)) % 50))
            parts.append(ns + " " + " ".join(toks) + " ")
            exp[feat] = "-".join(toks)[2:]
        line = "|".join(parts).rstrip(" ") + "\n"
        return line, [label] + [exp.get(f) for f in VW_HEADER[1:]]
    raise ValueError(fmt)


def source_of(fmt, i):
    if fmt in ("csv", "stream"):
        return "csv-raw" if i % 2 == 0 else "ob-csv"
    return {"tsv": "ob-raw-dump", "vw": "ob-vw"}[fmt]
