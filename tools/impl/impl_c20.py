"""C20: drives the real CategoricalClassification derived-structure methods on generated cases.

Runs under /venv/bin/python with PYTHONPATH=$OUTRANK_REPO.  Reads {"cases": [...]} on stdin, prints `@@RESULT <json>`.

Observation points (no edits to the repository; harness-side wrappers around module attributes only):
  * np.random.choice / np.random.randint / np.random.shuffle are wrapped (the real functions still run): every call's
    arguments and answer are appended to the RNG answer stream of the case;
  * cc_generator.resample (sklearn.utils.resample, imported by name into the module) is wrapped: the size of the
    population it was called on is recorded and, for each returned row, a witness index of an equal row of the
    population (or -1 when there is none);
  * np.percentile is wrapped to record the decision values the labelling code computed (first argument) and the
    percentile list it asked for;
  * the input arrays are copied before the call and compared afterwards ("input untouched").
Floats are returned exactly, as [numerator, denominator] of float.as_integer_ratio(), or as the strings
"nan" / "inf" / "-inf".
"""
import json
import math
import sys
import traceback

payload = json.load(sys.stdin)

import numpy as np  # noqa: E402
import outrank.algorithms.synthetic_data_generators.cc_generator as ccmod  # noqa: E402

CC = ccmod.CategoricalClassification

STREAM = []
PCT = []

_choice, _randint, _shuffle, _percentile = np.random.choice, np.random.randint, np.random.shuffle, np.percentile
_resample = getattr(ccmod, "resample", None)      # observation points are wrapped only if the module has them


def _ints(a):
    return [int(v) for v in np.asarray(a).ravel().tolist()]


def w_choice(a, size=None, replace=True, p=None):
    r = _choice(a, size=size, replace=replace, p=p)
    try:
        if isinstance(a, (int, np.integer)):
            STREAM.append(["idx", int(a), None if size is None else int(size), bool(replace), _ints(r)])
        else:
            STREAM.append(["val", _ints(list(a)), None if size is None else int(size), _ints(r)])
    except Exception as e:  # unexpected call shape: leave a marker, the model will reject the stream
        STREAM.append(["unknown-choice", repr(e)])
    return r


def w_randint(low, high=None, size=None, dtype=int):
    r = _randint(low, high, size, dtype)
    STREAM.append(["int", int(low), None if high is None else int(high), _ints(r)])
    return r


def w_shuffle(x):
    _shuffle(x)
    try:
        STREAM.append(["perm", _ints(x)])
    except Exception as e:
        STREAM.append(["unknown-shuffle", repr(e)])


def w_resample(*arrays, **kw):
    out = _resample(*arrays, **kw)
    try:
        pop = [np.asarray(r).tolist() for r in arrays[0]]
        res = [np.asarray(r).tolist() for r in out]
        idx = []
        for r in res:
            try:
                idx.append(pop.index(r))
            except ValueError:
                idx.append(-1)
        STREAM.append(["sample", len(pop), idx])
    except Exception as e:
        STREAM.append(["unknown-resample", repr(e)])
    return out


def w_percentile(a, q, *args, **kw):
    r = _percentile(a, q, *args, **kw)
    try:
        PCT.append({"d": [fx(v) for v in np.asarray(a, dtype=float).ravel().tolist()],
                    "q": [fx(v) for v in np.asarray(q, dtype=float).ravel().tolist()],
                    "cuts": [fx(v) for v in np.asarray(r, dtype=float).ravel().tolist()]})
    except Exception as e:
        PCT.append({"error": repr(e)})
    return r


_quantile = getattr(np, "quantile", None)


def w_quantile(a, q, *args, **kw):
    """np.quantile(a, q) == np.percentile(a, 100 q): recorded in percent units"""
    r = _quantile(a, q, *args, **kw)
    try:
        PCT.append({"d": [fx(v) for v in np.asarray(a, dtype=float).ravel().tolist()],
                    "q": [fx(float(v) * 100.0) for v in np.asarray(q, dtype=float).ravel().tolist()],
                    "cuts": [fx(v) for v in np.asarray(r, dtype=float).ravel().tolist()], "via": "quantile"})
    except Exception as e:
        PCT.append({"error": repr(e)})
    return r


np.random.choice, np.random.randint, np.random.shuffle, np.percentile = w_choice, w_randint, w_shuffle, w_percentile
if _quantile is not None:
    np.quantile = w_quantile
if _resample is not None:
    ccmod.resample = w_resample


def fx(v):
    v = float(v)
    if math.isnan(v):
        return "nan"
    if math.isinf(v):
        return "inf" if v > 0 else "-inf"
    a, b = v.as_integer_ratio()
    return [a, b]


def cell(v):
    if isinstance(v, (bool, np.bool_)):
        return int(v)
    if isinstance(v, (int, np.integer)):
        return int(v)
    return fx(v)


def mat(A):
    A = np.asarray(A)
    if A.ndim == 1:
        return [cell(v) for v in A.tolist()]
    return [[cell(v) for v in row] for row in A.tolist()]


def idx_list(v):
    """canonical list form of an index selection stored in dataset_info (scalar -> one-element list)"""
    a = np.asarray(v)
    if a.ndim == 0:
        return [int(a)]
    return [int(t) for t in a.ravel().tolist()]


def info_json(di):
    """canonical, JSON-able form of dataset_info; entries that lack an expected key are rendered with null (and so compare
    unequal to the model) instead of crashing the driver"""
    def ixs(e, k):
        return idx_list(e[k]) if isinstance(e, dict) and k in e else None

    def fxs(e, k):
        return fx(e[k]) if isinstance(e, dict) and k in e else None

    out = {"keys": sorted(di.keys())}
    out["general"] = {} if di.get("general") == {} else "nonempty"
    out["combinations"] = [{"feature_indices": ixs(e, "feature_indices"),
                            "combination_type": str(e.get("combination_type")) if isinstance(e, dict) else None,
                            "combination_ix": int(e["combination_ix"]) if isinstance(e, dict) and "combination_ix" in e else None}
                           for e in di.get("combinations", [])]
    out["correlations"] = [{"feature_indices": ixs(e, "feature_indices"), "correlated_indices": ixs(e, "correlated_indices"),
                            "correlation_factor": fxs(e, "correlation_factor")} for e in di.get("correlations", [])]
    out["duplicates"] = [{"feature_indices": ixs(e, "feature_indices"), "duplicate_indices": ixs(e, "duplicate_indices")}
                         for e in di.get("duplicates", [])]
    lab = di.get("labels", {})
    out["labels"] = None if lab == {} else {"class_relation": str(lab.get("class_relation")), "n_class": int(lab.get("n_class"))}
    out["noise"] = [{"type": str(e.get("type")) if isinstance(e, dict) else None, "amount": fxs(e, "amount")} for e in di.get("noise", [])]
    ds = di.get("downsampling")
    out["downsampling"] = None if ds is None else {"original_shape": [int(t) for t in ds["original_shape"]],
                                                   "downsampled_shape": [int(t) for t in ds["downsampled_shape"]]}
    return out


def mk_idx(spec):
    """{"v": [..] or int, "as": "list" | "array" | "scalar" | "npscalar"}"""
    v, how = spec["v"], spec.get("as", "list")
    if how == "list":
        return list(v)
    if how == "array":
        return np.array(v, dtype=int)
    if how == "npscalar":
        return np.int64(v)
    return int(v)


LAST_P = []
P_OBJECTS = {}          # per history: class-distribution objects shared between calls ("ref")


def mk_p(spec):
    """{"v": float or [floats] given as [num, den], "as": "scalar" | "list" | "array", "ref": name of a shared object}"""
    ref = spec.get("ref")
    if ref is not None:
        if ref not in P_OBJECTS:
            P_OBJECTS[ref] = mk_p({k: v for k, v in spec.items() if k != "ref"})
        return P_OBJECTS[ref]
    how = spec.get("as", "scalar")
    if how == "scalar":
        return spec["v"][0] / spec["v"][1]
    vals = [a / b for a, b in spec["v"]]
    return vals if how == "list" else np.array(vals)


def mk_X(case):
    return np.array(case["X"], dtype=case.get("dtype", "int64")).reshape(len(case["X"]), -1)


# harness-defined decision functions with exactly representable (dyadic) values on integer data
def quarter_sum(x):
    return np.sum(x, axis=1) / 4


def first_col(x):
    return x[:, 0]


def neg_weighted(x):
    w = np.arange(1, x.shape[1] + 1)
    return -(x @ w) / 8


DECISIONS = {"quarter_sum": quarter_sum, "first_col": first_col, "neg_weighted": neg_weighted}


def apply_op(g, X, op):
    """one generator call of a pipeline / session; returns (X', extra)"""
    k = op["op"]
    if k == "dup":
        return g.generate_duplicates(X, mk_idx(op["idx"])), None
    if k == "combo":
        fn = op["fn"]
        if fn in ("linear", "nonlinear"):
            return g.generate_combinations(X, mk_idx(op["idx"]), combination_type=fn), None
        return g.generate_combinations(X, mk_idx(op["idx"]), combination_function=getattr(g, fn)), None
    if k == "corr":
        return g.generate_correlated(X, mk_idx(op["idx"]), r=op["r"][0] / op["r"][1]), None
    if k == "labels":
        kw = {}
        if op["relation"] in DECISIONS:
            kw["decision_function"] = DECISIONS[op["relation"]]
        else:
            kw["class_relation"] = op["relation"]
        pobj = mk_p(op["p"])
        y = g.generate_labels(X, n=op["n"], p=pobj, k=op.get("k", 2), **kw)
        LAST_P[:] = [pobj]
        return X, y
    if k == "noise":
        y = np.array(op["y"], dtype=int)
        kw = {"missing_val": op["marker"]} if "marker" in op and op["marker"] is not None else {}
        return g.generate_noise(X, y, p=op["p"][0] / op["p"][1], type=op["type"], **kw), None
    if k == "down":
        y = np.array(op["y"], dtype=int)
        Xd, yd = g.downsample_dataset(X, y, n=op.get("n"), seed=op.get("seed", 42), reshuffle=op.get("reshuffle", False))
        return Xd, yd
    raise ValueError("unknown op " + k)


def run_single(g, case, X):
    """one call (or, for pipe / session, one chain of calls) on generator object g with input matrix X; -> (out, result matrix)"""
    del STREAM[:]
    del PCT[:]
    kind = case["kind"]
    out = {}
    X0 = X.copy()
    Xres = None
    if kind in ("pipe", "session"):
        shapes = []
        Xc = X
        for op in case["ops"]:
            Xin = Xc
            Xin0 = Xin.copy()
            Xc, _ = apply_op(g, Xc, op)
            Xc = np.asarray(Xc)
            shapes.append([int(t) for t in Xc.shape])
            if not (Xin.shape == Xin0.shape and np.array_equal(Xin, Xin0, equal_nan=True)):
                out["input_changed"] = True
        out["shapes"] = shapes
        if kind == "pipe":
            out["X"] = mat(Xc)
        Xres = Xc
    elif kind == "corr":
        Y = g.generate_correlated(X, mk_idx(case["idx"]), r=case["r"][0] / case["r"][1])
        out["X"] = mat(np.asarray(Y, dtype=float))
        out["shape"] = [int(t) for t in np.asarray(Y).shape]
        Xres = np.asarray(Y)
    elif kind == "labels":
        _, y = apply_op(g, X, dict(case, op="labels"))
        y = np.asarray(y)
        out["y"] = mat(y)
        out["pct"] = list(PCT)
        # is the caller's class-distribution object still what was passed? (observed; the property does not speak about it)
        try:
            fresh = mk_p({k_: v_ for k_, v_ in case["p"].items() if k_ != "ref"})
            out["p_unchanged"] = bool(np.array_equal(np.asarray(LAST_P[0], dtype=float), np.asarray(fresh, dtype=float)))
        except Exception:
            out["p_unchanged"] = False
    elif kind in ("noise_cat", "noise_missing"):
        y = np.array(case["y"], dtype=int)
        y0 = y.copy()
        inds = y.copy().argsort()          # the same deterministic library call the code makes on an equal array
        out["inds"] = _ints(inds)
        kw = {}
        if case.get("marker") is not None:
            kw["missing_val"] = case["marker"]
        try:
            Xn = g.generate_noise(X, y, p=case["p"][0] / case["p"][1], type="categorical" if kind == "noise_cat" else "missing", **kw)
            out["X"] = mat(np.asarray(Xn))
            out["dtype"] = str(np.asarray(Xn).dtype)
            Xres = np.asarray(Xn)
        except Exception as e:
            out["raised"] = "%s: %s" % (type(e).__name__, e)
        out["stream"] = list(STREAM)
        out["y_untouched"] = bool(np.array_equal(y, y0))
    elif kind == "down":
        y = np.array(case["y"], dtype=int)
        y0 = y.copy()
        try:
            Xd, yd = g.downsample_dataset(X, y, n=case.get("n"), seed=case.get("rs", 42), reshuffle=case.get("reshuffle", False))
            out["X"] = mat(np.asarray(Xd))
            out["y"] = mat(np.asarray(yd))
            Xres = np.asarray(Xd)
        except Exception as e:
            out["raised"] = "%s: %s" % (type(e).__name__, e)
        out["stream"] = list(STREAM)
        out["y_untouched"] = bool(np.array_equal(y, y0))
    else:
        raise ValueError("unknown kind " + kind)
    if kind not in ("pipe", "session"):
        out["x_untouched"] = bool(X.shape == X0.shape and np.array_equal(X, X0, equal_nan=True))
    else:
        out["x_untouched"] = not out.get("input_changed", False)
    return out, Xres


def history_input(g, step, mats):
    """the matrix a call of a history is given: a literal, a fresh generate_data() of the same instance, or the input / output
    matrix of an earlier call (optionally with permuted columns / rows)"""
    src = step.get("X_from")
    if src is None:
        return mk_X(step)
    if "gen" in src:
        a = src["gen"]
        structure = None
        if a.get("structure") is not None:       # [[feature index, [value domain, value frequencies]], ...]
            structure = [(int(ix), [list(dom), [f[0] / f[1] for f in fr]]) for ix, (dom, fr) in a["structure"]]
        return g.generate_data(a["n_features"], a["n_samples"], cardinality=a.get("cardinality", 5), structure=structure,
                               seed=a.get("seed", 42))
    M = mats[src["step"]][src.get("what", "out")]
    if M is None:
        raise ValueError("history step refers to a call without a result matrix")
    M = np.array(M)
    if src.get("colperm") is not None:
        M = M[:, src["colperm"]]
    if src.get("rowperm") is not None:
        M = M[src["rowperm"]]
    return M


def run_case(case):
    P_OBJECTS.clear()
    kind = case["kind"]
    np.random.seed(case.get("seed", 0))
    g = CC(seed=case.get("seed", 0))
    info0 = info_json(g.dataset_info)
    if kind == "history":
        # several calls on ONE generator object; every call's input, output, RNG answers and the self-description after it are recorded
        steps, mats = [], []
        for step in case["steps"]:
            try:
                X = np.asarray(history_input(g, step, mats))
                so, Xres = run_single(g, step, X)
                so["input"] = mat(X)
                so["input_dtype"] = str(X.dtype)
                so["ok"] = True
                mats.append({"in": X.copy(), "out": None if Xres is None else np.array(Xres)})
            except Exception as e:
                so = {"ok": False, "error": "%s: %s" % (type(e).__name__, e), "tb": traceback.format_exc()[-1500:]}
                mats.append({"in": None, "out": None})
            so["info"] = info_json(g.dataset_info)
            steps.append(so)
        return {"info0": info0, "steps": steps, "info": info_json(g.dataset_info)}
    out, _ = run_single(g, case, mk_X(case))
    out["info0"] = info0
    out["info"] = info_json(g.dataset_info)
    return out


results = []
for case in payload["cases"]:
    try:
        r = run_case(case)
        r["ok"] = True
    except Exception as e:
        r = {"ok": False, "error": "%s: %s" % (type(e).__name__, e), "tb": traceback.format_exc()[-1500:]}
    results.append(r)
print("@@RESULT " + json.dumps({"results": results}))
