"""C08 (and the fake-pool part of C09): drives the real streaming ranking code on generated CSV files.

Runs under /venv/bin/python with PYTHONPATH=$OUTRANK_REPO.  Reads {"cases": [...], "root": dir} on stdin and prints one
line `@@RESULT <json>`.

Observation points (no edits to the repository, only objects the code accepts and harness-side wrappers):
  * `core_ranking.compute_batch_ranking` is wrapped (the real function still runs): the rows of every batch are
    recorded, the triplets it returns are recorded, and `ranking_checkpoint_tmp.tsv` is read at every batch boundary;
  * `estimate_importances_minibatches` receives a logger object that captures "Detected N invalid lines";
  * the bounded value counter of the `id` column it returns reveals the consumed rows independently of the wrapper;
  * `task_ranking.Pool` is replaced by a factory of harness pool objects (serial, or adversarial schedules for C09).
"""
import json
import os
import shutil
import sys
import traceback

payload = json.load(sys.stdin)
sys.path.insert(0, os.path.dirname(os.path.abspath(__file__)))
import impl_c08_lib as L  # noqa: E402

root = payload["root"]
os.makedirs(root, exist_ok=True)
results = []
for i, case in enumerate(payload["cases"]):
    try:
        results.append(L.clean(L.run_case(case, os.path.join(root, "case_%d" % i), keep=payload.get("keep", False))))
    except BaseException as e:
        results.append({"ok": False, "error": "harness: %s: %s" % (type(e).__name__, e), "traceback": traceback.format_exc()[-2500:],
                        "batches": []})
        os.chdir(root)
L.reset_globals()
if not payload.get("keep"):
    shutil.rmtree(root, ignore_errors=True)
print("@@RESULT " + json.dumps({"results": results}))
