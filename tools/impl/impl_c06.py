"""Runs the real get_combinations_from_columns and mixed_rank_graph (serial fake pool) on generated frames.
Under /venv/bin/python with PYTHONPATH=$OUTRANK_REPO.  JSON on stdin, one line `@@RESULT <json>` on stdout.

case = {cols, label, heuristic, tro, cap, batches, nrows, data_seed[, prelude: [case...]][, light]
        [, combine: {order, rel, cap}][, pool: {kind: fake|pathos, ncpus}][, ref: [feature strings of the reference model JSON]][, ref_fields: [...]]
        [, cbr: {focus: None | 'a,b' | '_all_from_reference_JSON', expected_cols: [...]}]  (rows through compute_batch_ranking)}
result.cols = the columns of the frame actually ranked (differs from case.cols only with `combine`)
result = {ok, cands: [[a, b]], cap_after_cands, batches: [{rows: [[a, b, score_key]], cap_after, sampled: [[a, b]] | None}], error}
score_key = "0" for a score equal to 0.0, otherwise the hex of the IEEE-754 bits (equal keys <=> bit-identical scores).
"""
import json
import logging
import random as pyrandom
import struct
import sys
import types

payload = json.load(sys.stdin)
import pandas as pd  # noqa: E402
import outrank.core_ranking as cr  # noqa: E402

logging.getLogger('syn-logger').setLevel(logging.ERROR)


class _Res:
    def __init__(self, xs):
        self.xs = xs

    def ready(self):
        return True

    def get(self):
        return self.xs


class FakePool:
    """Serial stand-in for the pathos pool; may carry the attributes a pathos ProcessingPool exposes (ncpus, nodes).
    Whatever function it is handed is evaluated on whatever iterable it is handed, in order."""

    def __init__(self, ncpus=None):
        if ncpus is not None:
            self.ncpus = ncpus
            self.nodes = ncpus

    def __enter__(self):
        return self

    def __exit__(self, *a):
        return False

    def amap(self, f, xs):
        return _Res([f(x) for x in xs])


class FakeBar:
    def set_description(self, *a, **k):
        pass

    def update(self, *a, **k):
        pass


def make_args(case):
    # the namespace outrank/__main__.py builds (defaults), with the case's settings
    return types.SimpleNamespace(
        task='ranking', minibatch_size=2 ** 14, output_folder='ranking_outputs', data_source='csv-raw', data_path='x',
        subsampling=1, combination_number_upper_bound=case['cap'], missing_value_symbols=',{}',
        heuristic=case['heuristic'], include_noise_baseline_features='False', include_cardinality_in_feature_names='True',
        image_format='pdf', num_threads=1, label_column=case['label'], max_unique_hist_constraint=30000,
        transformers='none', rare_value_count_upper_bound=1, feature_set_focus=None, interaction_order=1,
        reference_model_JSON='', target_ranking_only=case['tro'], explode_multivalue_features='False',
        subfeature_mapping='False', num_synthetic_features=100, tldr='False', num_synthetic_rows=1000,
        generator_type='naive', output_synthetic_df_name='x', disable_tqdm='True', mi_stratified_sampling_ratio=1.0)


def reset_globals():
    for name in ('GLOBAL_CARDINALITY_STORAGE', 'GLOBAL_COUNTS_STORAGE', 'GLOBAL_RARE_VALUE_STORAGE',
                 'GLOBAL_PRIOR_COMB_COUNTS', 'IGNORED_VALUES'):
        obj = getattr(cr, name, None)
        if obj is not None and hasattr(obj, 'clear'):
            obj.clear()


def score_key(s):
    try:
        f = float(s)
    except Exception:
        return 'repr:' + repr(s)
    if f == 0.0:
        return '0'
    return struct.pack('<d', f).hex()


def make_frame(case):
    rng = pyrandom.Random(case['data_seed'])
    n = case['nrows']
    data = {}
    for c in case['cols']:
        card = rng.choice([1, 2, 2, 3, 4, 7])
        data[c] = [str(rng.randrange(card)) for _ in range(n)]
    return pd.DataFrame(data)


_sampled = []
_orig_sampler = getattr(cr, 'prior_combinations_sample', None)
if _orig_sampler is not None:
    def _wrapped(combinations, args, *rest, **kw):
        out = _orig_sampler(combinations, args, *rest, **kw)
        try:
            _sampled.append([list(t) for t in out])
        except Exception:
            _sampled.append(None)
        return out
    cr.prior_combinations_sample = _wrapped


def make_pool(case):
    """-> (pool, cleanup).  case['pool'] = {'kind': 'fake'|'pathos', 'ncpus': k}; default: serial fake pool without attributes."""
    spec = case.get('pool') or {}
    if spec.get('kind') == 'pathos':
        # built the way outrank/task_ranking.py builds GLOBAL_CPU_POOL
        from pathos.multiprocessing import ProcessingPool as Pool
        pool = Pool(int(spec['ncpus']))

        def cleanup():
            try:
                pool.close()
                pool.join()
                pool.clear()
            except Exception:
                pass
        return pool, cleanup
    if spec.get('kind') == 'fake':
        return FakePool(int(spec['ncpus'])), (lambda: None)
    return FakePool(), (lambda: None)


def as_pair(t):
    t = tuple(t)
    if len(t) != 2:
        raise ValueError('candidate is not a pair: %r' % (t,))
    return [str(t[0]), str(t[1])]


ROW_RECORD_LIMIT = 6000   # rows recorded per batch; the true number is always reported in nrows


def _pseudo_scorer(combination, reference_model_features, args, tmp_df=None):
    # harness-side replacement of the scorer for reference-model cases (C06 is about WHICH pairs are evaluated):
    # deterministic, orientation-dependent, never 0
    import zlib
    a, b = combination
    return a, b, 0.25 + (zlib.crc32((str(a) + '\x00' + str(b)).encode('utf8', 'surrogatepass')) % 1000) / 4000.0


def run_case(case):
    ref = case.get('ref')
    if ref is None:
        return _run_case(case, None)
    import os
    path = os.path.join(os.getcwd(), 'c06_ref_%d.json' % os.getpid())
    with open(path, 'w') as f:
        json.dump({'desc': {'features': list(ref), 'fields': list(case.get('ref_fields') or [])}}, f)
    orig = cr.get_importances_estimate_pairwise
    cr.get_importances_estimate_pairwise = _pseudo_scorer
    try:
        return _run_case(case, path)
    finally:
        cr.get_importances_estimate_pairwise = orig
        try:
            os.remove(path)
        except OSError:
            pass


def _run_case(case, ref_path):
    reset_globals()
    res = {'ok': True, 'cols': None, 'cands': None, 'cap_after_cands': None, 'batches': [], 'error': None}
    try:
        df = make_frame(case)
        if list(df.columns) != list(case['cols']):
            raise RuntimeError('harness: frame columns differ from the case')
        comb = case.get('combine')
        if comb:
            # feature space enlarged by the real compute_combined_features (interaction / relation names)
            ca = make_args(case)
            ca.interaction_order = int(comb['order'])
            ca.combination_number_upper_bound = int(comb.get('cap', 10 ** 6))
            df = cr.compute_combined_features(df, ca, FakeBar(), bool(comb.get('rel')))
        res['cols'] = [str(x) for x in df.columns]
        cbr = case.get('cbr')
        cand_columns = df.columns
        if cbr:
            # through compute_batch_ranking: the batch's feature space is what --feature_set_focus keeps plus the label
            # (the harness's expectation, cbr['expected_cols']); the candidate list is taken on that column index
            res['cols'] = list(cbr['expected_cols'])
            cand_columns = pd.Index(res['cols'])
        a0 = make_args(case)
        if ref_path:
            a0.reference_model_JSON = ref_path
        cands = cr.get_combinations_from_columns(cand_columns, a0)
        res['cands'] = [as_pair(t) for t in cands]
        res['cap_after_cands'] = int(a0.combination_number_upper_bound)
        args = make_args(case)
        if ref_path:
            args.reference_model_JSON = ref_path
        light = bool(case.get('light'))
        pool, cleanup = make_pool(case)
        for _ in range(case['batches']):
            del _sampled[:]
            if cbr:
                args.feature_set_focus = cbr['focus']
                out4 = cr.compute_batch_ranking(df.values.tolist(), set(), args, pool, list(case['cols']),
                                                logging.getLogger('c06-harness'), FakeBar())
                summary = out4[0]
                try:
                    res['frame_cols_observed'] = [str(k) for k in out4[2].keys()]     # coverage is computed per column of the ranked frame
                except Exception:
                    res['frame_cols_observed'] = None
            else:
                summary = cr.mixed_rank_graph(df, args, pool, FakeBar())
            rows = summary.triplet_scores
            b = {'cap_after': int(args.combination_number_upper_bound), 'nrows': len(rows)}
            if not light:
                limit = max(ROW_RECORD_LIMIT, 0)
                rec = rows[:limit]
                if any(len(r) != 3 for r in rec):
                    raise ValueError('row is not a triplet')
                b['rows'] = [[str(r[0]), str(r[1]), score_key(r[2])] for r in rec]
                b['truncated'] = len(rows) > len(rec)
                b['sampled'] = _sampled[-1] if len(_sampled) == 1 else None
            res['batches'].append(b)
        cleanup()
    except Exception as e:  # a recorded outcome; the harness decides
        res['ok'] = False
        res['error'] = '%s: %s' % (type(e).__name__, e)
    return res


out = []
for case in payload['cases']:
    # a case may carry the process history that precedes it ("prelude": earlier cases run in the same interpreter)
    for pre in case.get('prelude') or []:
        run_case(pre)
    out.append(run_case(case))
reset_globals()
print('@@RESULT ' + json.dumps({'results': out}))
