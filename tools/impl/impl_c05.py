"""C05 implementation runner (under /venv/bin/python, PYTHONPATH=$OUTRANK_REPO).

mode "pipeline": drives the real outrank.core_ranking.mixed_rank_graph (entry "mrg") or
    compute_batch_ranking (entry "cbr", with a recording wrapper around mixed_rank_graph so the harness sees the
    frame that was actually ranked) with the pool the case asks for -- a serial fake pool exposing the attributes of a
    pathos pool (ncpus / nodes as given) or a real pathos ProcessingPool(nodes) --, an args namespace carrying the defaults of
    outrank/__main__.py, and module globals reset between cases.  One line `@@CASE <idx> <json>` per case
    (flushed, so a crash identifies the case), then `@@RESULT {"done": n}`.
mode "oracle": library oracles on the MODEL's code vectors (does not import outrank):
    scipy.stats.pearsonr(f, t)[0] and sklearn adjusted_mutual_info_score(f, t) on float64 / int64 arrays.
"""
import ast
import json
import math
import os
import sys
import types
import warnings


def jfloat(x):
    x = float(x)
    if math.isnan(x):
        return "nan"
    if math.isinf(x):
        return "inf" if x > 0 else "-inf"
    return x


def main_defaults():
    """defaults of every parser.add_argument(...) in outrank/__main__.py, read from its source"""
    import importlib.util
    spec = importlib.util.find_spec("outrank.__main__")
    src = open(spec.origin, encoding="utf8").read()
    tree = ast.parse(src)
    out = {}
    for c in ast.walk(tree):
        if isinstance(c, ast.Call) and isinstance(c.func, ast.Attribute) and c.func.attr == "add_argument" and c.args \
                and isinstance(c.args[0], ast.Constant) and isinstance(c.args[0].value, str) and c.args[0].value.startswith("--"):
            name = c.args[0].value[2:].replace("-", "_")
            val = None
            typ = None
            for kw in c.keywords:
                if kw.arg == "default":
                    val = eval(compile(ast.Expression(kw.value), "<default>", "eval"), {"__builtins__": {}}, {})
                if kw.arg == "type" and isinstance(kw.value, ast.Name):
                    typ = kw.value.id
            if typ == "float" and val is not None:
                val = float(val)
            out[name] = val
    return out


class FakeResult:
    def __init__(self, v):
        self.v = v

    def ready(self):
        return True

    def get(self):
        return self.v


class FakePool:
    """serial stand-in for pathos.multiprocessing.ProcessingPool: same public attributes (ncpus, nodes, amap, map,
    imap, uimap, pipe, apipe, close, join, clear, restart, terminate), work done in-process, results ready at once"""

    def __init__(self, ncpus=1):
        self.ncpus = ncpus
        self.nodes = ncpus
        self._id = "fake"

    def __enter__(self):
        return self

    def __exit__(self, *a):
        return

    def amap(self, f, *xs):
        return FakeResult([f(*x) for x in zip(*xs)])

    def map(self, f, *xs):
        return [f(*x) for x in zip(*xs)]

    def imap(self, f, *xs):
        return iter([f(*x) for x in zip(*xs)])

    uimap = imap

    def pipe(self, f, *a, **k):
        return f(*a, **k)

    def apipe(self, f, *a, **k):
        return FakeResult(f(*a, **k))

    def close(self):
        pass

    join = clear = restart = terminate = close


def make_pool(spec):
    """-> (pool, release): the pool is built the way outrank.task_ranking builds it (ProcessingPool(num_threads))"""
    spec = spec or {}
    if spec.get("kind") == "real":
        from pathos.multiprocessing import ProcessingPool as Pool
        pool = Pool(int(spec.get("nodes", 2)))

        def release():
            try:
                pool.close()
                pool.join()
                pool.clear()
            except Exception:
                pass
        return pool, release
    return FakePool(int(spec.get("ncpus", 1))), (lambda: None)


class Quiet:
    def set_description(self, *a, **k):
        pass

    def update(self, *a, **k):
        pass

    def info(self, *a, **k):
        pass

    def warning(self, *a, **k):
        pass

    def debug(self, *a, **k):
        pass

    def error(self, *a, **k):
        pass


def pipeline(payload):
    import logging
    logging.disable(logging.CRITICAL)
    warnings.filterwarnings("ignore")
    from collections import Counter
    import pandas as pd
    import outrank.core_ranking as cr

    defaults = main_defaults()
    real_mrg = cr.mixed_rank_graph
    seen = {}

    def recording_mrg(input_dataframe, args, cpu_pool, pbar):
        seen["names"] = [str(c) for c in input_dataframe.columns]
        seen["cols"] = [[(v if isinstance(v, str) else repr(v)) for v in input_dataframe[c].tolist()]
                        for c in input_dataframe.columns]
        return real_mrg(input_dataframe, args, cpu_pool, pbar)

    # harness-side observers (the real functions run unchanged): the combinations selected for scoring, and -- opt-in,
    # in-process pools only -- the coded frame handed to the scorer
    real_pcs = cr.prior_combinations_sample
    real_giep = cr.get_importances_estimate_pairwise

    def recording_pcs(*a, **k):
        r = real_pcs(*a, **k)
        try:
            seen["selected"] = [[str(x) for x in c] for c in r]
        except Exception:
            pass
        return r

    def recording_giep(*a, **k):
        if "codes" not in seen:
            try:
                tmp = k.get("tmp_df", a[3] if len(a) > 3 else None)
                seen["codes"] = {str(c): [int(v) for v in tmp[c].tolist()] for c in tmp.columns}
            except Exception:
                seen["codes"] = None
        return real_giep(*a, **k)

    for idx, case in enumerate(payload["cases"]):
        cr.GLOBAL_CARDINALITY_STORAGE = dict()
        cr.GLOBAL_COUNTS_STORAGE = dict()
        cr.GLOBAL_RARE_VALUE_STORAGE = Counter()
        cr.GLOBAL_PRIOR_COMB_COUNTS = Counter()
        cr.IGNORED_VALUES = set()
        if hasattr(cr, "GLOBAL_PRIOR_FEATURE_COMB_COUNTS"):
            cr.GLOBAL_PRIOR_FEATURE_COMB_COUNTS = type(cr.GLOBAL_PRIOR_FEATURE_COMB_COUNTS)()
        a = dict(defaults)
        ref_path = ""
        if case.get("reference_features"):
            # a small reference-model JSON, written into the runner's scratch directory (cwd = /verif/.cache)
            ref_dir = os.path.join(os.getcwd(), "c05_ref_%d" % os.getpid())
            os.makedirs(ref_dir, exist_ok=True)
            ref_path = os.path.join(ref_dir, "reference_model_%d.json" % idx)
            with open(ref_path, "w", encoding="utf8") as fh:
                json.dump({"desc": {"features": list(case["reference_features"])}}, fh)
            a["reference_model_JSON"] = ref_path
        spec = case.get("pool") or {}
        a.update(task="ranking", data_source="csv-raw", data_path="unused", subsampling=1,
                 num_threads=int(spec.get("nodes", spec.get("ncpus", 1))),
                 disable_tqdm="True", heuristic=case["heuristic"], label_column=case["label"],
                 target_ranking_only="True" if case["target_only"] else "False",
                 interaction_order=int(case.get("interaction_order", 1)))
        args = types.SimpleNamespace(**a)
        names = case["names"]
        cols = case["cols"]
        n = len(cols[0]) if cols else 0
        rows = [[cols[j][i] for j in range(len(cols))] for i in range(n)]
        release = lambda: None
        try:
            seen.clear()
            pool, release = make_pool(case.get("pool"))
            cr.prior_combinations_sample = recording_pcs
            if case.get("record_codes") and (case.get("pool") or {}).get("kind", "fake") != "real":
                cr.get_importances_estimate_pairwise = recording_giep
            if case.get("entry", "mrg") == "cbr":
                cr.mixed_rank_graph = recording_mrg
                try:
                    res = cr.compute_batch_ranking(rows, set(case.get("numeric") or []), args, pool, list(names),
                                                   Quiet(), Quiet())[0]
                finally:
                    cr.mixed_rank_graph = real_mrg
                frame = {"names": seen.get("names"), "cols": seen.get("cols")}
            else:
                df = pd.DataFrame(rows, columns=list(names))
                res = real_mrg(df, args, pool, Quiet())
                frame = None
            trip = [[str(t[0]), str(t[1]), jfloat(t[2])] for t in res.triplet_scores]
            out = {"ok": True, "triplets": trip, "frame": frame, "selected": seen.get("selected"),
                   "codes": seen.get("codes")}
        except Exception as e:  # an outcome, judged by the harness
            import traceback
            out = {"ok": False, "error": "%s: %s" % (type(e).__name__, e), "trace": traceback.format_exc()[-1500:]}
        finally:
            cr.prior_combinations_sample = real_pcs
            cr.get_importances_estimate_pairwise = real_giep
            release()
            if ref_path:
                try:
                    os.remove(ref_path)
                    os.rmdir(os.path.dirname(ref_path))
                except OSError:
                    pass
        sys.stdout.write("@@CASE %d %s\n" % (idx, json.dumps(out)))
        sys.stdout.flush()
    print("@@RESULT " + json.dumps({"done": len(payload["cases"])}))


def oracle(payload):
    warnings.filterwarnings("ignore")
    import numpy as np
    from scipy.stats import pearsonr
    from sklearn.metrics import adjusted_mutual_info_score
    out = []
    for q in payload["queries"]:
        f = q["f"]
        t = q["t"]
        try:
            if q["kind"] == "pearson":
                v = pearsonr(np.asarray(f, dtype=np.float64), np.asarray(t, dtype=np.float64))[0]
            elif q["kind"] == "ami":
                v = adjusted_mutual_info_score(np.asarray(f, dtype=np.int64), np.asarray(t, dtype=np.int64))
            else:
                raise ValueError(q["kind"])
            out.append({"ok": True, "v": jfloat(v)})
        except Exception as e:
            out.append({"ok": False, "error": "%s: %s" % (type(e).__name__, e)})
    print("@@RESULT " + json.dumps({"values": out}))


if __name__ == "__main__":
    payload = json.load(sys.stdin)
    if payload.get("mode") == "oracle":
        oracle(payload)
    else:
        pipeline(payload)
