"""C09: (a) the ranking task under harness pool objects with adversarial completion orders / chunkings,
(b) + (c) the real command line (`python -m outrank`) in fresh processes with real pathos pools of several sizes and
different PYTHONHASHSEED values.

Runs under /venv/bin/python with PYTHONPATH=$OUTRANK_REPO; reads {"fake": [...], "cli": [...], "root": dir} on stdin, prints
`@@RESULT <json>`.
"""
import csv
import json
import os
import shutil
import subprocess
import sys
import time
import traceback
from concurrent.futures import ThreadPoolExecutor

payload = json.load(sys.stdin)
sys.path.insert(0, os.path.dirname(os.path.abspath(__file__)))
import impl_c08_lib as L  # noqa: E402

root = payload["root"]
os.makedirs(root, exist_ok=True)

# ---- (b)/(c): fresh processes first (they run in parallel in the background while (a) runs in this process) -------


def read_text_table(path):
    if not os.path.exists(path):
        return None
    with open(path, newline="") as f:
        rows = list(csv.reader(f, delimiter="\t"))
    if not rows:
        return []
    hdr = rows[0]
    ia, ib, isc = hdr.index("FeatureA"), hdr.index("FeatureB"), hdr.index("Score")
    return [[r[ia], r[ib], r[isc]] for r in rows[1:]]       # scores as text


def cli_run(k, spec):
    d = os.path.join(root, "cli_%d" % k)
    shutil.rmtree(d, ignore_errors=True)
    os.makedirs(os.path.join(d, "in"))
    c = spec["case"]
    source = "csv-raw"
    extra = []
    if c.get("ob_csv"):
        # an ob-csv folder: data.csv (with header) + dataset_desc.json; Float features take numeric values
        import random as _random
        source = "ob-csv"
        feats = c["ob_csv"]["features"]                     # [[name, type], ...]; the label comes last (c["cols"][-1])
        rng = _random.Random(c["seed"])
        with open(os.path.join(d, "in", "dataset_desc.json"), "w") as f:
            json.dump({"data_features": [{"name": n, "type": ty} for n, ty in feats]}, f)
        with open(os.path.join(d, "in", "data.csv"), "w", encoding="latin1") as f:
            f.write(",".join(n for n, _ in feats) + "\n")
            for _ in range(c["ob_csv"]["rows"]):
                lab = rng.randint(0, 1)
                cells = []
                for j, (n, ty) in enumerate(feats):
                    if n == c["cols"][-1]:
                        cells.append(str(lab))
                    elif "loat" in ty:
                        base = [rng.randint(0, 9) + lab, round(rng.random() * 4, 1), rng.choice([0.5, 1.5, 2.5, 8.0]) * (1 + lab)][j % 3]
                        cells.append(repr(float(base)))
                    else:
                        cells.append("c%d" % rng.randint(0, 3))
                f.write(",".join(cells) + "\n")
    else:
        L.write_file(c, os.path.join(d, "in", "data.csv"))
    if c.get("reference_features"):
        # a reference model description: {"desc": {"features": [...], "fields": [...]}}
        rp = os.path.join(d, "in", "reference_model.json")
        with open(rp, "w") as f:
            json.dump({"desc": {"features": list(c["reference_features"]), "fields": []}}, f)
        extra += ["--reference_model_JSON", rp]
    argv = [sys.executable, "-m", "outrank", "--task", "ranking", "--data_path", os.path.join(d, "in"),
            "--data_source", source, "--output_folder", os.path.join(d, "out"), "--minibatch_size", str(c["B"]),
            "--subsampling", str(c["s"]), "--heuristic", c["heuristic"], "--target_ranking_only", c["target_only"],
            "--label_column", c["cols"][-1], "--include_cardinality_in_feature_names", "False", "--disable_tqdm", c.get("disable_tqdm", "True"),
            "--num_threads", str(spec["threads"]), "--interaction_order", str(c.get("interaction_order", 1)),
            "--combination_number_upper_bound", str(c.get("cap", 2 ** 15)),
            "--include_noise_baseline_features", c.get("noise", "False")] + list(c.get("extra_args", [])) + extra
    env = dict(os.environ)
    env["PYTHONHASHSEED"] = str(spec["hashseed"])
    for k in ("OMP_NUM_THREADS", "OPENBLAS_NUM_THREADS", "MKL_NUM_THREADS"):   # many processes side by side
        env[k] = "1"
    t0 = time.time()
    try:
        p = subprocess.run(argv, cwd=d, env=env, stdout=subprocess.PIPE, stderr=subprocess.PIPE, text=True,
                           timeout=payload.get("cli_timeout", 600))
        rc, err = p.returncode, p.stderr[-1500:]
    except subprocess.TimeoutExpired:
        rc, err = 124, "timeout"
    table = read_text_table(os.path.join(d, "out", "pairwise_ranks.tsv"))
    if not payload.get("keep"):
        shutil.rmtree(d, ignore_errors=True)
    cmd = "PYTHONHASHSEED=%s " % spec["hashseed"] + " ".join(
        ("'%s'" % a if (" " in a or ";" in a or a == "") else a) for a in ["python", "-m", "outrank"] + argv[3:])
    return {"rc": rc, "stderr": err if rc != 0 or table is None else "", "pairwise_text": table, "wall": round(time.time() - t0, 1),
            "command_line": cmd.replace(d, "<dir>"),
            "threads": spec["threads"], "hashseed": spec["hashseed"]}


ex = ThreadPoolExecutor(max_workers=payload.get("cli_parallel", 6))
futs = [ex.submit(cli_run, k, spec) for k, spec in enumerate(payload.get("cli", []))]

# ---- (a): harness pools, in this process -------------------------------------------------------------------------
fake = []
for i, case in enumerate(payload.get("fake", [])):
    try:
        o = L.run_case(case, os.path.join(root, "fake_%d" % i), keep=payload.get("keep", False))
        # keep what C09 compares
        fake.append(L.clean({"ok": o["ok"], "error": o.get("error"), "traceback": o.get("traceback"),
                             "batches": [{"n": len(b["ids"]), "first": b["ids"][:1], "triplets": b["triplets"]} for b in o["batches"]],
                             "pairwise": o.get("pairwise"), "grouped": o.get("grouped"), "schedules": o.get("schedules"),
                             "exit": o.get("exit")}))
    except BaseException as e:
        fake.append({"ok": False, "error": "harness: %s: %s" % (type(e).__name__, e), "traceback": traceback.format_exc()[-2500:],
                     "batches": []})
        os.chdir(root)
L.reset_globals()

cli = []
for f in futs:
    try:
        cli.append(f.result())
    except BaseException as e:
        cli.append({"rc": -1, "stderr": "harness: %s: %s" % (type(e).__name__, e), "pairwise_text": None})
ex.shutdown()
if not payload.get("keep"):
    shutil.rmtree(root, ignore_errors=True)
print("@@RESULT " + json.dumps({"fake": fake, "cli": cli}))
