"""Drives the real CountMinSketch and PrimitiveConstrainedCounter (under /venv/bin/python, PYTHONPATH=$OUTRANK_REPO).

stdin: {"cases": [...]}
  cms case:     {"kind": "cms", "depth", "width", "seed", "items": [["i", int] | ["s", str]],
                 "ops": [["add", item index, delta] | ["batch", [item index ...], delta]]}
  counter case: {"kind": "counter", "bound", "items": [...], "ops": [["add", idx] | ["batch", [idx ...]]]}
  pipeline case: {"kind": "pipeline", "bound", "batches": [{column: [cell ...]} ...]}  -- core_ranking.compute_cardinalities
                 is called once per mini-batch; GLOBAL_COUNTS_STORAGE[column].default_counter is recorded after each.
stdout: one line  @@RESULT <json>.

For a cms case the hash oracle  loc[i][x] = cms_hash(item x, hash_seeds[i], width)  is tabulated from the
real cms_hash; after every op the non-zero cells, the row sums and query(x) of every listed item are recorded."""
import json
import sys

payload = json.load(sys.stdin)
import numpy as np  # noqa: E402
from outrank.algorithms.sketches.counting_cms import CountMinSketch, cms_hash  # noqa: E402
from outrank.algorithms.sketches.counting_counters_ordinary import PrimitiveConstrainedCounter  # noqa: E402


def mkitem(spec):
    if spec[0] == "l":       # ["l", ch, n, tail]: a long str key, ch * n + tail, given by its generator parameters
        return spec[1] * spec[2] + spec[3]
    return spec[1]


def expand(cell):
    return mkitem(cell) if isinstance(cell, list) else cell


def desc(v):
    """Long strings travel as a descriptor (length, first and last 8 characters)."""
    if isinstance(v, str) and len(v) > 200:
        return "\x00long:%d:%s:%s" % (len(v), v[:8], v[-8:])
    return v


def run_cms(case):
    items = [mkitem(s) for s in case["items"]]
    np.random.seed(case["seed"])
    if case.get("M0") is not None:      # a pre-filled matrix handed to the constructor (e.g. a merged sketch)
        cms = CountMinSketch(case["depth"], case["width"], M=np.array(case["M0"], dtype=np.int32))
    else:
        cms = CountMinSketch(case["depth"], case["width"])
    spread = 0
    obs = []
    err = None
    loc = None
    try:
        loc = [[int(cms_hash(x, cms.hash_seeds[i], cms.width)) for x in items] for i in range(cms.depth)]
        for op in case["ops"]:
            if op[0] == "add":
                cms.add(items[op[1]], op[2])
            else:
                cms.batch_add([items[i] for i in op[1]], op[2])
            M = np.asarray(cms.get_matrix())
            nz = np.nonzero(M)
            cells = [[int(i), int(j), int(M[i, j])] for i, j in zip(nz[0].tolist(), nz[1].tolist())]
            if loc:
                for n in range(len(items)):
                    pr = [int(M[i, loc[i][n]]) for i in range(cms.depth)]
                    spread = max(spread, max(pr) - min(pr))
            qs = []
            for x in items:
                try:
                    qs.append(int(cms.query(x)))
                except ValueError:
                    qs.append(None)
            obs.append({"cells": cells, "queries": qs, "rowsums": [int(v) for v in M.astype(np.int64).sum(axis=1).tolist()],
                        "shape": list(M.shape)})
    except Exception as e:
        err = "%s: %s" % (type(e).__name__, e)
    return {"ok": err is None, "error": err, "loc": loc, "obs": obs, "probe_spread": spread,
            "seeds": [int(s) for s in cms.hash_seeds.tolist()]}


def run_counter(case):
    items = [mkitem(s) for s in case["items"]]
    index = {}
    for i, x in enumerate(items):
        index[x] = i
    c = PrimitiveConstrainedCounter(case["bound"])
    obs = []
    err = None
    try:
        for op in case["ops"]:
            if op[0] == "add":
                c.add(items[op[1]])
            else:
                c.batch_add([items[i] for i in op[1]])
            unknown = {}
            row = []
            for k, v in c.default_counter.items():      # a key that was never fed gets a fresh id beyond the case's items
                i = index[k] if k in index else unknown.setdefault(k, len(items) + len(unknown))
                row.append([i, int(v)])
            obs.append(row)
    except Exception as e:
        err = "%s: %s" % (type(e).__name__, e)
    return {"ok": err is None, "error": err, "obs": obs}


class _Bar:
    def set_description(self, *a, **k):
        pass


def _key(k):
    return desc(k) if isinstance(k, str) else int(k)


def run_pipeline(case):
    """The counter as the ranking pipeline feeds it: core_ranking.compute_cardinalities over a history of mini-batches."""
    import pandas as pd
    import outrank.core_ranking as cr
    cr.GLOBAL_COUNTS_STORAGE.clear()
    cr.GLOBAL_CARDINALITY_STORAGE.clear()
    obs = []
    err = None
    try:
        for batch in case["batches"]:
            df = pd.DataFrame({col: [expand(v) for v in vals] for col, vals in batch.items()})
            cr.compute_cardinalities(df, _Bar(), case["bound"])
            obs.append({col: [[_key(k), int(v)] for k, v in cr.GLOBAL_COUNTS_STORAGE[col].default_counter.items()]
                        for col in df.columns})
    except Exception as e:
        err = "%s: %s" % (type(e).__name__, e)
    cr.GLOBAL_COUNTS_STORAGE.clear()
    cr.GLOBAL_CARDINALITY_STORAGE.clear()
    return {"ok": err is None, "error": err, "obs": obs}


out = []
for case in payload["cases"]:
    out.append(run_cms(case) if case["kind"] == "cms" else (run_counter(case) if case["kind"] == "counter" else run_pipeline(case)))
dflt = PrimitiveConstrainedCounter()
print("@@RESULT " + json.dumps({"results": out, "default_bound": int(dflt.max_bound_thr)}))
