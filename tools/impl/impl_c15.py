"""Drives the real CountMinSketch and PrimitiveConstrainedCounter (under /venv/bin/python, PYTHONPATH=$OUTRANK_REPO).

stdin: {"cases": [...]}
  cms case:     {"kind": "cms", "depth", "width", "seed", "items": [["i", int] | ["s", str]],
                 "ops": [["add", item index, delta] | ["batch", [item index ...], delta]]}
  counter case: {"kind": "counter", "bound", "items": [...], "ops": [["add", idx] | ["batch", [idx ...]]]}
stdout: one line  @@RESULT <json>.

For a cms case the hash oracle  loc[i][x] = cms_hash(item x, hash_seeds[i], width)  is tabulated from the
real cms_hash; after every op the non-zero cells, the row sums and query(x) of every listed item are recorded."""
import json
import sys

payload = json.load(sys.stdin)
import numpy as np  # noqa: E402
from outrank.algorithms.sketches.counting_cms import CountMinSketch, cms_hash  # noqa: E402
from outrank.algorithms.sketches.counting_counters_ordinary import PrimitiveConstrainedCounter  # noqa: E402


def mkitem(spec):
    return spec[1]


def run_cms(case):
    items = [mkitem(s) for s in case["items"]]
    np.random.seed(case["seed"])
    cms = CountMinSketch(case["depth"], case["width"])
    obs = []
    err = None
    loc = None
    try:
        loc = [[int(cms_hash(x, cms.hash_seeds[i], cms.width)) for x in items] for i in range(cms.depth)]
        for op in case["ops"]:
            if op[0] == "add":
                cms.add(items[op[1]], op[2])
            else:
                cms.batch_add([items[i] for i in op[1]], op[2])
            M = np.asarray(cms.get_matrix())
            nz = np.nonzero(M)
            cells = [[int(i), int(j), int(M[i, j])] for i, j in zip(nz[0].tolist(), nz[1].tolist())]
            qs = []
            for x in items:
                try:
                    qs.append(int(cms.query(x)))
                except ValueError:
                    qs.append(None)
            obs.append({"cells": cells, "queries": qs, "rowsums": [int(v) for v in M.astype(np.int64).sum(axis=1).tolist()],
                        "shape": list(M.shape)})
    except Exception as e:
        err = "%s: %s" % (type(e).__name__, e)
    return {"ok": err is None, "error": err, "loc": loc, "obs": obs,
            "seeds": [int(s) for s in cms.hash_seeds.tolist()]}


def run_counter(case):
    items = [mkitem(s) for s in case["items"]]
    index = {}
    for i, x in enumerate(items):
        index[x] = i
    c = PrimitiveConstrainedCounter(case["bound"])
    obs = []
    err = None
    try:
        for op in case["ops"]:
            if op[0] == "add":
                c.add(items[op[1]])
            else:
                c.batch_add([items[i] for i in op[1]])
            obs.append([[index[k], int(v)] for k, v in c.default_counter.items()])
    except Exception as e:
        err = "%s: %s" % (type(e).__name__, e)
    return {"ok": err is None, "error": err, "obs": obs}


out = []
for case in payload["cases"]:
    out.append(run_cms(case) if case["kind"] == "cms" else run_counter(case))
dflt = PrimitiveConstrainedCounter()
print("@@RESULT " + json.dumps({"results": out, "default_bound": int(dflt.max_bound_thr)}))
