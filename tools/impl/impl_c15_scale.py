"""SCALE families of C15: drives the real CountMinSketch / PrimitiveConstrainedCounter / compute_cardinalities on
large, procedurally generated inputs (under /venv/bin/python, PYTHONPATH=$OUTRANK_REPO).

stdin: {"cases": [spec ...]} -- a spec holds generator parameters only (it is also the replay case):
  {"kind": "scale_cms", "depth", "width", "seed", "n_distinct", "mix": "int"|"str"|"mixed",
   "calls": [["batch", n_items, delta, sub_seed, skew] | ["adds", n_items, delta, sub_seed, skew]]}
  {"kind": "scale_counter", "bound", "n_distinct", "n_items", "seed", "mix", "batch": bool}
  {"kind": "scale_pipeline", "seed", "lo", "hi", "mode": "above"|"below"|"far", "tail": rows of the later mini-batches}
stdout: one line  @@RESULT <json>; big arrays are base64 of little-endian numpy buffers.
Everything that JUDGES is in tools/props/c15.py; this file only generates the inputs, runs the real code and
records (item id sequences, tabulated cms_hash locations, matrices, queries, counters)."""
import base64
import json
import math
import random
import sys

payload = json.load(sys.stdin)
import numpy as np  # noqa: E402
from outrank.algorithms.sketches.counting_cms import CountMinSketch, cms_hash  # noqa: E402
from outrank.algorithms.sketches.counting_counters_ordinary import PrimitiveConstrainedCounter  # noqa: E402


def b64(a):
    return base64.b64encode(np.ascontiguousarray(a).tobytes()).decode("ascii")


def make_items(nd, mix, seed, nlong=0):
    r = random.Random(seed * 7919 + 5)
    out = []
    longs = [("x" * n) + tail for n in (65536, 4096, 4097, 70000) for tail in ("A", "B", "")][:nlong]
    for i in range(nd):
        kind = mix if mix != "mixed" else ("int" if i % 2 else "str")
        if kind == "int":
            c = r.random()
            out.append(i if c < 0.6 else (-i - 1 if c < 0.8 else 2 ** 31 + 3 * i))
        else:
            out.append("cat_%d" % i if r.random() < 0.8 else "é%d_%s" % (i, "x" * (i % 7)))
    for j, v in enumerate(longs):       # long keys sharing long prefixes replace the first items
        if j < len(out):
            out[j] = v
    return out


def draw_ids(nd, n, sub_seed, skew):
    r = random.Random(sub_seed)
    if skew:
        return [r.randrange(r.randrange(nd) + 1) for _ in range(n)]
    return [r.randrange(nd) for _ in range(n)]


def run_scale_cms(spec):
    np.random.seed(spec["seed"])
    cms = CountMinSketch(spec["depth"], spec["width"])
    items = make_items(spec["n_distinct"], spec["mix"], spec["seed"])
    res = {"ok": True, "error": None, "calls": []}
    try:
        loc = np.array([[cms_hash(x, cms.hash_seeds[i], cms.width) for x in items] for i in range(cms.depth)], dtype=np.int64)
        res["loc"] = b64(loc.astype(np.int32))
        for kind, n, delta, sub, skew in spec["calls"]:
            ids = draw_ids(len(items), n, sub, skew)
            if kind == "batch":
                cms.batch_add([items[i] for i in ids], delta)
            else:
                for i in ids:
                    cms.add(items[i], delta)
            M = np.asarray(cms.get_matrix())
            qs = []
            for x in items:
                qs.append(int(cms.query(x)))
            res["calls"].append({"ids": b64(np.array(ids, dtype=np.uint32)), "M": b64(M.astype(np.int64)),
                                 "shape": list(M.shape), "queries": b64(np.array(qs, dtype=np.int64))})
    except Exception as e:
        res["ok"], res["error"] = False, "%s: %s" % (type(e).__name__, e)
    return res


def counter_arrays(c, index, nd):
    counts = np.zeros(nd, dtype=np.int64)
    unknown = 0
    for k, v in c.default_counter.items():
        i = index.get(k)
        if i is None:
            unknown += 1
        else:
            counts[i] = int(v)
    return {"counts": b64(counts), "len": len(c.default_counter), "unknown_keys": unknown}


def run_scale_counter(spec):
    items = make_items(spec["n_distinct"], spec["mix"], spec["seed"], spec.get("long", 0))
    index = {x: i for i, x in enumerate(items)}
    ids = draw_ids(len(items), spec["n_items"], spec["seed"] + 1, spec.get("skew", False))
    r = random.Random(spec["seed"] + 2)
    if len(ids) >= len(items):      # every one of the n_distinct values occurs: plant each once at a random position
        for i, pos in enumerate(r.sample(range(len(ids)), len(items))):
            ids[pos] = i
    c = PrimitiveConstrainedCounter(spec["bound"])
    res = {"ok": True, "error": None, "ids": b64(np.array(ids, dtype=np.uint32)), "chunks": [], "obs": []}
    try:
        k = 0
        step = max(1, len(ids) // 8)
        nxt = step
        while k < len(ids):
            if spec.get("batch") and r.random() < 0.02:
                n = r.choice([1, 2, 50, 5000])
                c.batch_add([items[i] for i in ids[k:k + n]])
                res["chunks"].append([k, min(len(ids), k + n)])
                k = min(len(ids), k + n)
            else:
                c.add(items[ids[k]])
                k += 1
            if k >= nxt or k == len(ids):
                o = counter_arrays(c, index, len(items))
                o["at"] = k
                res["obs"].append(o)
                nxt = k + step
    except Exception as e:
        res["ok"], res["error"] = False, "%s: %s" % (type(e).__name__, e)
    return res


class _Bar:
    def set_description(self, *a, **k):
        pass


def run_scale_pipeline(spec):
    """One id-like column with ~300k distinct values in the first mini-batch, then two small mini-batches that repeat
    earlier values.  The number n of distinct values is chosen in [lo, hi] where the sketch the pipeline keeps for the
    column (HyperLogLogWCache over internal_hash(str(cell)), cold beyond 2^18) OVER-estimates most, and mode "above"
    puts max_unique_hist_constraint at n + 1: fewer than bound distinct values are ever seen, so the counter is exact."""
    import pandas as pd
    import xxhash
    import outrank.core_ranking as cr
    from outrank.core_utils import internal_hash
    from outrank.algorithms.sketches.counting_ultiloglog import HyperLogLogWCache
    g = HyperLogLogWCache()
    p, m = int(g.p), int(g.m)
    lo, hi = spec["lo"], spec["hi"]
    best = None
    for attempt in range(8):
        fam = spec["seed"] * 8 + attempt
        vals = ["row%d_%d" % (fam, i) for i in range(hi)]
        touched, digests = set(), set()
        cand = None
        for k, v in enumerate(vals, 1):
            d = internal_hash(str(v))
            if d not in digests:
                digests.add(d)
                touched.add(xxhash.xxh32(d.encode("utf-8"), seed=p).intdigest() & (m - 1))
            if k >= lo and len(digests) > g.warmup_size:
                z = m - len(touched)
                est = (math.ceil(m * math.log(m / z)) - 1) if z else m
                if cand is None or est - k > cand[0]:
                    cand = (est - k, k, est)
        if best is None or cand[0] > best[0][0]:
            best = (cand, fam, vals)
        if cand[0] >= 2:
            break
    (over, n, est), fam, vals = best
    vals = vals[:n]
    bound = {"above": n + 1, "below": n - 5000, "far": 10 ** 6}[spec["mode"]]
    r = random.Random(spec["seed"] + 11)
    order = list(range(n))
    r.shuffle(order)
    b1 = order
    b2 = [1] * 100 + [r.randrange(n) for _ in range(spec["tail"])]
    b3 = [r.randrange(n) for _ in range(spec["tail"])] + [1] * 3
    r.shuffle(b2)
    ids = b1 + b2 + b3
    ends = [len(b1), len(b1) + len(b2), len(ids)]
    index = {v: i for i, v in enumerate(vals)}
    res = {"ok": True, "error": None, "n": n, "bound": bound, "family": fam, "sketch_estimate_after_batch1": est,
           "overshoot": over, "ends": ends, "ids": b64(np.array(ids, dtype=np.uint32)), "obs": [], "small": []}
    cr.GLOBAL_COUNTS_STORAGE.clear()
    cr.GLOBAL_CARDINALITY_STORAGE.clear()
    try:
        s = 0
        for e in ends:
            chunk = ids[s:e]
            df = pd.DataFrame({"id": [vals[i] for i in chunk], "k": [i % 7 for i in chunk]})
            cr.compute_cardinalities(df, _Bar(), bound)
            o = counter_arrays(cr.GLOBAL_COUNTS_STORAGE["id"], index, n)
            o["sketch_len"] = int(len(cr.GLOBAL_CARDINALITY_STORAGE["id"]))
            res["obs"].append(o)
            res["small"].append(sorted([int(k), int(v)] for k, v in cr.GLOBAL_COUNTS_STORAGE["k"].default_counter.items()))
            s = e
    except Exception as e:
        res["ok"], res["error"] = False, "%s: %s" % (type(e).__name__, e)
    cr.GLOBAL_COUNTS_STORAGE.clear()
    cr.GLOBAL_CARDINALITY_STORAGE.clear()
    return res


RUN = {"scale_cms": run_scale_cms, "scale_counter": run_scale_counter, "scale_pipeline": run_scale_pipeline}
print("@@RESULT " + json.dumps({"results": [RUN[c["kind"]](c) for c in payload["cases"]]}))
