"""Runs the real prior_combinations_sample on op histories (under /venv/bin/python, PYTHONPATH=/repo)."""
import json
import sys
import types

payload = json.load(sys.stdin)
import outrank.core_ranking as cr  # noqa: E402

out = []
for case in payload["cases"]:
    cr.GLOBAL_PRIOR_COMB_COUNTS.clear()
    obs = []
    try:
        for L, cap in case["ops"]:
            args = types.SimpleNamespace(combination_number_upper_bound=cap)
            combos = [tuple(t) for t in L]
            sel = cr.prior_combinations_sample(combos, args)
            counter = [[list(k), int(v)] for k, v in cr.GLOBAL_PRIOR_COMB_COUNTS.items()]
            obs.append({"sel": [list(t) for t in sel], "counter": counter})
        out.append({"ok": True, "obs": obs})
    except Exception as e:  # recorded outcome, decided by the harness
        out.append({"ok": False, "error": "%s: %s" % (type(e).__name__, e), "obs": obs})


# ---- pipeline level: mixed_rank_graph over a sequence of batches, evaluated pairs read off the emitted rows ----
import numpy as np  # noqa: E402
import pandas as pd  # noqa: E402


class _Res:
    def __init__(self, v):
        self.v = v

    def ready(self):
        return True

    def get(self):
        return self.v


class FakePool:
    def __enter__(self):
        return self

    def __exit__(self, *a):
        return False

    def amap(self, f, xs):
        return _Res([f(x) for x in xs])


class FakeBar:
    def set_description(self, *a, **k):
        pass

    def update(self, *a, **k):
        pass


pipe_out = []
for case in payload.get("pipe_cases", []):
    for _n in dir(cr):
        if _n.startswith("GLOBAL_PRIOR"):
            getattr(cr, _n).clear()
    rs = np.random.RandomState(case["seed"])
    cols = case["columns"]
    obs = []
    try:
        for cap in case["caps"]:
            args = types.SimpleNamespace(
                heuristic=case["heuristic"], target_ranking_only=case["target_only"], label_column=case["label"],
                combination_number_upper_bound=cap, reference_model_JSON="", mi_stratified_sampling_ratio=1.0)
            df = pd.DataFrame({c: [str(v) for v in rs.randint(0, 3, size=case["nrows"])] for c in cols})
            if case.get("interaction_order", 1) > 1:
                args.interaction_order = case["interaction_order"]
                df = cr.compute_combined_features(df, args, FakeBar())
                if "3mr" in args.heuristic:
                    df = cr.compute_combined_features(df, args, FakeBar(), True)
            cands = cr.get_combinations_from_columns(df.columns, types.SimpleNamespace(**vars(args)))
            if case.get("reference"):
                # prior heuristic with a reference model: pairs touching a reference-model feature are not candidates
                # (the filter of mixed_rank_graph, replicated here to know what the sampler is entitled to pick from);
                # the scorer is replaced by a constant: C07 is about WHICH pairs are evaluated, not their scores
                import json as _json, os as _os
                rp = _os.path.join(_os.getcwd(), "c07_ref_%d.json" % _os.getpid())
                with open(rp, "w") as f:
                    _json.dump({"desc": {"features": case["reference"]}}, f)
                args.reference_model_JSON = rp
                ref = [(' AND ').join(tuple(sorted(item.split(',')))) for item in case["reference"]]
                cands = [c for c in cands if c[0] not in ref and c[1] not in ref]
                orig_scorer = cr.get_importances_estimate_pairwise
                cr.get_importances_estimate_pairwise = lambda comb, refs, a, tmp_df=None: (comb[0], comb[1], 0.5)
                try:
                    res = cr.mixed_rank_graph(df, args, FakePool(), FakeBar())
                finally:
                    cr.get_importances_estimate_pairwise = orig_scorer
                    _os.remove(rp)
            else:
                res = cr.mixed_rank_graph(df, args, FakePool(), FakeBar())
            rows = [[a, b, float(s)] for a, b, s in res.triplet_scores]
            counter = [[list(k), int(v)] for k, v in cr.GLOBAL_PRIOR_COMB_COUNTS.items()]
            obs.append({"cands": [list(c) for c in cands], "rows": rows, "counter": counter,
                        "cap_after": args.combination_number_upper_bound})
        export = {str(k): v for k, v in cr.GLOBAL_PRIOR_COMB_COUNTS.items()}
        pipe_out.append({"ok": True, "obs": obs, "export_keys": sorted(export.keys())})
    except Exception as e:
        import traceback
        pipe_out.append({"ok": False, "error": "%s: %s" % (type(e).__name__, e), "tb": traceback.format_exc()[-1500:], "obs": obs})

# ---- scale: very long candidate lists / very many tracked combinations (ids instead of tuples on the wire) ----
big_out = []
for case in payload.get("big_cases", []):
    cr.GLOBAL_PRIOR_COMB_COUNTS.clear()
    lists, ids, off = {}, {}, 0
    for name in sorted(case["lists"]):
        n = case["lists"][name]
        L = [("%s%d" % (name, i), "label" if name == "x" else "%s_other" % name) for i in range(n)]
        lists[name] = L
        for i, k in enumerate(L):
            ids[k] = off + i
        off += n
    obs = []
    try:
        for name, cap in case["ops"]:
            args = types.SimpleNamespace(combination_number_upper_bound=cap)
            sel = cr.prior_combinations_sample(list(lists[name]), args)
            obs.append({"sel": [ids.get(tuple(k), -1) for k in sel],
                        "counter": [[ids.get(k, -1), int(v)] for k, v in cr.GLOBAL_PRIOR_COMB_COUNTS.items() if v]})
        big_out.append({"ok": True, "obs": obs})
    except Exception as e:
        big_out.append({"ok": False, "error": "%s: %s" % (type(e).__name__, e), "obs": obs})


def _clear_prior():
    for _n in dir(cr):
        if _n.startswith("GLOBAL_PRIOR"):
            getattr(cr, _n).clear()


# ---- the interaction-feature call site: compute_combined_features over a sequence of batches with the same columns; the
# ---- combinations it selected are read off the columns it appended (nothing is read from the module's storages) ----
feat_out = []
for case in payload.get("feat_cases", []):
    _clear_prior()
    rs = np.random.RandomState(case["seed"])
    obs = []
    try:
        for cap in case["caps"]:
            batch = {}
            for site in case["sites"]:
                args = types.SimpleNamespace(
                    heuristic=case["heuristic"], label_column=case["label"], interaction_order=case["order"],
                    combination_number_upper_bound=cap, reference_model_JSON="", target_ranking_only="True",
                    mi_stratified_sampling_ratio=1.0)
                df = pd.DataFrame({c: [str(v) for v in rs.randint(0, 3, size=case["nrows"])] for c in case["columns"]})
                res = cr.compute_combined_features(df, args, FakeBar(), site == "rel")
                cols = list(res.columns)
                batch[site] = {"new": [c for c in cols[len(case["columns"]):]], "kept": cols[:len(case["columns"])] == case["columns"],
                               "cap_after": args.combination_number_upper_bound}
            if case.get("interleave_pairs"):
                # the pair space is sampled in between, as compute_batch_ranking does (separate storage since fix 45d13a2)
                pa = types.SimpleNamespace(combination_number_upper_bound=max(1, cap))
                cr.prior_combinations_sample(list(__import__("itertools").combinations(case["columns"], 2)), pa)
            obs.append(batch)
        feat_out.append({"ok": True, "obs": obs})
    except Exception as e:
        import traceback
        feat_out.append({"ok": False, "error": "%s: %s" % (type(e).__name__, e), "tb": traceback.format_exc()[-1500:], "obs": obs})

# ---- the reported counts: the real ranking task end to end (serial pool), per-batch evaluated pairs recorded at
# ---- compute_batch_ranking, against combination_estimation_counts.json ----
stream_out = []
if payload.get("stream_cases"):
    import os
    import shutil
    sys.path.insert(0, os.path.dirname(os.path.abspath(__file__)))
    import impl_c08_lib as L8
    tr = L8.tr
    root = payload["root"]
    for ci, case in enumerate(payload["stream_cases"]):
        cdir = os.path.join(root, "s%d" % ci)
        shutil.rmtree(cdir, ignore_errors=True)
        os.makedirs(os.path.join(cdir, "in"))
        rs = np.random.RandomState(case["seed"])
        with open(os.path.join(cdir, "in", "data.csv"), "w") as f:
            f.write(",".join(case["cols"]) + "\n")
            for _ in range(case["nrows"]):
                f.write(",".join(str(v) for v in rs.randint(0, 3, size=len(case["cols"]))) + "\n")
        out_dir = os.path.join(cdir, "out")
        here = os.getcwd()
        os.chdir(cdir)
        L8.reset_globals()
        _clear_prior()
        argv = ["--task", "ranking", "--data_path", os.path.join(cdir, "in"), "--data_source", "csv-raw",
                "--output_folder", out_dir, "--minibatch_size", str(case["B"]), "--subsampling", "1",
                "--heuristic", case["heuristic"], "--target_ranking_only", case["tro"],
                "--label_column", case["cols"][-1], "--include_cardinality_in_feature_names", "False",
                "--disable_tqdm", "True", "--num_threads", "1", "--interaction_order", str(case["order"]),
                "--combination_number_upper_bound", str(case["cap"]), "--include_noise_baseline_features", "False"]
        args, _src = L8.build_args(argv)
        o = {"ok": True, "batches": []}
        real_cbr = cr.compute_batch_ranking
        real_pool = getattr(tr, "Pool", None)

        def cbr_wrapper(*a, **k):
            ret = real_cbr(*a, **k)
            o["batches"].append([[str(x), str(y)] for x, y, _z in ret[0].triplet_scores])
            return ret
        cr.compute_batch_ranking = cbr_wrapper
        tr.Pool = lambda n: L8.SerialPool(1)
        try:
            try:
                tr.outrank_task_conduct_ranking(args)
            except SystemExit:
                pass
            with open(os.path.join(out_dir, "combination_estimation_counts.json")) as f:
                o["report"] = json.load(f)
        except BaseException as e:
            import traceback
            o["ok"] = False
            o["error"] = "%s: %s" % (type(e).__name__, e)
            o["tb"] = traceback.format_exc()[-1500:]
        finally:
            cr.compute_batch_ranking = real_cbr
            if real_pool is not None:
                tr.Pool = real_pool
            os.chdir(here)
            shutil.rmtree(cdir, ignore_errors=True)
        stream_out.append(o)
    _clear_prior()

cr.GLOBAL_PRIOR_COMB_COUNTS.clear()
print("@@RESULT " + json.dumps({"results": out, "pipe": pipe_out, "big": big_out, "feat": feat_out, "stream": stream_out}))
