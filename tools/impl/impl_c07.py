"""Runs the real prior_combinations_sample on op histories (under /venv/bin/python, PYTHONPATH=/repo)."""
import json
import sys
import types

payload = json.load(sys.stdin)
import outrank.core_ranking as cr  # noqa: E402

out = []
for case in payload["cases"]:
    cr.GLOBAL_PRIOR_COMB_COUNTS.clear()
    obs = []
    try:
        for L, cap in case["ops"]:
            args = types.SimpleNamespace(combination_number_upper_bound=cap)
            combos = [tuple(t) for t in L]
            sel = cr.prior_combinations_sample(combos, args)
            counter = [[list(k), int(v)] for k, v in cr.GLOBAL_PRIOR_COMB_COUNTS.items()]
            obs.append({"sel": [list(t) for t in sel], "counter": counter})
        out.append({"ok": True, "obs": obs})
    except Exception as e:  # recorded outcome, decided by the harness
        out.append({"ok": False, "error": "%s: %s" % (type(e).__name__, e), "obs": obs})


# ---- pipeline level: mixed_rank_graph over a sequence of batches, evaluated pairs read off the emitted rows ----
import numpy as np  # noqa: E402
import pandas as pd  # noqa: E402


class _Res:
    def __init__(self, v):
        self.v = v

    def ready(self):
        return True

    def get(self):
        return self.v


class FakePool:
    def __enter__(self):
        return self

    def __exit__(self, *a):
        return False

    def amap(self, f, xs):
        return _Res([f(x) for x in xs])


class FakeBar:
    def set_description(self, *a, **k):
        pass

    def update(self, *a, **k):
        pass


pipe_out = []
for case in payload.get("pipe_cases", []):
    for _n in dir(cr):
        if _n.startswith("GLOBAL_PRIOR"):
            getattr(cr, _n).clear()
    rs = np.random.RandomState(case["seed"])
    cols = case["columns"]
    obs = []
    try:
        for cap in case["caps"]:
            args = types.SimpleNamespace(
                heuristic=case["heuristic"], target_ranking_only=case["target_only"], label_column=case["label"],
                combination_number_upper_bound=cap, reference_model_JSON="", mi_stratified_sampling_ratio=1.0)
            df = pd.DataFrame({c: [str(v) for v in rs.randint(0, 3, size=case["nrows"])] for c in cols})
            if case.get("interaction_order", 1) > 1:
                args.interaction_order = case["interaction_order"]
                df = cr.compute_combined_features(df, args, FakeBar())
                if "3mr" in args.heuristic:
                    df = cr.compute_combined_features(df, args, FakeBar(), True)
            cands = cr.get_combinations_from_columns(df.columns, types.SimpleNamespace(**vars(args)))
            if case.get("reference"):
                # prior heuristic with a reference model: pairs touching a reference-model feature are not candidates
                # (the filter of mixed_rank_graph, replicated here to know what the sampler is entitled to pick from);
                # the scorer is replaced by a constant: C07 is about WHICH pairs are evaluated, not their scores
                import json as _json, os as _os
                rp = _os.path.join(_os.getcwd(), "c07_ref_%d.json" % _os.getpid())
                with open(rp, "w") as f:
                    _json.dump({"desc": {"features": case["reference"]}}, f)
                args.reference_model_JSON = rp
                ref = [(' AND ').join(tuple(sorted(item.split(',')))) for item in case["reference"]]
                cands = [c for c in cands if c[0] not in ref and c[1] not in ref]
                orig_scorer = cr.get_importances_estimate_pairwise
                cr.get_importances_estimate_pairwise = lambda comb, refs, a, tmp_df=None: (comb[0], comb[1], 0.5)
                try:
                    res = cr.mixed_rank_graph(df, args, FakePool(), FakeBar())
                finally:
                    cr.get_importances_estimate_pairwise = orig_scorer
                    _os.remove(rp)
            else:
                res = cr.mixed_rank_graph(df, args, FakePool(), FakeBar())
            rows = [[a, b, float(s)] for a, b, s in res.triplet_scores]
            counter = [[list(k), int(v)] for k, v in cr.GLOBAL_PRIOR_COMB_COUNTS.items()]
            obs.append({"cands": [list(c) for c in cands], "rows": rows, "counter": counter,
                        "cap_after": args.combination_number_upper_bound})
        export = {str(k): v for k, v in cr.GLOBAL_PRIOR_COMB_COUNTS.items()}
        pipe_out.append({"ok": True, "obs": obs, "export_keys": sorted(export.keys())})
    except Exception as e:
        import traceback
        pipe_out.append({"ok": False, "error": "%s: %s" % (type(e).__name__, e), "tb": traceback.format_exc()[-1500:], "obs": obs})

# ---- scale: very long candidate lists / very many tracked combinations (ids instead of tuples on the wire) ----
big_out = []
for case in payload.get("big_cases", []):
    cr.GLOBAL_PRIOR_COMB_COUNTS.clear()
    lists, ids, off = {}, {}, 0
    for name in sorted(case["lists"]):
        n = case["lists"][name]
        L = [("%s%d" % (name, i), "label" if name == "x" else "%s_other" % name) for i in range(n)]
        lists[name] = L
        for i, k in enumerate(L):
            ids[k] = off + i
        off += n
    obs = []
    try:
        for name, cap in case["ops"]:
            args = types.SimpleNamespace(combination_number_upper_bound=cap)
            sel = cr.prior_combinations_sample(list(lists[name]), args)
            obs.append({"sel": [ids.get(tuple(k), -1) for k in sel],
                        "counter": [[ids.get(k, -1), int(v)] for k, v in cr.GLOBAL_PRIOR_COMB_COUNTS.items() if v]})
        big_out.append({"ok": True, "obs": obs})
    except Exception as e:
        big_out.append({"ok": False, "error": "%s: %s" % (type(e).__name__, e), "obs": obs})
cr.GLOBAL_PRIOR_COMB_COUNTS.clear()
print("@@RESULT " + json.dumps({"results": out, "pipe": pipe_out, "big": big_out}))
