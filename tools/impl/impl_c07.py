"""Runs the real prior_combinations_sample on op histories (under /venv/bin/python, PYTHONPATH=/repo)."""
import json
import sys
import types

payload = json.load(sys.stdin)
import outrank.core_ranking as cr  # noqa: E402

out = []
for case in payload["cases"]:
    cr.GLOBAL_PRIOR_COMB_COUNTS.clear()
    obs = []
    try:
        for L, cap in case["ops"]:
            args = types.SimpleNamespace(combination_number_upper_bound=cap)
            combos = [tuple(t) for t in L]
            sel = cr.prior_combinations_sample(combos, args)
            counter = [[list(k), int(v)] for k, v in cr.GLOBAL_PRIOR_COMB_COUNTS.items()]
            obs.append({"sel": [list(t) for t in sel], "counter": counter})
        out.append({"ok": True, "obs": obs})
    except Exception as e:  # recorded outcome, decided by the harness
        out.append({"ok": False, "error": "%s: %s" % (type(e).__name__, e), "obs": obs})
cr.GLOBAL_PRIOR_COMB_COUNTS.clear()
print("@@RESULT " + json.dumps({"results": out}))
